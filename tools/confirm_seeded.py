#!/usr/bin/env python3
"""confirm_seeded.py <property-id> <agent-worktree> [name]

Independent confirmation of a seeded change produced by a sub-agent, then storage under /verif/seeded/<name>/.  Everything happens in a
fresh scratch worktree of /repo's HEAD (/tmp/vf_confirm_<name>, built with the baseline cmake configuration, removed afterwards), so
several confirmations can run side by side and /repo is never touched:
  1. the patch applies to the worktree (git apply), the library builds and the repository's own test suite still passes;
  2. the demonstration fails with the change;
  3. every quick check of /verif is run against the changed /repo (evidence redirected) - which ones report it is recorded;
  4. the change is undone (git checkout), the library is rebuilt, the demonstration passes and the suite passes.
Nothing of this is ever committed to /repo."""
import json, os, shutil, subprocess, sys, tempfile, time

HERE = os.path.dirname(os.path.abspath(__file__))
VERIF = os.path.dirname(HERE)
sys.path.insert(0, HERE)
import registry
REPO = None  # scratch worktree, set in main()


def sh(cmd, **kw):
    return subprocess.run(cmd, shell=True, capture_output=True, text=True, **kw)


def build_and_test():
    r = sh("cmake --build %s/_build 2>&1 | tail -3" % REPO)
    if "FAILED" in r.stdout or "error" in r.stdout.lower():
        return False, "build failed: " + r.stdout[-400:]
    t = sh("%s/_build/test/spqlios-test 2>&1 | tail -3" % REPO)
    ok = "[  PASSED  ] 238 tests." in t.stdout
    return ok, t.stdout.strip().splitlines()[-1] if t.stdout.strip() else "no output"


def run_demo(dst):
    r = sh("sh %s/run_demo.sh %s" % (dst, REPO))
    tail = (r.stdout + r.stderr).strip().splitlines()[-3:]
    return r.returncode, " / ".join(tail)[:500]


def main():
    pid, wt = sys.argv[1], sys.argv[2]
    name = sys.argv[3] if len(sys.argv) > 3 else pid
    src = os.path.join(wt, "mutant")
    dst = os.path.join(VERIF, "seeded", name)
    os.makedirs(dst, exist_ok=True)
    shutil.copy(os.path.join(src, "patch.diff"), os.path.join(dst, "patch.diff"))
    demo = None
    for f in os.listdir(src):
        if f.startswith("demo") and (f.endswith(".c") or f.endswith(".cpp") or f.endswith(".h")):
            shutil.copy(os.path.join(src, f), os.path.join(dst, f))
            if f.endswith(".c") or f.endswith(".cpp"):
                demo = f
    agent_meta = json.load(open(os.path.join(src, "meta.json")))
    cxx = demo.endswith(".cpp")
    open(os.path.join(dst, "run_demo.sh"), "w").write("""#!/bin/sh
# usage: run_demo.sh [repo_dir]   (default /repo; needs <repo_dir>/_build/spqlios/libspqlios.a)
# exit 0 = the property holds in the targeted situation, non-zero = violated
set -e
REPO="${1:-/repo}"
HERE="$(cd "$(dirname "$0")" && pwd)"
OUT="$(mktemp -d)"
%s -O1 -g %s -mavx2 -mfma -I"$REPO" -I"$REPO/spqlios" "$HERE/%s" "$REPO/_build/spqlios/libspqlios.a" -lm -lpthread -o "$OUT/demo"
set +e
"$OUT/demo"
rc=$?
rm -rf "$OUT"
exit $rc
""" % ("g++" if cxx else "gcc", "" if cxx else "-std=gnu11", demo))
    log = {}
    global REPO
    REPO = "/tmp/vf_confirm_" + name
    sh("git -C /repo worktree remove --force " + REPO)
    a = sh("git -C /repo worktree add --detach %s HEAD" % REPO)
    if a.returncode:
        sys.exit("cannot create scratch worktree: " + a.stderr)
    c = sh("cmake -G Ninja -S %s -B %s/_build -DCMAKE_BUILD_TYPE=RelWithDebInfo -DCMAKE_C_FLAGS=-Wno-error -DCMAKE_CXX_FLAGS=-Wno-error" % (REPO, REPO))
    if c.returncode:
        sys.exit("cmake configure failed: " + c.stderr[-400:])
    a = sh("git -C %s apply %s/patch.diff" % (REPO, dst))
    if a.returncode:
        sh("git -C /repo worktree remove --force " + REPO)
        sys.exit("patch does not apply: " + a.stderr)
    try:
        ok, msg = build_and_test()
        log["tests_with_change"] = msg
        log["tests_pass_with_change"] = ok
        rc, tail = run_demo(dst)
        log["demo_with_change"] = "exit %d: %s" % (rc, tail)
        log["demo_fails_with_change"] = rc != 0
        out = tempfile.mkdtemp(prefix="vf_seed_")
        env = dict(os.environ, VERIF_OUT_DIR=out, VERIF_REPO=REPO)
        caught, details = [], {}
        for c in sorted(registry.CHECKS):
            r = subprocess.run([sys.executable, os.path.join(HERE, "run_check.py"), c, "quick"], env=env, capture_output=True, text=True)
            lines = r.stdout.splitlines()
            if r.returncode == 1:
                caught.append(c)
                for i, l in enumerate(lines):
                    if l.startswith("VIOLATION"):
                        details[c] = " | ".join(x.strip() for x in lines[i + 1:i + 3])[:500]
                        break
            elif r.returncode != 0:
                details[c] = "check error rc=%d: %s" % (r.returncode, (r.stdout + r.stderr)[-300:])
        shutil.rmtree(out, ignore_errors=True)
        log["caught_by_quick_checks"] = caught
        log["first_violation"] = details
    finally:
        sh("git -C %s checkout -- ." % REPO)
    ok2, msg2 = build_and_test()
    log["tests_without_change"] = msg2
    rc2, tail2 = run_demo(dst)
    log["demo_without_change"] = "exit %d: %s" % (rc2, tail2)
    log["demo_passes_without_change"] = rc2 == 0
    meta = {
        "property": pid,
        "summary": agent_meta.get("summary"),
        "needs": agent_meta.get("needs"),
        "files_changed": agent_meta.get("files_changed"),
        "origin": "written by an independent sub-agent that saw only the property text and a scratch worktree",
        "what_i_ran": ["git worktree add <scratch> HEAD; git -C <scratch> apply seeded/%s/patch.diff" % name, "cmake --build <scratch>/_build && <scratch>/_build/test/spqlios-test",
                       "sh seeded/%s/run_demo.sh <scratch>" % name, "VERIF_REPO=<scratch> python3 tools/run_check.py <every id> quick (VERIF_OUT_DIR redirected)",
                       "git -C <scratch> checkout -- . ; rebuild ; demo again ; git worktree remove"],
        "confirmed": log,
        "kept": bool(log.get("tests_pass_with_change") and log.get("demo_fails_with_change") and log.get("demo_passes_without_change")),
        "date": time.strftime("%Y-%m-%d"),
    }
    json.dump(meta, open(os.path.join(dst, "meta.json"), "w"), indent=1)
    print(json.dumps({k: meta["confirmed"][k] for k in ("tests_pass_with_change", "demo_fails_with_change", "demo_passes_without_change", "caught_by_quick_checks")}))
    print("kept:", meta["kept"])
    sh("git -C /repo worktree remove --force " + REPO)


if __name__ == "__main__":
    main()
