#!/bin/sh
# confirm_round.sh <suffix> <id>...   confirms the finished sub-agent worktrees /tmp/wt/<id>_<suffix> (three lanes, flock),
# stores the change under seeded/<id>_<suffix> and removes the agent's worktree (log: /tmp/wt/confirm_<id>_<suffix>.log)
sfx="$1"; shift
for id in "$@"; do
  n="${id}_${sfx}"
  lane=$(( $(echo "$n" | cksum | cut -d" " -f1) % 3 ))
  (
    flock 9
    python3 /verif/tools/confirm_seeded.py "$id" "/tmp/wt/$n" "$n" > "/tmp/wt/confirm_$n.log" 2>&1
    if grep -q "^kept: True" "/tmp/wt/confirm_$n.log"; then
      git -C /repo worktree remove --force "/tmp/wt/$n"
    fi
    echo "$n: $(tail -2 /tmp/wt/confirm_$n.log | tr '\n' ' ')" >> /tmp/wt/CONFIRMED.log
  ) 9>/tmp/wt/confirm.lock.$lane
done
