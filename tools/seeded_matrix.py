#!/usr/bin/env python3
"""seeded_matrix.py [names...]
Re-evaluates the stored seeded changes (seeded/<name>/patch.diff) against the CURRENT checks: for each one a scratch
worktree of /repo's HEAD (under /tmp, removed afterwards) gets the patch, every quick check runs against it through
eval_mutant.py (VERIF_REPO = worktree, evidence redirected), and the result is written to seeded/MATRIX.json and
seeded/MATRIX.md.  /repo itself is never modified.  A seeded change that its own property's check does not report is
listed under "missed_by_own_check" and makes the tool exit 1."""
import json, os, subprocess, sys, shutil
HERE = os.path.dirname(os.path.abspath(__file__))
VERIF = os.path.dirname(HERE)
REPO = "/repo"
OWN = "--own" in sys.argv   # fast regression mode: only the check of the change's own property and the checks recorded as catching it
if OWN: sys.argv.remove("--own")
ONLYOWN = "--only-own" in sys.argv   # fastest mode: only the check of the change's own property
if ONLYOWN: sys.argv.remove("--only-own"); OWN = True
LANE = None                 # --lane i/n: this process handles every n-th change (own worktree, own partial result file seeded/.matrix_lane_i.json; merge with --merge)
if "--lane" in sys.argv:
    k = sys.argv.index("--lane"); LANE = tuple(int(x) for x in sys.argv[k + 1].split("/")); del sys.argv[k:k + 2]
MERGE = "--merge" in sys.argv
if MERGE: sys.argv.remove("--merge")
names = sys.argv[1:] or sorted(d for d in os.listdir(os.path.join(VERIF, "seeded")) if os.path.exists(os.path.join(VERIF, "seeded", d, "patch.diff")))
wt = "/tmp/vf_matrix_wt" + ("_%d" % LANE[0] if LANE else "")
if LANE: names = [n for i, n in enumerate(names) if i % LANE[1] == LANE[0]]
if not MERGE:
    subprocess.run(["git", "-C", REPO, "worktree", "remove", "--force", wt], capture_output=True)
    subprocess.run(["git", "-C", REPO, "worktree", "add", "--detach", wt, "HEAD"], check=True, capture_output=True)
mpath = os.path.join(VERIF, "seeded", "MATRIX.json")
matrix = json.load(open(mpath)) if os.path.exists(mpath) else {}
if LANE:
    mpath = os.path.join(VERIF, "seeded", ".matrix_lane_%d.json" % LANE[0])
    matrix = json.load(open(mpath)) if os.path.exists(mpath) else {}   # resume: what this lane has already evaluated is kept
    import glob
    done = {}
    for f in glob.glob(os.path.join(VERIF, "seeded", ".matrix_lane_*.json")): done.update(json.load(open(f)))
    names = [n for n in names if n not in done or done[n].get("machinery_errors")]
if MERGE:
    import glob
    for f in sorted(glob.glob(os.path.join(VERIF, "seeded", ".matrix_lane_*.json"))):
        matrix.update(json.load(open(f))); os.remove(f)
    names = []
try:
    for n in names:
        patch = os.path.join(VERIF, "seeded", n, "patch.diff")
        subprocess.run(["git", "-C", wt, "checkout", "--", "."], check=True)
        r = subprocess.run(["git", "-C", wt, "apply", patch], capture_output=True, text=True)
        if r.returncode:
            print(n, "PATCH DOES NOT APPLY", r.stderr[:300]); matrix[n] = {"error": "patch does not apply"}; continue
        ids = []
        if OWN:
            ids = [n.split("_")[0]]
            try:
                meta = json.load(open(os.path.join(VERIF, "seeded", n, "meta.json")))
                if not ONLYOWN: ids += [c for c in meta.get("confirmed", {}).get("caught_by_quick_checks", []) if c not in ids]
            except Exception:
                pass
        r = subprocess.run([sys.executable, os.path.join(HERE, "eval_mutant.py"), wt] + ids, capture_output=True, text=True)
        caught, errors, first = [], [], {}
        for l in r.stdout.splitlines():
            p = l.split()
            if len(p) >= 2 and p[1] == "CAUGHT": caught.append(p[0]); first[p[0]] = l[l.index("CAUGHT") + 7:][:300]
            if len(p) >= 2 and p[1].startswith("ERROR"): errors.append(p[0])
        matrix[n] = {"caught_by": caught, "machinery_errors": errors, "first_violation": first, "checks_run": ids or "all"}
        print(n, "caught by", caught, ("ERRORS " + str(errors)) if errors else "", flush=True)
        json.dump(matrix, open(mpath, "w"), indent=1, sort_keys=True)
finally:
    if not MERGE: subprocess.run(["git", "-C", REPO, "worktree", "remove", "--force", wt], capture_output=True)
if LANE:
    sys.exit(0)
# markdown
rows = ["| seeded change | property | caught by (quick tier, current checks) |", "|---|---|---|"]
missed = []
for n in sorted(matrix):
    own = n.split("_")[0]
    cb = matrix[n].get("caught_by", [])
    if own not in cb: missed.append(n)
    extra = ""
    if own not in cb:   # not its own property's business (a concurrency / lifetime defect, or thorough-tier only): what reported it when it was confirmed
        try:
            meta = json.load(open(os.path.join(VERIF, "seeded", n, "meta.json")))
            rec = [c for c in meta.get("confirmed", {}).get("caught_by_quick_checks", []) if c not in cb]
            if rec: extra = " (when confirmed: %s)" % ", ".join(rec)
        except Exception:
            pass
    rows.append("| %s | %s | %s%s |" % (n, own, ", ".join(("**%s**" % c) if c == own else c for c in cb) or "-", extra))
open(os.path.join(VERIF, "seeded", "MATRIX.md"), "w").write("\n".join(rows) + "\n")
json.dump(matrix, open(mpath, "w"), indent=1, sort_keys=True)
print("missed by its own property's check:", missed)
sys.exit(1 if missed else 0)
