#!/usr/bin/env python3
"""seed_round.py <suffix> [--spec <json>] [ids...]

Prepares one round of independently written property-breaking changes: for every property a scratch git worktree of /repo's HEAD under
/tmp/wt/<id>_<suffix> and a task file /tmp/wt/<id>_<suffix>.TASK.md for a fresh sub-agent.  The task file holds the text of the
property, the build / delivery instructions and one-line descriptions of the changes earlier rounds produced (so that a new one differs)
- nothing about /verif's checks.  With --spec, a JSON object {id: "description"} asks for that specific change instead (used to
re-create a change whose patch was lost).  After the agent finishes: tools/confirm_seeded.py <id> /tmp/wt/<id>_<suffix> <id>_<suffix>,
then git -C /repo worktree remove --force /tmp/wt/<id>_<suffix>."""
import json, os, subprocess, sys

HERE = os.path.dirname(os.path.abspath(__file__))
VERIF = os.path.dirname(HERE)

INSTR = """# Task

You are given a scratch git worktree of the C library tfhe/spqlios-arithmetic at {wt} (a detached checkout; FFT/NTT and negacyclic
polynomial arithmetic for FHE).  Work ONLY inside {wt}.  Do not read or touch /repo or /verif (they are off limits), and do not use the
network (there is none).

Below is the text of one semantic property that the library is supposed to satisfy.  {what}

Requirements on the change
* It edits only files under spqlios/ (never test/, never CMake files) and is small (a few to a few dozen lines).
* It looks like something a maintainer could plausibly write or accept: an optimisation, a shortcut / fast path, a refactoring, a
  "simplification", a changed threshold, a cache, a hoisted buffer, a reordered statement... - not an obvious sabotage.
* The library still compiles without new warnings and the repository's own test suite still passes completely with the change
  (238 tests: `./_build/test/spqlios-test`).
* It really breaks the property FOR INPUTS / USES INSIDE THE PROPERTY'S STATED DOMAIN (do not rely on undefined behaviour of the
  caller, out-of-contract arguments or NULL pointers), and it needs something specific to manifest - a particular multi-step sequence of
  calls, an unusual but legal shape / size / stride / alignment / value class, a particular thread interleaving, an environment answer
  (what malloc returns, what fresh memory contains), or two cooperating edits that each look fine alone.  Ordinary use must NOT expose
  it at once.
{avoid}
Build and test (from {wt}):
```
cmake -G Ninja -S . -B _build -DCMAKE_BUILD_TYPE=RelWithDebInfo -DCMAKE_C_FLAGS=-Wno-error -DCMAKE_CXX_FLAGS=-Wno-error
cmake --build _build && ./_build/test/spqlios-test | tail -3
```
(about 20 s; the machine has AVX2, FMA and AVX-512.)

Deliverables, in the directory {wt}/mutant/ :
* `patch.diff` - output of `git diff` (from the worktree root, relative to HEAD, only spqlios/ files) so that `git apply patch.diff` on a
  clean checkout reproduces your change;
* `demo.c` (or `demo.cpp`) - ONE self-contained program that uses only the library's public / exported functions (headers under
  spqlios/), exits 0 and prints a line starting with `OK` when the property holds in the targeted situation, and exits non-zero and prints
  what is wrong when it is violated.  It must be deterministic (for a thread-interleaving defect make it fail reliably, e.g. by
  repeating, barriers, many threads).  It is compiled from any directory with
  `gcc -O1 -g -std=gnu11 -mavx2 -mfma -I<wt> -I<wt>/spqlios demo.c <wt>/_build/spqlios/libspqlios.a -lm -lpthread -o demo`
  (g++ without -std=gnu11 for demo.cpp);
* `meta.json` - {{"summary": "<what the change does, 2-4 sentences>", "needs": "<what exactly is needed for it to manifest, and what does NOT
  expose it>", "files_changed": ["spqlios/..."]}}.

Before you finish, verify all of this yourself: with the change the 238 tests pass and the demo FAILS; with the change reverted
(`git stash` or `git apply -R`) and the library rebuilt the demo PASSES.  Leave the worktree with your change applied and `mutant/`
filled in.  Report in your final message: the summary, what it needs, and the outputs of those verification runs.

# The property

id: {id}
title: {title}

statement: {statement}

quantified over: {quant}

anchors (where the behaviour lives): {anchors}
"""


def earlier(pid):
    out = []
    sd = os.path.join(VERIF, "seeded")
    for d in sorted(os.listdir(sd)):
        if d == pid or d.startswith(pid + "_"):
            mp = os.path.join(sd, d, "meta.json")
            if os.path.exists(mp):
                m = json.load(open(mp))
                out.append("- " + (m.get("summary") or "")[:420])
    return out


def main():
    args = sys.argv[1:]
    suffix = args.pop(0)
    spec = None
    if args and args[0] == "--spec":
        spec = json.load(open(args[1]))
        args = args[2:]
    extra_avoid = {}
    if args and args[0] == "--avoid":
        extra_avoid = json.load(open(args[1]))
        args = args[2:]
    props = {}
    for l in open(os.path.join(VERIF, "properties.jsonl")):
        d = json.loads(l)
        props[d["id"]] = d
    ids = args or sorted(props)
    os.makedirs("/tmp/wt", exist_ok=True)
    for pid in ids:
        p = props[pid]
        name = "%s_%s" % (pid, suffix)
        wt = "/tmp/wt/" + name
        if not os.path.exists(wt):
            subprocess.run(["git", "-C", "/repo", "worktree", "add", "--detach", wt, "HEAD"], check=True, capture_output=True)
        if spec is not None:
            what = ("Implement the following SPECIFIC change to the library (it was designed earlier as a realistic change that breaks the property; "
                    "you re-create it), plus a demonstration program:\n\n    " + spec[pid] + "\n\nIf a detail is not fixed by this description, "
                    "choose the most natural realisation that satisfies all the requirements below.")
            avoid = ""
        else:
            what = ("Write a change to the library that breaks this property while still compiling and passing the existing tests, plus a "
                    "demonstration program that fails with the change and passes without it.")
            prev = earlier(pid) + ["- " + x for x in extra_avoid.get(pid, [])]
            avoid = ("* Earlier attempts already produced the following changes; yours must use a DIFFERENT function and a DIFFERENT mechanism / "
                     "trigger than all of them:\n" + "\n".join(prev) + "\n") if prev else ""
        q = p.get("quantifier", {})
        txt = INSTR.format(wt=wt, what=what, avoid=avoid, id=pid, title=p["title"], statement=p["statement"],
                           quant=q.get("text", "") if isinstance(q, dict) else str(q), anchors=json.dumps(p.get("anchors", {})))
        open(wt + ".TASK.md", "w").write(txt)
        print(wt + ".TASK.md")


if __name__ == "__main__":
    main()
