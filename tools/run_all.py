#!/usr/bin/env python3
"""run_all.py quick|thorough [ids...]: runs the registered checks one after the other and prints a table of exit status and wall time."""
import os, subprocess, sys, time
HERE = os.path.dirname(os.path.abspath(__file__))
sys.path.insert(0, HERE)
import registry
tier = sys.argv[1] if len(sys.argv) > 1 else "quick"
ids = sys.argv[2:] or sorted(registry.CHECKS)
rows = []
for c in ids:
    t0 = time.time()
    r = subprocess.run([sys.executable, os.path.join(HERE, "run_check.py"), c, tier], capture_output=True, text=True)
    dt = time.time() - t0
    last = [l for l in r.stdout.splitlines() if l.startswith(c + " ")]
    rows.append((c, r.returncode, dt, last[-1] if last else (r.stdout + r.stderr)[-300:]))
    print("%s rc=%d %.1fs  %s" % rows[-1], flush=True)
    if r.returncode != 0:
        print(r.stdout[-3000:]); print(r.stderr[-2000:])
print("TOTAL %.1fs, failures: %s" % (sum(x[2] for x in rows), [x[0] for x in rows if x[1] != 0]))
