#!/usr/bin/env python3
"""run_check.py <ID> quick|thorough            run a check (rebuilds the library from /repo's working tree)
   run_check.py <ID> --replay <file>          re-execute one recorded case, twice, same observations
   run_check.py --build-all                   setup: build every library configuration and every check

Exit status: 0 property held on everything explored; 1 violation (a `VIOLATION property=.. replay=..`
line was printed); 3 machinery error (never a verdict about the property)."""
import hashlib, json, os, subprocess, sys, time

HERE = os.path.dirname(os.path.abspath(__file__))
VERIF = os.path.dirname(HERE)
sys.path.insert(0, HERE)
import build_lib

REPO = build_lib.REPO
CXX = "g++"

import registry
CHECKS = registry.CHECKS


def load_checks():
    pass


def die(msg):
    sys.stderr.write("MACHINERY-ERROR run_check: %s\n" % msg)
    sys.exit(3)


def harness_hash(extra_files):
    h = hashlib.sha256()
    hd = os.path.join(VERIF, "harness")
    files = sorted(os.path.join(hd, f) for f in os.listdir(hd))
    for p in files + list(extra_files) + [os.path.abspath(__file__)]:
        if os.path.isfile(p):
            h.update(p.encode() + b"\0" + open(p, "rb").read())
    return h.hexdigest()[:12]


def build_check(cid, spec=None, tag=None):
    spec = spec or CHECKS[cid]
    tag = tag or cid.lower()
    lib = build_lib.build(spec["cfg"])
    src = os.path.join(VERIF, spec["src"])
    extra_src = [os.path.join(VERIF, s) for s in spec.get("extra_src", [])]
    hh = harness_hash([src] + extra_src)
    bindir = os.path.join(lib["dir"], "bin")
    os.makedirs(bindir, exist_ok=True)
    exe = os.path.join(bindir, "%s-%s" % (tag, hh))
    if os.path.exists(exe):
        return exe, lib
    flags = ["-std=gnu++17", "-w", "-I", os.path.join(REPO, "spqlios"), "-I", os.path.join(VERIF, "harness"),
             "-DNDEBUG", "-DSPQLIOS_VERIF", "-mavx2", "-mfma"]
    cfg = spec["cfg"]
    if cfg == "asan":
        flags += ["-O1", "-g", "-fsanitize=address", "-fno-omit-frame-pointer"]
    elif cfg == "tsan":
        flags += ["-O1", "-g", "-fsanitize=thread"]
    else:
        flags += ["-O2", "-g"]
    flags += spec.get("cxxflags", [])
    libs = []
    if spec.get("link", "static") == "static":
        libs += [lib["a"]]
    else:
        libs += ["-L" + lib["dir"], "-lspq", "-Wl,-rpath," + lib["dir"], "-rdynamic", "-ldl"]
    libs += ["-Wl," + ",".join("--wrap=" + w for w in build_lib.WRAP)]
    libs += ["-lm", "-lquadmath", "-lpthread"] + spec.get("ldflags", [])
    tmp = exe + ".tmp%d" % os.getpid()
    cmd = [CXX] + flags + [src] + extra_src + ["-o", tmp] + libs
    r = subprocess.run(cmd, capture_output=True, text=True)
    if r.returncode != 0:
        sys.stderr.write(r.stderr[-6000:])
        die("compiling %s failed (harness does not fit the tree under test?)" % spec["src"])
    os.rename(tmp, exe)
    # drop stale binaries of this check
    for f in os.listdir(bindir):
        if f.startswith(tag + "-") and os.path.join(bindir, f) != exe and ".tmp" not in f:
            try:
                os.unlink(os.path.join(bindir, f))
            except OSError:
                pass
    return exe, lib


def validate_evidence(cid, tier):
    p = os.path.join(os.environ.get("VERIF_OUT_DIR") or VERIF, "evidence", cid + ".json")
    if not os.path.exists(p):
        die("check did not write " + p)
    try:
        ev = json.load(open(p))
    except Exception as e:
        die("evidence file is not JSON: %s" % e)
    for k in ("property_id", "tier", "seed", "level", "coverage", "wall_s"):
        if k not in ev:
            die("evidence lacks key " + k)
    if ev["property_id"] != cid or ev["tier"] != tier:
        die("evidence file belongs to another run")
    cov = ev["coverage"]
    if ev["level"] == "model_checking" and all(k in cov for k in ("states", "transitions", "traces_validated_against_impl", "samples")):
        if cov["states"] < 1 or cov["transitions"] < 1 or not cov["samples"]:
            die("model_checking evidence with empty state space")
    else:
        if cov.get("evaluations", 0) < 1 or cov.get("distinct_nontrivial", 0) < 2 or not cov.get("samples"):
            die("evidence reports a vacuous run (evaluations=%s distinct_nontrivial=%s)" % (cov.get("evaluations"), cov.get("distinct_nontrivial")))


def main():
    load_checks()
    if len(sys.argv) >= 2 and sys.argv[1] == "--build-all":
        t0 = time.time()
        cfgs = sorted(set(c["cfg"] for c in CHECKS.values()) | set(x for c in CHECKS.values() for x in c.get("also_cfgs", [])))
        for c in cfgs:
            build_lib.build(c)
        import concurrent.futures as cf
        jobs = [(c, None, None) for c in sorted(CHECKS)]
        for c in sorted(CHECKS):
            for i, aux in enumerate(CHECKS[c].get("aux", [])):
                build_lib.build(aux["cfg"])
                jobs.append((c, aux, "%s_aux%d" % (c.lower(), i)))
        with cf.ThreadPoolExecutor(8) as ex:
            list(ex.map(lambda j: build_check(*j), jobs))
        print("built %d library configurations and %d checks in %.1fs" % (len(cfgs), len(CHECKS), time.time() - t0))
        return 0
    if len(sys.argv) < 3:
        print(__doc__)
        return 3
    cid = sys.argv[1]
    if cid not in CHECKS:
        die("unknown check " + cid)
    exe, lib = build_check(cid)
    spec = CHECKS[cid]
    env = dict(os.environ)
    for i, aux in enumerate(spec.get("aux", [])):
        env["VERIF_AUX_%d" % i] = build_check(cid, aux, "%s_aux%d" % (cid.lower(), i))[0]
    env["VERIF_DIR"] = VERIF
    env["VERIF_REPO"] = REPO
    env["VERIF_LIBDIR"] = lib["dir"]
    for c in spec.get("also_cfgs", []):
        env["VERIF_LIBDIR_" + c.upper()] = build_lib.build(c)["dir"]
    env.setdefault("ASAN_OPTIONS", "detect_leaks=0:abort_on_error=1:allocator_may_return_null=1:detect_stack_use_after_return=0")
    env.setdefault("TSAN_OPTIONS", "halt_on_error=0:report_signal_unsafe=0")
    args = sys.argv[2:]
    if args[0] == "--replay":
        outs = []
        for k in range(2):
            r = subprocess.run([exe] + args, env=env, capture_output=True, text=True)
            body = "\n".join(l for l in r.stdout.splitlines() if "wall=" not in l)
            outs.append((r.returncode, body))
            if k == 0:
                sys.stdout.write(r.stdout)
                sys.stderr.write(r.stderr)
        if outs[0] != outs[1]:
            die("replay is not deterministic: two executions of the same case gave different observations")
        return outs[0][0]
    tier = args[0]
    if tier not in ("quick", "thorough"):
        die("tier must be quick or thorough")
    ev = os.path.join(VERIF, "evidence", cid + ".json")
    r = subprocess.run([exe, tier], env=env)
    rc = r.returncode
    if rc < 0:
        die("check driver killed by signal %d" % -rc)
    if rc not in (0, 1):
        sys.stderr.write("MACHINERY-ERROR run_check: check exited with status %d\n" % rc)
        return 3
    validate_evidence(cid, tier)
    return rc


if __name__ == "__main__":
    sys.exit(main())
