#!/usr/bin/env python3
"""Build the code under test (always from /repo's current working tree).

The source lists are parsed out of /repo/spqlios/CMakeLists.txt so that added or removed files
follow the repository's own build.  Outputs are cached under /verif/build/<tree-hash>/<config>/.

Configurations
  rel   -O2 -fPIC -DNDEBUG -DSPQLIOS_VERIF               -> libspq.a and libspq.so
  asan  -O1 -g -fsanitize=address ... (same defines)      -> libspq.a
  tsan  -O1 -g -fsanitize=thread                          -> libspq.a
  p29 / p31  rel + -DSPQLIOS_Q120_USE_{29,31}_BIT_PRIMES  -> libspq.a   (informational only)
"""
import hashlib, os, re, shutil, subprocess, sys, concurrent.futures as cf

REPO = os.environ.get("VERIF_REPO", "/repo")
VERIF = os.path.dirname(os.path.dirname(os.path.abspath(__file__)))
BUILD = os.path.join(VERIF, "build")
SRC = os.path.join(REPO, "spqlios")
CC = "gcc"

CONFIGS = {
    "rel": ["-O2", "-fPIC"],
    "asan": ["-O1", "-g", "-fPIC", "-fsanitize=address", "-fno-omit-frame-pointer"],
    "tsan": ["-O1", "-g", "-fPIC", "-fsanitize=thread"],
    "p29": ["-O2", "-fPIC", "-DSPQLIOS_Q120_USE_29_BIT_PRIMES"],
    "p31": ["-O2", "-fPIC", "-DSPQLIOS_Q120_USE_31_BIT_PRIMES"],
}
COMMON = ["-DNDEBUG", "-DSPQLIOS_VERIF", "-w"]
LIST_FLAGS = {
    "SRCS_GENERIC": [],
    "SRCS_X86": [],
    "SRCS_FMA_C": ["-mfma", "-mavx", "-mavx2"],
    "SRCS_FMA_ASM": ["-mfma", "-mavx", "-mavx2"],
    "SRCS_AVX2": ["-mbmi2", "-mavx2"],
    "SRCS_AVX512": ["-mfma", "-mavx512f", "-mavx512vl", "-mavx512dq"],
}
SHARED_CONFIGS = ("rel", "p29", "p31")
WRAP = ["malloc", "free", "aligned_alloc", "calloc", "realloc", "posix_memalign"]


def die(msg):
    sys.stderr.write("MACHINERY-ERROR build_lib: %s\n" % msg)
    sys.exit(3)


def parse_lists():
    txt = open(os.path.join(SRC, "CMakeLists.txt")).read()
    out = {}
    for name in LIST_FLAGS:
        m = re.search(r"set\(\s*%s\b(.*?)\)" % name, txt, re.S)
        if not m:
            die("list %s not found in spqlios/CMakeLists.txt" % name)
        body = re.sub(r"#.*", "", m.group(1))
        files = []
        for f in body.split():
            if f not in files:
                files.append(f)
        out[name] = files
    # flags: follow set_source_files_properties when present
    for m in re.finditer(r"set_source_files_properties\(\$\{(\w+)\}\s+PROPERTIES\s+COMPILE_OPTIONS\s+\"([^\"]*)\"", txt):
        if m.group(1) in LIST_FLAGS:
            LIST_FLAGS[m.group(1)] = m.group(2).split(";")
    return out


def tree_hash():
    h = hashlib.sha256()
    for root, dirs, files in sorted(os.walk(SRC)):
        dirs.sort()
        for f in sorted(files):
            p = os.path.join(root, f)
            h.update(os.path.relpath(p, SRC).encode())
            h.update(b"\0")
            with open(p, "rb") as fh:
                h.update(fh.read())
            h.update(b"\0")
    h.update(open(os.path.abspath(__file__), "rb").read())
    return h.hexdigest()[:16]


def prune(keep):
    if not os.path.isdir(BUILD):
        return
    ds = [d for d in os.listdir(BUILD) if os.path.isdir(os.path.join(BUILD, d)) and d != keep and len(d) == 16]
    ds.sort(key=lambda d: os.path.getmtime(os.path.join(BUILD, d)))
    for d in ds[:-24]:  # several trees can be in use at the same time (seeded-change evaluations next to the normal runs)
        shutil.rmtree(os.path.join(BUILD, d), ignore_errors=True)


def compile_one(args):
    cmd, obj = args
    r = subprocess.run(cmd, capture_output=True, text=True)
    return (r.returncode, cmd, r.stderr)


def build(config, quiet=True):
    """returns dict(dir=..., a=..., so=... or None, hash=...)"""
    if config not in CONFIGS:
        die("unknown config " + config)
    th = tree_hash()
    out = os.path.join(BUILD, th, config)
    stamp = os.path.join(out, "OK")
    res = {"dir": out, "a": os.path.join(out, "libspq.a"), "hash": th,
           "so": os.path.join(out, "libspq.so") if config in SHARED_CONFIGS else None}
    if os.path.exists(stamp):
        os.utime(os.path.join(BUILD, th))
        return res
    prune(th)
    tmp = out + ".tmp%d" % os.getpid()
    shutil.rmtree(tmp, ignore_errors=True)
    os.makedirs(os.path.join(tmp, "obj"))
    lists = parse_lists()
    jobs, objs = [], []
    for lname, files in lists.items():
        for f in files:
            srcp = os.path.join(SRC, f)
            if not os.path.exists(srcp):
                die("source %s listed in CMakeLists.txt does not exist" % f)
            obj = os.path.join(tmp, "obj", f.replace("/", "__") + ".o")
            cmd = [CC, "-c", srcp, "-o", obj, "-I", SRC] + CONFIGS[config] + COMMON + LIST_FLAGS[lname]
            jobs.append((cmd, obj))
            objs.append(obj)
    with cf.ThreadPoolExecutor(16) as ex:
        for rc, cmd, err in ex.map(compile_one, jobs):
            if rc != 0:
                sys.stderr.write(err)
                die("compilation failed: " + " ".join(cmd))
    a = os.path.join(tmp, "libspq.a")
    subprocess.check_call(["ar", "rcs", a] + objs)
    if config in SHARED_CONFIGS:
        so = os.path.join(tmp, "libspq.so")
        cmd = [CC, "-shared", "-o", so] + objs + ["-lm", "-Wl,-z,now",
               "-Wl," + ",".join("--wrap=" + w for w in WRAP)]
        r = subprocess.run(cmd, capture_output=True, text=True)
        if r.returncode != 0:
            sys.stderr.write(r.stderr)
            die("linking libspq.so failed")
    open(os.path.join(tmp, "OK"), "w").write(th + "\n")
    if os.path.exists(out):
        shutil.rmtree(out, ignore_errors=True)
    try:
        os.rename(tmp, out)
    except OSError:
        shutil.rmtree(tmp, ignore_errors=True)  # a concurrent builder won the race
        if not os.path.exists(stamp):
            die("could not publish build directory " + out)
    return res


if __name__ == "__main__":
    cfgs = sys.argv[1:] or ["rel"]
    for c in cfgs:
        r = build(c)
        print(c, r["dir"])
