#!/usr/bin/env python3
"""Writes /verif/MANIFEST.json from tools/registry.py (so that it is always valid and current)."""
import json, os, sys
HERE = os.path.dirname(os.path.abspath(__file__))
VERIF = os.path.dirname(HERE)
sys.path.insert(0, HERE)
import registry

props = [json.loads(l)["id"] for l in open(os.path.join(VERIF, "properties.jsonl")) if l.strip()]
checks = []
na = []
for pid in props:
    c = registry.CHECKS.get(pid)
    if c is None:
        na.append({"property_id": pid, "reason": registry.NOT_YET.get(pid, "check not built yet (planned in DESIGN.md section 4); nothing is claimed for this property at this commit")})
        continue
    e = {
        "property_id": pid,
        "quick_cmd": "python3 tools/run_check.py %s quick" % pid,
        "thorough_cmd": "python3 tools/run_check.py %s thorough" % pid,
        "evidence_file": "/verif/evidence/%s.json" % pid,
        "replay_cmd_template": "python3 tools/run_check.py %s --replay {path}" % pid,
        "engine": c["engine"],
        "level_claimed": {"category": c["category"], "text": c["text"], "design_ref": c["design_ref"]},
        "level_note": c["note"],
        "technique": c["technique"],
    }
    checks.append(e)
m = {
    "version": 1,
    "setup_cmd": "python3 tools/setup.py",
    "hooks": {
        "guard": "SPQLIOS_VERIF",
        "enable": "tools/build_lib.py compiles /repo/spqlios directly (file lists parsed from spqlios/CMakeLists.txt) with -DSPQLIOS_VERIF -DNDEBUG; the only hook is the CPU-feature override of CPU_SUPPORTS in spqlios/commons_private.h, answered by spqlios_verif_cpu_allows() in harness/bufs.hpp",
        "baseline_off_cmd": "cmake -G Ninja -S /repo -B /repo/_build -DCMAKE_BUILD_TYPE=RelWithDebInfo -DCMAKE_C_FLAGS=-Wno-error -DCMAKE_CXX_FLAGS=-Wno-error && cmake --build /repo/_build && ctest --test-dir /repo/_build -j8 --timeout 900",
        "source_commits": ["9be1672"],
        "add_only": True,
    },
    "engines": registry.ENGINES if hasattr(registry, "ENGINES") else [],
    "checks": checks,
    "notes": registry.NOTES if hasattr(registry, "NOTES") else "",
    "not_applicable": na,
}
json.dump(m, open(os.path.join(VERIF, "MANIFEST.json"), "w"), indent=1)
print("MANIFEST.json: %d checks, %d not claimed" % (len(checks), len(na)))
