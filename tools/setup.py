#!/usr/bin/env python3
"""MANIFEST.setup_cmd: builds every library configuration and every check binary from files on disk."""
import os, subprocess, sys
HERE = os.path.dirname(os.path.abspath(__file__))
sys.exit(subprocess.call([sys.executable, os.path.join(HERE, "run_check.py"), "--build-all"]))
