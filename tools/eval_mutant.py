#!/usr/bin/env python3
"""eval_mutant.py <repo-or-worktree> [ids...]
Runs the quick tier of the given checks (default: all) against another source tree (VERIF_REPO) with evidence and
replays redirected to a scratch directory, and prints which checks report a violation.  Used to evaluate seeded changes
in a scratch worktree without touching /repo or /verif/evidence."""
import os, subprocess, sys, tempfile, shutil
HERE = os.path.dirname(os.path.abspath(__file__))
sys.path.insert(0, HERE)
import registry
tree = sys.argv[1]
ids = sys.argv[2:] or sorted(registry.CHECKS)
out = tempfile.mkdtemp(prefix="vf_eval_")
env = dict(os.environ, VERIF_REPO=tree, VERIF_OUT_DIR=out)
res = {}
for c in ids:
    r = subprocess.run([sys.executable, os.path.join(HERE, "run_check.py"), c, "quick"], env=env, capture_output=True, text=True)
    viol = [l for l in r.stdout.splitlines() if l.startswith("VIOLATION")]
    first = ""
    lines = r.stdout.splitlines()
    for i, l in enumerate(lines):
        if l.startswith("VIOLATION"):
            first = " | ".join(x.strip() for x in lines[i + 1:i + 3])[:400]
            break
    res[c] = (r.returncode, len(viol), first)
    tag = "CAUGHT" if r.returncode == 1 else ("ok" if r.returncode == 0 else "ERROR(rc=%d)" % r.returncode)
    print("%s %-6s %s" % (c, tag, first), flush=True)
    if r.returncode not in (0, 1):
        print((r.stdout + r.stderr)[-1500:])
shutil.rmtree(out, ignore_errors=True)
print("caught by:", [c for c in ids if res[c][0] == 1])
