"""Single table of the checks: build information for run_check.py and the text of MANIFEST.json."""

CHECKS = {
    "C08": dict(
        src="checks/c08.cpp", cfg="rel", link="static", engine="A-case-explorer",
        category="exploration", design_ref="DESIGN.md section 4, C08",
        technique="bounded-exhaustive enumeration of argument shapes on the real code against a byte-exact reference image",
        text="Every (op, N, module type, dispatch configuration, res/a/b limb counts in {0..3}, stride combination, p) of the 16 "
             "element-wise vec_znx entry points is executed on the real library; the whole output allocation (payload, stride "
             "padding, limbs past res_size, guard zones) and every input are compared byte for byte with a model image. The ops "
             "have shape-only control flow, so one injective 62-bit probe per shape determines the behaviour on all data; the "
             "element functions are enumerated on the value-alphabet square separately. Additional layers: wide (limb counts 33..1025 at N = 4, 16), N = 65536, bulk outputs of 16 MiB and more (strides N, N+1, N+4, two output alignments, in and out of place), huge strides (2^28..2^32 elements on sparse PROT_NONE reservations, so that a limb offset computed in 32 bits faults or lands in a canary), and the element kernels on vectors of 2^16 / 2^21 coefficients at every output alignment.",
        note="Bounded box (sizes 0..3, four strides, N up to 32 quick / 65536 thorough); values bounded by 2^62; the model is "
             "the definition (zero-extend, truncate) written independently in the harness.",
    ),
}

CHECKS["C13"] = dict(
        src="checks/c13.cpp", cfg="rel", link="static", engine="A-case-explorer",
        category="exploration", design_ref="DESIGN.md section 4, C13",
        technique="bounded-exhaustive enumeration of aliasing patterns x shapes on the real code, differential against the out-of-place call and a byte-exact model",
        text="Every listed aliasing pattern (res==a, res==b, res==a==b; idft over its own input; pointwise r==a, r==b, r==a==b) is "
             "executed for every (op, N, module type, cfg, limb counts in {0..3}, stride, p) of the box and compared bit for bit with the "
             "same call on a separate output buffer and with the exact model image; bytes outside the declared output and inputs "
             "outside the aliased extent must be unchanged. Also: wide limb counts (65..257), N = 65536, in-place normalisation through a one-limb result with another stride / stepped range, inverse DFT sources containing a zero limb of mixed-sign zeros.",
        note="Aliasing = same pointer and same stride; bounded box; the reference is the library's own out-of-place call plus the "
             "harness model (definition of the op).",
)

CHECKS["C18"] = dict(
        src="checks/c18.cpp", cfg="rel", link="static", engine="A-case-explorer",
        category="exploration", design_ref="DESIGN.md section 4, C18",
        technique="bounded-exhaustive enumeration of the entry-point and kernel tables with byte-wise before/after snapshots of every read-only operand and of module/table memory",
        text="Every case of the entry-point table (element-wise ops, normalisations, dft/idft, svp, small product, vmp; both module "
             "types, every dispatch configuration, the C02/C05/C08 shape boxes) and of the exported-kernel table (q120 products and "
             "conversions, NTT, fft/ifft, pointwise products, layout conversions, reim4 kernels, coefficient kernels) is executed with "
             "every const operand snapshotted including stride padding; after the call each must be bit-identical, and so must every "
             "block the library allocated for the MODULE / PRECOMP. Also on wide shapes (limb / row counts up to 2049), at N = 65536, on large kernel sizes and with one array passed as two read-only operands.",
        note="Bounded shape boxes; snapshots compare the state after the call (a write that restores the old value is C12's concern, "
             "caught there by write traps).",
)

CHECKS["C11"] = dict(
        src="checks/c11.cpp", cfg="asan", link="static", engine="A-case-explorer (ASan)",
        category="fault_enumeration", design_ref="DESIGN.md section 4, C11",
        technique="bounded-exhaustive enumeration of entry points x shapes x pointer offsets x prefills under AddressSanitizer with exact-size heap buffers",
        text="Every case of the entry-point table and of the exported-kernel table is executed in an ASan build of the library with "
             "heap buffers of exactly the declared extent (scratch exactly *_tmp_bytes, opaque objects exactly bytes_of_*), with "
             "every buffer at each 8-byte offset and three prefill patterns: a sanitizer report or signal (fork-isolated and attributed "
             "to the case), a changed byte outside the written extent, or an output that differs between prefills/offsets is a "
             "violation; every new_*/delete_* pair is run at every m = 1..65536 under a wrapped allocator and must leave no live block. Additional layers: wide shapes (limb / row counts up to 2049), N = 65536, bulk outputs (16 MiB and more), huge strides for every strided entry point (sparse PROT_NONE reservations: only the declared limbs are accessible), large sizes of the exported kernels, one array passed as two read-only operands. The constructor environment also varies the content of freed blocks (an object used after a sibling was deleted must not notice); a crash of the library while a case generator calls it, or a worker dying between two cases (heap corruption), is attributed and reported.",
        note="Trusts ASan's red zones (8-byte granularity, which is why offsets are multiples of 8) and the declared extents of "
             "DESIGN.md appendix A; bounded shape boxes.",
)

CHECKS["C05"] = dict(
        src="checks/c05.cpp", cfg="rel", link="static", engine="A-case-explorer",
        category="exploration", design_ref="DESIGN.md section 4, C05",
        technique="bounded-exhaustive enumeration of k x limb-tuple alphabets x shapes on the real code against the digit expansion computed from the definition",
        text="For every k in 1..62 every limb tuple over a per-k boundary alphabet (complete for a_size <= 3, digit-boundary carry chains "
             "for a_size 4, and complete small scopes for small k) is normalised by the real code for every res_size 0..4 and compared "
             "with the unique balanced expansion, whose oracle is itself checked against T mod 2^(k a_size) in 320-bit arithmetic; all "
             "(res_size,a_size) in {0..4}^2, strides, big and sub-range forms (all begin<=end<=5, step 1..3), in place and out of place, "
             "are compared byte for byte with the model image; the single-limb primitive is enumerated in its six argument shapes. In-place calls include a one-limb result over limb 0 of its own source with another stride or a stepped range.",
        note="Normalisation is coefficient-wise, so tuples are packed N per call; values restricted to the documented |a_i| <= 2^62; "
             "alphabets are boundary-value sets, complete only for the small scopes stated in the evidence.",
)

CHECKS["C09"] = dict(
        src="checks/c09.cpp", cfg="rel", link="static", engine="A-case-explorer",
        category="exploration", design_ref="DESIGN.md section 4, C09",
        technique="exhaustive enumeration of every residue p mod 2N for every N up to the bound, on the real kernels, against the ring map computed from its definition",
        text="For every N = 2^0..2^12 (quick) / 2^16 (thorough) and every residue p mod 2N (every odd residue for automorphisms) each of the "
             "11 rotation / automorphism / (X^p-1) kernels (int64 and double, in place and out of place) is run on an injective probe and "
             "compared coefficient by coefficient with the ring map; far representatives (p +- 2N, +- 2N 2^40, nearest +-(2^63-1)) are run "
             "for residue classes; data independence is checked by the complete scope N <= 8, all p, all vectors over {-1,0,1,2}; the vector "
             "and big wrappers are run for all p on a shape box against the byte-exact model. Above the exhaustive bound the kernels are run at N = 2^13..2^22 (2^24 thorough) on 23-32 sampled exponents chosen against index arithmetic of limited width.",
        note="The kernels are data-independent signed permutations, so one injective probe per (N,p) fixes the behaviour on all inputs "
             "(argument checked, not assumed, on the complete small scope). N bounded by the tier.",
)

CHECKS["C02"] = dict(
        src="checks/c02.cpp", cfg="rel", link="static", engine="A-case-explorer",
        category="exploration", design_ref="DESIGN.md section 4, C02",
        technique="bounded-exhaustive enumeration of VMP shapes x both entry points x cfg on the real code against the exact __int128 polynomial product, plus a complete bilinear basis sweep",
        text="Every (N in both prepared layouts, nrows, ncols, a_size, res_size incl. 0, stride, dispatch configuration) of the box is run "
             "through vmp_prepare_contiguous + vmp_apply_dft and through vec_znx_dft + vmp_apply_dft_to_dft with dense injective operands "
             "in the exactness regime; after vec_znx_idft_tmp_a every column must equal the exact sum of negacyclic products, columns "
             ">= ncols must be exactly zero, both entry points must agree; for small N the map is additionally run on the complete basis "
             "(X^u e_i, X^v E_ij), which determines a bilinear map. A wide layer runs row / column / size counts around 16, 32, 64, 128, 256, 512, 1024 and 2048.",
        note="Bounded shape box (larger N only on a fixed shape list in the thorough tier); exact equality is demanded because the "
             "operands keep the summed C01 error budget below 1/2.",
)

CHECKS["C10"] = dict(
        src="checks/c10.cpp", cfg="rel", link="static", engine="A-case-explorer",
        category="exploration", design_ref="DESIGN.md section 4, C10",
        technique="exhaustive enumeration of every length ell in 0..10000 for each product kernel x operand families on the real code against exact modular running sums",
        text="Each of the ten q120 product functions (a*a, b*b, b*c, block forms with one and two columns; reference and AVX2) is executed "
             "for EVERY ell in 0..10000 on six operand families per layout (canonical, unreduced/lazy, all-maximal, alternating, single "
             "maximal, zero) and each lane is compared modulo its prime with the exact sum; conversions (int64->b, int64->c, b->c, b+b, "
             "c+c, b->int128 centred lift) are checked on boundary alphabets incl. INT64_MIN/MAX, +-(Q-1)/2 and lazy representatives; "
             "block extract/save on every block index. Every product is also run with ONE array passed as both operands (x == y by pointer).",
        note="Operand values are families, not all 2^64 lane contents (the no-wrap argument for all lane contents is C04's envelope "
             "model); default 30-bit primes.",
)

CHECKS["C04"] = dict(
        src="checks/c04.cpp", cfg="rel", link="shared", engine="D-envelope-model",
        aux=[dict(src="checks/c04.cpp", cfg="p29", link="shared", cxxflags=["-DSPQLIOS_Q120_USE_29_BIT_PRIMES"]),
             dict(src="checks/c04.cpp", cfg="p31", link="shared", cxxflags=["-DSPQLIOS_Q120_USE_31_BIT_PRIMES"])],
        category="model_checking", design_ref="DESIGN.md section 2 (Engine D) and section 4, C04",
        technique="explicit enumeration of an exact-integer abstract envelope model (all sizes, primes, stages, all ell) with conformance of real stage traces obtained by ELF interposition",
        text="The lazy arithmetic of the q120 NTT, iNTT and product kernels is modelled as exact integer upper bounds per (transform, n, prime, "
             "stage) and per (kernel, ref/avx2, ell, prime); the whole state space (n = 2^0..2^16, both directions, four primes, every ell in "
             "0..10000) is enumerated and every side condition - lazy subtraction never negative, no 64-bit overflow, 32-bit multiplier "
             "operands not truncated - is an invariant. All constants come from the real precomputed objects. The model is bound to the code: "
             "the stage sequence of real runs is observed through interposed ntt_iter* calls and must be the certified schedule (levels "
             "partition [0,n)), measured lane maxima must stay below the certified bounds, every twiddle word is checked, and concrete "
             "worst-case runs must be exact modulo each prime. The worst-case runs are repeated with one array passed as both operands.",
        note="The transfer functions are hand-written over-approximations of the kernels (trusted, but cross-checked by measured maxima and "
             "exactness of extremal runs); default 30-bit primes only.",
)

CHECKS["C03"] = dict(
        src="checks/c03.cpp", cfg="rel", link="static", engine="A-case-explorer + D-envelope-model",
        category="exploration", design_ref="DESIGN.md section 4, C03",
        technique="envelope model (all sizes, primes, stages) + table facts + exhaustive basis-vector enumeration of the real transform + extremal concrete runs + module-level shape enumeration",
        text="(1) the envelope model shows that no lane wraps for any 64-bit content, for every n = 2^0..2^16, both directions; (2) every twiddle "
             "word and reduction constant is checked, so each stage is linear modulo each prime; (3) EVERY basis vector of every n up to the "
             "tier bound is pushed through the real forward transform (and every unit vector through the inverse) and compared with "
             "omega^(e_j i), the exponents e_j being read off the image of X and required to be all odd residues mod 2n; (4) round trip, "
             "additivity and pointwise-product = negacyclic convolution are run on extremal lane patterns; (5) module-level dft -> idft / "
             "idft_tmp_a returns exactly the original int64 coefficients (incl. INT64_MIN/MAX) for all size/stride combinations of the box. Thorough tier (when 20 GiB of memory are available): vec_znx_dft followed by both inverse DFTs on NTT120 vectors of more than 4 GiB (2049 limbs at N = 65536) returns the input exactly.",
        note="Linearity lets a complete basis decide the map on all inputs once wrap-freedom is certified by the model (hand-written "
             "transfer functions, bound to the code in C04); basis enumeration bounded by the tier (n <= 4096 quick, all n thorough).",
)

CHECKS["C14"] = dict(
        src="checks/c14.cpp", cfg="rel", link="static", engine="A-case-explorer",
        category="exploration", design_ref="DESIGN.md section 4, C14",
        technique="exhaustive enumeration of all 2^32 int32 inputs and of per-binade boundary alphabets x divisors x log2overhead on the real kernels, judged in exact binary128 arithmetic",
        text="int32 -> complex is run on ALL 2^32 inputs for the four kernels; int64 -> double on the complete range |x| < 2^27 plus structured "
             "values up to 2^50; double -> int64 (reference, fast, wide) on a boundary alphabet of every binade up to the domain limit (mantissas "
             "1, 1+ulp, 1.25, 1.5-ulp, 1.5, 1.5+ulp, 2-ulp; k+1/2 +- ulp; domain edge) for every divisor 2^0..2^40 with the verdict |out - x/d| <= 1/2 "
             "evaluated exactly; complex -> torus32 and double -> torus double likewise for every log2overhead 0..48; every m = 1..64 and every "
             "dispatch configuration through the constructor API and the *_simple forms. The double -> int64 conversions are also run in place (r == x, as the inverse DFT of the module calls them) with the vector at every 8-byte alignment modulo 32. Every conversion is also run once with its input, and once with its output, ending exactly where the mapped memory ends.",
        note="Only the int32 sweep is exhaustive over values; the double domains are covered by a structured boundary alphabet per binade, not by "
             "all doubles.",
)

CHECKS["C17"] = dict(
        src="checks/c17.cpp", cfg="rel", link="static", engine="A-case-explorer",
        category="exploration", design_ref="DESIGN.md section 4, C17",
        technique="exhaustive enumeration of every m x every block index x row counts x strides on the real kernels (exact copies), and of every m / row count for the complex-vector kernels against binary128 complex arithmetic",
        text="For every m = 4..4096 (65536 thorough) and EVERY block index, extraction (single, contiguous with 0..4 rows, three strides; reference and "
             "AVX) must return exactly evaluations 4b..4b+3, saving must be its inverse and write nothing else; the cplx <-> reim4 conversion is "
             "run for every m = 4..65536 through the precomp API, the *_simple API and both kernels and must be the identity on all m numbers; "
             "reim4 dot products (every row count), windowed convolutions (complete small box) and the 14 pointwise mul/addmul kernels (every m "
             "from the kernel minimum, signed zeros and 2^+-300 included) are compared with the complex-arithmetic definition in binary128 "
             "within the standard a-priori rounding bound. Pointwise products are also run with the result vector being one of the operands (r == a, r == b, r == a == b) against the exact product of the original values.",
        note="Floating-point inputs are a structured value set, not all doubles; the bound gamma_k*sum|terms| holds for every IEEE evaluation order.",
)

CHECKS["C06"] = dict(
        src="checks/c06.cpp", cfg="rel", link="static", engine="A-case-explorer",
        category="exploration", design_ref="DESIGN.md section 4, C06",
        technique="exhaustive enumeration of every m x every implementation x the complete impulse basis (plus structured vectors) on the real code against the binary128 evaluation map",
        text="For every m = 1..4096 (65536 thorough) each of the eight transforms (reference and AVX2/FMA drivers, split and interleaved layouts, "
             "forward and inverse; the C and assembly 2/4/8/16-point leaves are the m <= 16 cases; every m crosses both algorithm thresholds) is "
             "run on ALL unit impulses (real and imaginary; exact output omega^(e_j k) by table look-up), constants, resonant vectors, a 2^+-40 "
             "dynamic-range vector and seeded dense vectors, and must satisfy ||out - exact||_2 <= 8 log2(2m) 2^-53 ||exact||_2 against the "
             "binary128 evaluation at omega^(1+4 bitrev(j)); every case is executed twice (bit-identical) with the table hashed before and after; "
             "the dispatching API must select the expected kernel per cfg and agree with it bit for bit. Tables whose built-in buffer area exceeds 4 GiB (buffer index x buffer size beyond 32 bits) must address disjoint buffers and transform the last one correctly.",
        note="The impulse basis is complete (it bounds the table-induced operator error, reported as a Frobenius norm); worst-case rounding "
             "accumulation over all real inputs is outside an enumerable space and is only sampled by the alphabet.",
)

CHECKS["C01"] = dict(
        src="checks/c01.cpp", cfg="rel", link="static", engine="A-case-explorer",
        category="exploration", design_ref="DESIGN.md section 4, C01",
        technique="bounded-exhaustive enumeration of N x path x cfg x shapes x adversarial operand-pattern pairs (and complete small scopes) on the real code against the exact __int128 negacyclic product",
        text="For every N = 2..4096 (65536 thorough), both dispatch configurations and the three FFT64 product paths (small single product; "
             "svp prepare + apply + idft; same with idft_tmp_a, over all (res_size,a_size) in {0..3}^2 and two strides for N <= 64) the 144 pairs of "
             "adversarial operand patterns (all-max, alternating, sign patterns resonant with a root of unity, monomials, mixed magnitudes, seeded) "
             "in three magnitude regimes - at the 2^50-1 coefficient limit with the largest admissible partner, both near 2^26/sqrt(N), and E just "
             "below 1/2 where exact equality is demanded - are multiplied by the real code and compared with the exact product: |res - exact| <= "
             "E + 1/2 with E evaluated in binary128 from the exact norms; rows beyond the input size must be exactly zero. Complete scopes: all "
             "coefficient vectors in [-3,3] for N=2 and [-2,2] for N=4. Thorough tier (when 20 GiB of memory are available): vec_znx_dft followed by both inverse DFTs on FFT64 vectors of more than 4 GiB (8193 limbs at N = 65536).",
        note="Only in-domain pairs are generated. The worst case of the floating-point FFT over ALL real vectors of the budget is not "
             "enumerable: the claim is for the pattern alphabet and the complete small scopes, for every N and configuration.",
)

CHECKS["C07"] = dict(
        src="checks/c07.cpp", cfg="rel", link="static", engine="A-case-explorer",
        category="exploration", design_ref="DESIGN.md section 4, C07",
        technique="bounded-exhaustive enumeration of the (accelerated, reference) kernel-pair table x sizes x pointer offsets, and of the public API under every dispatch mask, on the real code",
        text="Every variant group of the exported-kernel table (znx add/sub/negate are in C08's kernel part; here: conversions, reim4 extract/save/"
             "layout, q120 products, rnx divide, ...) is run on identical inputs with the accelerated variants on misaligned pointers: integer and "
             "data-movement kernels must equal the model and the reference bit for bit, lazy q120 products modulo each prime; floating-point pairs "
             "(14 pointwise kernels, twiddle fma/avx512, reim4 dot products, the 8 FFT drivers) must BOTH be within the a-priori rounding bound of "
             "the exact binary128 result; the whole entry-point table is executed under the four CPU-feature masks and must give identical "
             "integers and DFT-space values within a normwise rounding bound; function-pointer identity shows which kernel each constructor and "
             "module selected for every mask and size threshold. Also: wide shapes, N = 65536 (integer families), large kernel sizes, one array passed as two read-only operands (reference and accelerated variant must still agree), and znx add / sub / negate ref vs avx on vectors of 2^16 / 2^21 coefficients at every output alignment, in and out of place.",
        note="Kernels without any reference semantics (bitwiddle fma/avx512, add/sub2_to/copy fma) are excluded (listed in the evidence "
             "assumptions); sizes bounded by the tier; AVX-512 kernels run because this CPU has AVX-512.",
)

CHECKS["C15"] = dict(
        src="checks/c15.cpp", cfg="rel", link="shared", engine="B-hidden-state-explorer",
        category="model_checking", design_ref="DESIGN.md section 2 (Engine B) and section 4, C15",
        technique="explicit-state exploration of the real library's hidden state (static segment, TLS, own heap) with fork checkpoints; outputs compared with the initial state and with fresh explicit tables on every transition",
        text="The library's hidden state - its writable static segment, its thread-local block and the heap blocks it owns, canonicalised - is "
             "explored explicitly under an alphabet of real calls: every *_simple function in two dimensions (below and above its dispatch "
             "threshold) and two values of every parameter its cache must distinguish (divisor, log2 bound/overhead), every module-level entry "
             "point on FFT64 and NTT120 modules, and table-based kernels. Each function family is searched to its fixed point and all "
             "cross-family sequences up to depth 2 (quick) / 3 (thorough) are executed; on every transition the outputs must be bit-identical to "
             "the outputs of the same call in the initial state and to the same operation through freshly built explicit tables. In addition "
             "every entry-point and kernel case is run 8 times with rotating buffer offsets 0..56 and three prefills of outputs and scratch. Part 2 also packs all operands back to back in one block (ascending and descending): the relative placement of the buffers is not an argument. Freed blocks read 0xDD during the hidden-state exploration and constructor ops exist at half / equal / double the dimension of live modules (a result must not depend on the lifetime of another object). Address reuse by the allocator, module tours (create, run the element-wise entry points, delete) at N = 8, 16, 32 and objects with overlapping lifetimes are part of the op alphabet; the constructor environment also varies the content of freed blocks.",
        note="Depth-bounded across families (state equality prunes re-expansion); the state is what the process image shows (no CPU control "
             "registers); inputs of each op are fixed deterministic vectors.",
)

CHECKS["C12"] = dict(
        src="checks/c12.cpp", cfg="rel", link="shared", engine="B-hidden-state-explorer + C-serialising-scheduler",
        aux=[dict(src="checks/c12_tsan.cpp", cfg="tsan", link="static")],
        category="model_checking", design_ref="DESIGN.md section 2 (Engines B, C) and section 4, C12",
        technique="explicit-state exploration with write traps (mprotect) on all shared storage, plus a preemption-bounded serialising scheduler over interposed library-internal calls, plus a free-running ThreadSanitizer pass",
        text="Engine B executes every op of the alphabet (module-level entry points on shared FFT64/NTT120 modules, table kernels on shared tables, "
             "every *_simple function in two dimensions and parameter values) from the fresh process and from every warmed state with the library's "
             "static storage and every library-owned heap page write-protected whenever the contract forbids writes: a write traps (even a "
             "same-value write). The library contains no lock or atomic (checked on the built object), so this decides every interleaving of any "
             "number of threads. Engine C runs pairs (triples in the thorough tier) of real calls under a serialising scheduler and enumerates every "
             "schedule with at most 2 (3) preemptions over ~80 interposed library-internal call boundaries; each call must return bit for bit what it "
             "returns alone and leave the hidden state unchanged; a replayed schedule must reproduce its call sequence. The same bodies run free on "
             "16 threads under ThreadSanitizer. Freed blocks read 0xDD and constructor ops exist at half / equal / double the dimension of live modules: creating or deleting one object must not write or release memory of another. The wrapped allocator hands a freed block out again to the next request of the same size (address reuse); constructor ops include module tours and objects with overlapping lifetimes; scenario S5 replaces a module by one of another dimension at the same address between two calls of a long-lived thread, whose results must equal those of a thread that never saw the first module.",
        note="*_simple functions are judged under their documented warm-up protocol; concurrent first use is only the detector's self-test. "
             "Engine C sees interleavings at call boundaries only and is bounded in threads and preemptions; the reduction argument of Engine B "
             "covers the rest provided the library stays free of synchronisation (reported as reduction_exact).",
)

CHECKS["C16"] = dict(
        src="checks/c16.cpp", cfg="rel", link="static", engine="A/B hybrid: BFS over the real API with an exact interpreter",
        category="model_checking", design_ref="DESIGN.md section 4, C16",
        technique="breadth-first explicit-state search over all enabled API call sequences up to a depth bound, deduplicated on the reference model's state; every transition replayed on the real library and compared with an exact __int128 interpreter",
        text="A pool of typed slots (three int64 vectors, two big vectors, two DFT vectors, a prepared scalar and a 2x2 prepared matrix) is driven by "
             "about 30 op instances of the public API (add, sub, negate, copy, rotate, automorphism, normalize, dft, svp_prepare/apply, "
             "vmp_prepare/apply/apply_to_dft, idft, idft_tmp_a, the big-coefficient forms, big and sub-range normalisation, small product). The "
             "reference model is an exact interpreter over Z[X]/(X^N+1); an op is enabled only while every intermediate stays inside its "
             "representation's precision budget. The model state graph is enumerated breadth first to depth 4 (quick) / 5-6 (thorough) for N in "
             "{4,8} (both VMP layouts; 16 and 64 thorough) and both module types; every transition is replayed on fresh real objects and every "
             "integer slot, and every DFT slot read out through idft, must equal the interpreter bit for bit.",
        note="Depth-bounded; op instances use fixed slot assignments (not all argument permutations); initial vectors are fixed small polynomials.",
)

NOT_YET = {}


# ---- later additions to the descriptions (applied on the assembled strings) --------------------------------------
_UPDATES = [
    ("C01", "text", "rows beyond the input size must be exactly zero. Complete scopes:",
     "rows beyond the input size must be exactly zero; squares are also computed with one pointer for both operands, the inverse DFT also in place. A sparse layer of N = 16384 and 65536 is part of the quick tier. Complete scopes:"),
    ("C02", "text", "with dense injective operands in the exactness regime;",
     "with dense injective operands in the exactness regime (and, on the small box, inputs whose coefficients are all multiples of 2^32 / 2^35);"),
    ("C11", "text", "every new_*/delete_* pair is run at every m = 1..65536 under a wrapped allocator and must leave no live block.",
     "every new_*/delete_* pair is run at every m = 1..65536 under a wrapped allocator and must leave no live block; every constructor at every size is run with freshly allocated heap memory reading 0x00, 0xFF and 0xA5 (the wrapped allocator decides it) and the object must behave bit-identically; the opaque result of vec_znx_dft is read back through the inverse transform and must return the input."),
    ("C12", "text", "Engine B executes every op of the alphabet (module-level entry points on shared FFT64/NTT120 modules, table kernels on shared tables, every *_simple function in two dimensions and parameter values)",
     "Engine B executes every op of the alphabet (module-level entry points - out of place and in place - on shared FFT64/NTT120 modules of four dimensions, table kernels on shared tables, every exported kernel incl. the in-place coefficient kernels at up to three size layers, constructors, every *_simple function in two dimensions and parameter values)"),
    ("C13", "text", "(res==a, res==b, res==a==b; idft over its own input; pointwise r==a, r==b, r==a==b)",
     "(res==a, res==b, res==a==b, res==a with a compacting stride; idft and idft_tmp_a over their own input; pointwise r==a, r==b, r==a==b)"),
    ("C15", "text", "every module-level entry point on FFT64 and NTT120 modules, and table-based kernels.",
     "every module-level entry point (in place and out of place) on FFT64 and NTT120 modules, table-based and exported kernels, and constructors. Fresh heap memory reads 0x00 for the baselines and 0xA5 during the exploration."),
    ("C15", "text", "In addition every entry-point and kernel case is run 8 times with rotating buffer offsets 0..56 and three prefills of outputs and scratch.",
     "In addition every entry-point and kernel case is run 8 times with rotating buffer offsets 0..56 and three prefills of outputs and scratch (MXCSR control bits must come back unchanged), and every constructor at every size is run with freshly allocated memory reading 0x00, 0xFF and 0xA5: same results."),
    ("C15", "note", "the state is what the process image shows (no CPU control registers);", "the state is what the process image shows plus the MXCSR control bits;"),
    ("C16", "text", "The model state graph is enumerated breadth first to depth 4 (quick) / 5-6 (thorough) for N in {4,8} (both VMP layouts; 16 and 64 thorough) and both module types;",
     "The model state graph is enumerated breadth first to depth 5-6 (quick) / 5-7 (thorough) for N in {4,8} (both VMP layouts; 16 and 64 thorough), both module types and three initial data sets (small; edge of the representation incl. INT64_MIN for NTT120; every coefficient a multiple of 2^32);"),
    ("C16", "note", "initial vectors are fixed small polynomials.", "three fixed initial data sets."),
    ("C18", "text", "is executed with every const operand snapshotted including stride padding;",
     "- out of place and with every same-pointer pattern (res==a, res==b, res==a==b, a==b, in-place normalisation and inverse DFTs) - is executed with every const operand snapshotted including stride padding;"),
    ("C18", "text", "after the call each must be bit-identical,",
     "after the call each must be bit-identical (for a source that shares its buffer with the output: the bytes outside the output's extent),"),
    ("C03", "text", "for all size/stride combinations of the box.", "for all size/stride combinations of the box (strides N, N+1, N+3 and, for the read-only source, also N-1, N/2 and 0)."),
    ("C05", "text", "the single-limb primitive is enumerated in its six argument shapes.", "the single-limb primitive is enumerated in its six argument shapes; three data sets (62-bit probes, digit-boundary values, structured limbs: all zero / multiples of 2^32) and a thinned layer at N = 4096 and 16384."),
    ("C08", "text", "the element functions are enumerated on the value-alphabet square separately.", "the element functions are enumerated on the value-alphabet square separately. Besides the injective probes the data contains structured rows (all zero, multiples of 2^32, zero except one coefficient); every case also runs with the output aliased to the first input (same stride, or a one-limb view with another stride)."),
    ("C10", "text", "conversions (int64->b, int64->c, b->c, b+b, c+c, b->int128 centred lift) are checked on boundary alphabets", "conversions (int64->b, int64->c, b->c, b+b, c+c on canonical operands and on all pairs of a lazy 32-bit lane alphabet, b->int128 centred lift) are checked on boundary alphabets"),
    ("C11", "text", "and the object must behave bit-identically;", "and the object must behave bit-identically; every ordered pair of calls of one *_simple function (other dimension, divisor or bound) runs with exact-size buffers and the second result must be what freshly built tables return;"),
    ("C12", "text", "shared FFT64/NTT120 modules of four dimensions,", "shared FFT64/NTT120 modules of four dimensions (each with four buffer-alignment patterns and with its pure sources mapped read-only),"),
    ("C14", "text", "through the constructor API and the *_simple forms.", "through the constructor API and the *_simple forms (consecutive *_simple calls differ in the announced bound only)."),
    ("C17", "text", "contiguous with 0..4 rows, three strides;", "contiguous and strided with up to 17 rows, strides of every residue modulo 4 doubles;"),
    ("C18", "text", "is executed with every const operand snapshotted including stride padding;", "is executed - under four buffer-alignment patterns and with every pure source in its own read-only mapping, so that even a write that is undone afterwards faults - with every const operand snapshotted including stride padding;"),
    ("C18", "note", "snapshots compare the state after the call (a write that restores the old value is C12's concern, caught there by write traps).", "snapshots compare the state after the call; transient writes are caught by the read-only mappings for caller-owned sources and by C12's write traps for module / table memory."),
    ("C04", "text", "and concrete worst-case runs must be exact modulo each prime.", "and concrete worst-case runs (all-maximal, alternating, single-maximal, high-halves-only and low-halves-only operands, every ell) must be exact modulo each prime."),
    ("C06", "text", "and agree with it bit for bit.", "and agree with it bit for bit; every transform is also computed inside the buffer of a table built with num_buffers = 1 and again in user memory afterwards (bit-identical)."),
    ("C07", "text", "reim4 dot products, the 8 FFT drivers)", "reim4 dot products on seeded and on structured rows - purely real, purely imaginary, small integers, partly zero -, the 8 FFT drivers)"),
    ("C09", "text", "is run on an injective probe and compared", "is run on an injective probe, and on the same probe with every third coefficient zero and a dirty output buffer, and compared"),
    ("C10", "text", "on six operand families per layout (canonical, unreduced/lazy, all-maximal, alternating, single maximal, zero)", "on eight operand families per layout (canonical, unreduced/lazy, only the high / only the low half of every word non-zero, all-maximal, alternating, single maximal, zero)"),
    ("C10", "text", "block extract/save on every block index.", "block extract/save on every block index; EVERY residue r < 2^30 (canonical, largest 64-bit representative, negative int64 representative) goes through both conversions into the c layout."),
    ("C14", "text", "with the verdict |out - x/d| <= 1/2 evaluated exactly;", "with the verdict |out - x/d| <= 1/2 evaluated exactly, each probe both inside the sorted alphabet and alone among small values at a moving position;"),
    ("C15", "text", "table-based and exported kernels, and constructors.", "table-based and exported kernels, inverse DFTs of constant DFT vectors (exact ties, top-binade magnitudes), and constructors."),
    ("C18", "text", "under four buffer-alignment patterns", "under four buffer-alignment patterns and two layouts with all operands packed back to back in one block"),
    ("C01", "text", "squares are also computed with one pointer for both operands,", "squares are also computed with one pointer for both operands, every pattern is also multiplied by the zero polynomial from both sides, sparse limb vectors with zero stride padding go through the svp path,"),
    ("C03", "text", "(incl. INT64_MIN/MAX)", "(incl. INT64_MIN/MAX and values with equal residues modulo two of the primes)"),
    ("C04", "text", "measured lane maxima must stay below the certified bounds,", "measured lane maxima must stay below the certified bounds, every real stage function is replayed alone on lanes from a boundary alphabet inside its certified input bound (all pairs meet in a butterfly) and must be its linear map modulo each prime below the certified output bound,"),
    ("C13", "text", "idft and idft_tmp_a over their own input;", "idft and idft_tmp_a over their own input (also with coefficients of magnitude 2^50);"),
    ("C17", "text", "(every m from the kernel minimum, signed zeros and 2^+-300 included)", "(every m from the kernel minimum; signed zeros, 2^+-300, subnormal operands and extreme operand combinations included)"),
]
for _cid, _field, _old, _new in _UPDATES:
    if _old not in CHECKS[_cid][_field]:
        raise SystemExit("registry: description update for %s no longer applies: %s" % (_cid, _old[:60]))
    CHECKS[_cid][_field] = CHECKS[_cid][_field].replace(_old, _new, 1)
