"""Single table of the checks: build information for run_check.py and the text of MANIFEST.json."""

CHECKS = {
    "C08": dict(
        src="checks/c08.cpp", cfg="rel", link="static", engine="A-case-explorer",
        category="exploration", design_ref="DESIGN.md section 4, C08",
        technique="bounded-exhaustive enumeration of argument shapes on the real code against a byte-exact reference image",
        text="Every (op, N, module type, dispatch configuration, res/a/b limb counts in {0..3}, stride combination, p) of the 16 "
             "element-wise vec_znx entry points is executed on the real library; the whole output allocation (payload, stride "
             "padding, limbs past res_size, guard zones) and every input are compared byte for byte with a model image. The ops "
             "have shape-only control flow, so one injective 62-bit probe per shape determines the behaviour on all data; the "
             "element functions are enumerated on the value-alphabet square separately.",
        note="Bounded box (sizes 0..3, four strides, N up to 32 quick / 65536 thorough); values bounded by 2^62; the model is "
             "the definition (zero-extend, truncate) written independently in the harness.",
    ),
}

CHECKS["C13"] = dict(
        src="checks/c13.cpp", cfg="rel", link="static", engine="A-case-explorer",
        category="exploration", design_ref="DESIGN.md section 4, C13",
        technique="bounded-exhaustive enumeration of aliasing patterns x shapes on the real code, differential against the out-of-place call and a byte-exact model",
        text="Every listed aliasing pattern (res==a, res==b, res==a==b; idft over its own input; pointwise r==a, r==b, r==a==b) is "
             "executed for every (op, N, module type, cfg, limb counts in {0..3}, stride, p) of the box and compared bit for bit with the "
             "same call on a separate output buffer and with the exact model image; bytes outside the declared output and inputs "
             "outside the aliased extent must be unchanged.",
        note="Aliasing = same pointer and same stride; bounded box; the reference is the library's own out-of-place call plus the "
             "harness model (definition of the op).",
)

NOT_YET = {}
