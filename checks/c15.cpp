// C15 — results depend only on arguments: no hidden state, history or alignment.
// Part 1 (Engine B, I-hist): explicit-state exploration of the library's hidden state (static storage,
// thread-local caches, library-owned heap) under an op alphabet that contains, for every cached
// function, two values of each parameter the cache must distinguish; per-family search to the fixed
// point and cross-family sequences to depth 2 (quick) / 3 (thorough); on every transition the outputs
// must be bit-identical to the outputs in the initial state and to freshly built explicit tables.
// Part 3: every constructor x size x content of freshly allocated heap memory (0x00, 0xFF, 0xA5): same results.
// Part 2 (case runner): every entry point and exported kernel executed with different prefills of
// outputs and scratch and with every buffer at byte offsets 0,8,...,56: outputs bit-identical.
#include "../harness/lsm_explore.hpp"
#include "../harness/kernels.hpp"
using namespace vf;

int main(int argc, char** argv) {
  Args args = parse_args("C15", argc, argv, 420, 1800);
  lsm_locate();
  lsm_arena_init(1ull << 30);
  lsm_install_trap();
  alloc_track().on = 1;
  const unsigned csr_at_start = __builtin_ia32_stmxcsr() & 0xFFC0u;
  Lsm L;
  add_simple_ops(L.ops);
  const size_t nsimple = L.ops.size();
  add_module_ops(L.ops, {4, 16, 1024});
  add_table_ops(L.ops);
  add_ctor_ops(L.ops);
  add_kernel_ops(L.ops);
  lsm_arena_page_align();   // nothing is ever write-protected in this check: it judges results, not writes (that is C12)
  Ctx ctx(args);
  const bool th = args.thorough();
  L.init_shared();
  {  // building the modules and tables of the alphabet must not have changed the floating-point control register of this thread
    const unsigned csr_now = __builtin_ia32_stmxcsr() & 0xFFC0u;
    std::string id = "setup|creating the modules and tables of the op alphabet";
    if (ctx.want(id)) { ctx.begin_case(id);
      if (csr_now != csr_at_start) ctx.violation(id, sfmt("constructors changed the MXCSR control bits of the calling thread (0x%x -> 0x%x): the same call then returns different bits in a thread that created the objects and in one that did not", csr_at_start, csr_now));
      ctx.end_case(true); }
  }
  L.enforce_imm = false;
  L.report = [&](LsmKind k, const std::string& id, const std::string& msg) {
    if (ctx.args.replaying() && ctx.args.replay_id != id) return;
    if (k == LSM_HIST || k == LSM_CRASH) ctx.violation(id, msg);   // I-imm / I-warm findings belong to C12
  };
  L.on_transition = [&](const std::string& id) { if (ctx.args.replay_id.empty() || ctx.args.replay_id == id) { ctx.begin_case(id); ctx.end_case(true); } };
  L.initial_hash = lsm_canon_hash();
  if (lsm_canon_hash() != L.initial_hash) machinery_error("canonical state hash is not reproducible");
  L.compute_baselines();
  uint64_t states = 1, transitions = 0, selfloops = 0, maxdepth_seen = 0, fixed_points = 0;
  // phase 1: per-family fixed point
  std::vector<std::string> fams;
  for (size_t k = 0; k < nsimple; ++k) if (std::find(fams.begin(), fams.end(), L.ops[k].family) == fams.end()) fams.push_back(L.ops[k].family);
  Json famj = Json::arr();
  for (auto& f : fams) {
    std::vector<int> alpha;
    for (size_t k = 0; k < nsimple; ++k) if (L.ops[k].family == f) alpha.push_back((int)k);
    L.set.clear();
    L.set.insert(L.initial_hash);
    std::vector<int> path;
    L.explore(path, L.initial_hash, alpha, 64, "family " + f);
    bool reached = L.set.counters[2] < 64;
    states += L.set.counters[0] - 1; transitions += L.set.counters[1]; selfloops += L.set.counters[3]; maxdepth_seen = std::max<uint64_t>(maxdepth_seen, (uint64_t)L.set.counters[2]);
    if (reached) fixed_points++;
    famj.push(sfmt("%s: %llu states, %llu transitions, depth %llu, fixed point %s", f.c_str(), (unsigned long long)L.set.counters[0], (unsigned long long)L.set.counters[1], (unsigned long long)L.set.counters[2], reached ? "reached" : "NOT reached"));
  }
  // phase 2: cross-family sequences over the union alphabet
  const int depth = th ? 3 : 2;
  std::vector<int> all;
  for (size_t k = 0; k < L.ops.size(); ++k) all.push_back((int)k);
  L.set.clear();
  L.set.insert(L.initial_hash);
  ctx.parallel(all.size(), [&](uint64_t i) { std::vector<int> path; L.explore(path, L.initial_hash, all, depth, "cross-family", (int)i); }, "cross-family exploration");
  states += L.set.counters[0] - 1; transitions += L.set.counters[1]; selfloops += L.set.counters[3]; maxdepth_seen = std::max<uint64_t>(maxdepth_seen, (uint64_t)L.set.counters[2]);
  uint64_t cross_states = L.set.counters[0], cross_trans = L.set.counters[1];

  // part 2: prefill / offset independence over the entry-point and kernel tables
  alloc_track().on = 0; alloc_track().arena = 0;  // back to the ordinary allocator
  BoxOpts o; o.cf = cfgs(th); if (!th) o.Ns = {2, 4, 8, 16, 32}; else o.Ns = {2, 4, 8, 16, 32, 64};
  o.inplace = true;  // same-pointer calls too: what an in-place call leaves in the part of the output it does not compute must not depend on the previous contents
  auto runs = [&](ApiCase& c) {
    std::string id = "prefill-offset|" + c.id;
    if (!ctx.want(id)) return;
    ctx.begin_case(id);
    ExecResult r0, r;
    ExecOpts e0; execute(c, e0, r0);
    std::string err;
    if (r0.csr_after != r0.csr_before) err = sfmt("the call leaves the floating-point control register changed (MXCSR control bits 0x%x -> 0x%x): later results depend on it", r0.csr_before, r0.csr_after);
    for (int k = 1; k < 8 && err.empty(); ++k) {
      ExecOpts e; e.prefill = k % 3; for (int i = 0; i < 12; ++i) e.off[i] = 8 * ((i + k) % 8);
      execute(c, e, r);
      err = diff_outputs(c, r0, r, sfmt("between run 0 (offset 0, zero prefill) and run %d (offsets rotated by %d x 8 bytes, prefill %d)", k, k, k % 3).c_str(), true);
    }
    if (err.empty()) { execute(c, e0, r); err = diff_outputs(c, r0, r, "between two identical calls", true); }
    // where the caller places its buffers relative to each other is not an argument either: all operands packed back to back in one
    // block (ascending and descending order; disjoint but touching), dirty output
    for (int adj = 1; adj <= 2 && err.empty(); ++adj) {
      ExecOpts e; e.prefill = adj; e.adjacent = adj;
      execute(c, e, r);
      err = diff_outputs(c, r0, r, adj == 1 ? "between separate buffers and operands packed back to back (ascending)" : "between separate buffers and operands packed back to back (descending)", true);
    }
    if (!err.empty()) ctx.violation(id, err);
    ctx.end_case(c.nontrivial);
  };
  std::vector<ApiGroup> groups = api_groups(o);
  ctx.parallel(groups.size(), [&](uint64_t gi) { run_group(groups[gi], o, runs); }, "entry points");
  BoxOpts ol = large_layer(th, o.cf); ol.inplace = true;
  std::vector<ApiGroup> lgroups = api_groups(ol);
  ctx.parallel(lgroups.size(), [&](uint64_t gi) { run_group(lgroups[gi], ol, runs); }, "entry points, large ring dimensions");
  BoxOpts ow = wide_layer(o.cf); ow.inplace = true;
  std::vector<ApiGroup> wgroups = api_groups(ow);
  ctx.parallel(wgroups.size(), [&](uint64_t gi) { run_group(wgroups[gi], ow, runs); }, "entry points, wide shapes");
  if (!th) {
    BoxOpts ot = top_layer(); ot.inplace = true;
    std::vector<ApiGroup> tgroups = api_groups(ot);
    ctx.parallel(tgroups.size(), [&](uint64_t gi) { run_group(tgroups[gi], ot, runs); }, "entry points, N = 65536");
  }
  std::vector<KernelGroup> kg = kernel_groups(th);
  ctx.parallel(kg.size(), [&](uint64_t gi) { run_kernel_group(kg[gi], th, [&](ApiCase& c, const KernelInfo&) { runs(c); }); }, "kernels");

  // part 3: constructors x sizes x content of freshly allocated heap memory (an environment answer the harness owns):
  // an object built from the same arguments must behave the same whatever the allocator hands out
  std::vector<CtorOp> cops = ctor_ops(true);
  uint64_t ctor_runs_total = 0;
  {
    std::vector<uint64_t> cr(cops.size(), 0);
    ctx.parallel(cops.size(), [&](uint64_t k) {
      uint64_t n = run_ctor_env(cops, k, k + 1, [&](const std::string& id) { return ctx.want(id); },
                                [&](const std::string& id, const std::string& msg) { ctx.violation(id, msg); },
                                [&](const std::string& id, bool begin) { if (begin) ctx.begin_case(id); else ctx.end_case(true); }, true);
      ctx.metric_add(0, n);
    }, "constructor environment");
  }
  ctx.name_metric(0, "constructor_executions");

  Json ex = Json::obj();
  ex.set("states", states).set("transitions", transitions).set("traces_validated_against_impl", transitions);
  ex.set("constructor_environment", sfmt("%zu constructor ops x 3 contents of fresh heap memory (0x00, 0xFF, 0xA5), each in its own process", cops.size()));
  (void)ctor_runs_total;
  ex.set("self_loops", selfloops).set("max_depth_with_new_state", maxdepth_seen).set("families", famj).set("family_fixed_points_reached", fixed_points);
  ex.set("cross_family", sfmt("all sequences of length <= %d over %zu ops: %llu states, %llu transitions", depth, all.size(), (unsigned long long)cross_states, (unsigned long long)cross_trans));
  ex.set("ops", (long long)L.ops.size()).set("hidden_state_bytes", sfmt("static %zu + tls %zu + library heap", lib_image().stat_len, lib_image().tls_len));
  ctx.assumptions = {"the hidden state of the library is its writable static segment, its thread-local block and its own heap blocks (no files, clocks or randomness exist in the library); CPU control registers are not part of the state",
                     "every transition executes the real code (fork is the checkpoint), so each explored transition is also a validated trace",
                     "sequences longer than the depth bound across different function families are covered only through state equality (a state reached again is not expanded twice)"};
  return ctx.finish("model_checking",
                    "states = canonical hash of (library .data/.bss, TLS block, library-owned heap with pointers normalised); transitions = real calls of the op alphabet (17 *_simple functions x 2 dimensions x 2 values of every cache-relevant parameter, "
                    "module entry points on FFT64/NTT120 modules N=4,16, table-based kernels); per-family search to the fixed point and cross-family sequences to the depth bound; plus prefill/offset independence of every table case (8 runs each) and constructors x sizes x 3 contents of fresh heap memory",
                    true, ex);
}
