// C14 — numeric layout conversions are exact or correctly rounded on their whole domain.
// Engine A.  All conversions are element-wise, so a vector call is many scalar evaluations.
//  A. int32 -> complex (znx32 / tnx32, ref and avx2): ALL 2^32 inputs.
//  B. int64 -> double: complete sweep |x| < 2^27 plus structured values up to 2^50.
//  C. double -> int64 (ref / bnd50 / bnd63, every divisor 2^j, j = 0..40): per-binade boundary alphabet,
//     verdict |out - x/d| <= 1/2 in exact (quad) arithmetic, ties either way.
//  D. complex -> torus32, E. double -> torus double (every log2overhead 0..48).
//  F. every m = 1..64 through the dispatching API under each cfg, and the *_simple forms.
#include <quadmath.h>
#include "../harness/bufs.hpp"
#include "../harness/oracle.hpp"
extern "C" {
#include "cplx/cplx_fft_internal.h"
#include "cplx/cplx_fft_private.h"
#include "reim/reim_fft_internal.h"
#include "reim/reim_fft_private.h"
}
using namespace vf;
typedef __float128 q128;

// ---- quotient alphabet: values y with |y| < 2^lim (both signs) -------------------------------------
static std::vector<double> quotient_alphabet(int lim, int emin = -40) {
  std::set<double> s;
  auto add = [&](double v) { if (std::isfinite(v) && fabs(v) < ldexp(1.0, lim)) { s.insert(v); s.insert(-v); } };
  add(0.0); add(5e-324); add(0x1p-1022); add(0x1p-300);
  const double U = 0x1p-52;
  for (int e = emin; e < lim; ++e)
    for (double mnt : {1.0, 1.0 + U, 1.25, 1.5 - U, 1.5, 1.5 + U, 2.0 - U}) add(ldexp(mnt, e));
  for (int t = 0; t < lim; ++t)
    for (double k : {0.0, 1.0, 2.0, 3.0, ldexp(1.0, t) - 1, ldexp(1.0, t)}) {
      double h = k + 0.5;
      if (h - k != 0.5) continue;  // k + 0.5 not representable
      add(h); add(nextafter(h, 0)); add(nextafter(h, INFINITY));
    }
  add(nextafter(ldexp(1.0, lim), 0));
  add(ldexp(1.0, lim) - 1); add(ldexp(1.0, lim) - 0.5);
  return std::vector<double>(s.begin(), s.end());
}

// ---- A: int32 -> complex, all 2^32 inputs -----------------------------------------------------------
typedef void (*fromi32_f)(const void*, void*, const int32_t*);
struct FI { const char* name; fromi32_f f; double scale; };
static void part_a(Ctx& ctx, const FI& k, uint32_t blk, uint32_t nblk) {
  // block `blk` of nblk: values [blk*2^32/nblk, ...)
  const uint64_t m = 4096, per = (1ull << 32) / nblk;
  std::string id = sfmt("int32->complex|%s|values 0x%08llx..0x%08llx", k.name, (unsigned long long)(blk * per), (unsigned long long)(blk * per + per - 1));
  if (!ctx.want(id)) return;
  ctx.begin_case(id);
  GBuf x(2 * m * 4, 8), r(2 * m * 8, 16);
  struct { void* f; int64_t m; } pc = {0, (int64_t)m};
  bool bad = false;
  for (uint64_t base = blk * per; base < (blk + 1) * per && !bad; base += 2 * m) {
    int32_t* xi = x.as<int32_t>();
    for (uint64_t i = 0; i < 2 * m; ++i) xi[i] = (int32_t)(uint32_t)(base + i);
    k.f(&pc, r.p, xi);
    const double* o = r.as<double>();
    for (uint64_t i = 0; i < m; ++i) {
      double er = (double)xi[i] * k.scale, ei = (double)xi[m + i] * k.scale;
      if (o[2 * i] != er || o[2 * i + 1] != ei) { ctx.violation(id, sfmt("input (%d, %d) converts to (%.17g, %.17g), exact value is (%.17g, %.17g)", xi[i], xi[m + i], o[2 * i], o[2 * i + 1], er, ei)); bad = true; break; }
    }
  }
  if (!x.guards_ok() || !r.guards_ok()) ctx.violation(id, "write outside a declared extent");
  ctx.metric_add(0, per);
  ctx.end_case(true);
}

// ---- B: int64 -> double -------------------------------------------------------------------------------
typedef void (*fromi64_f)(const REIM_FROM_ZNX64_PRECOMP*, void*, const int64_t*);
static void check_from_i64(Ctx& ctx, const std::string& id, fromi64_f f, const std::vector<int64_t>& vals) {
  const uint64_t m = 64;
  GBuf x(2 * m * 8, 8), r(2 * m * 8, 24);
  REIM_FROM_ZNX64_PRECOMP pc; pc.m = m; pc.function = 0;
  for (size_t base = 0; base < vals.size(); base += 2 * m) {
    for (uint64_t i = 0; i < 2 * m; ++i) x.as<int64_t>()[i] = vals[std::min(base + i, vals.size() - 1)];
    f(&pc, r.p, x.as<int64_t>());
    for (uint64_t i = 0; i < 2 * m; ++i) if (r.as<double>()[i] != (double)x.as<int64_t>()[i] || (q128)r.as<double>()[i] != (q128)x.as<int64_t>()[i]) { ctx.violation(id, sfmt("int64 %lld converts to %.17g", (long long)x.as<int64_t>()[i], r.as<double>()[i])); return; }
  }
  if (!x.guards_ok() || !r.guards_ok()) ctx.violation(id, "write outside a declared extent");
}
static void part_b(Ctx& ctx, int which, uint32_t blk, uint32_t nblk) {
  static const char* nm[] = {"reim_from_znx64_ref", "reim_from_znx64_bnd50_fma"};
  fromi64_f f = which ? reim_from_znx64_bnd50_fma : reim_from_znx64_ref;
  {
    const int64_t per = (INT64_C(1) << 28) / nblk, lo = -(INT64_C(1) << 27) + blk * per;
    std::string id = sfmt("int64->double|%s|sweep %lld..%lld", nm[which], (long long)lo, (long long)(lo + per - 1));
    if (ctx.want(id)) {
      ctx.begin_case(id);
      std::vector<int64_t> v(per);
      for (int64_t i = 0; i < per; ++i) v[i] = lo + i;
      check_from_i64(ctx, id, f, v);
      ctx.metric_add(1, per);
      ctx.end_case(true);
    }
  }
  if (blk == 0) {
    std::string id = sfmt("int64->double|%s|structured values up to 2^50", nm[which]);
    if (ctx.want(id)) {
      ctx.begin_case(id);
      std::set<int64_t> s;
      const int64_t LIM = INT64_C(1) << 50;
      auto add = [&](int64_t v) { if (v < LIM && v > -LIM) { s.insert(v); s.insert(-v); } };
      for (int e = 0; e < 50; ++e) for (int64_t d = -3; d <= 3; ++d) add((INT64_C(1) << e) + d);
      for (int a = 0; a < 50; ++a) for (int b = 0; b <= a; ++b) for (int c = 0; c <= b; ++c) add((INT64_C(1) << a) | (INT64_C(1) << b) | (INT64_C(1) << c));
      for (int a = 1; a <= 50; ++a) { add((INT64_C(1) << a) - 1); for (int b = 0; b < a; ++b) add(((INT64_C(1) << a) - 1) & ~((INT64_C(1) << b) - 1)); }
      add(LIM - 1);
      std::vector<int64_t> v(s.begin(), s.end());
      check_from_i64(ctx, id, f, v);
      ctx.metric_add(1, v.size());
      ctx.end_case(true);
    }
  }
}

// ---- C: double -> int64 -------------------------------------------------------------------------------
typedef void (*toi64_f)(const REIM_TO_ZNX64_PRECOMP*, int64_t*, const void*);
static void part_c(Ctx& ctx, int which, int j) {
  static const char* nm[] = {"reim_to_znx64_ref", "reim_to_znx64_avx2_bnd50_fma", "reim_to_znx64_avx2_bnd63_fma"};
  toi64_f f = which == 0 ? reim_to_znx64_ref : which == 1 ? reim_to_znx64_avx2_bnd50_fma : reim_to_znx64_avx2_bnd63_fma;
  const int lim = which == 1 ? 50 : 52;
  std::string id = sfmt("double->int64|%s|divisor=2^%d|domain |x/d|<2^%d", nm[which], j, lim);
  if (!ctx.want(id)) return;
  ctx.begin_case(id);
  std::vector<double> Y = quotient_alphabet(lim);
  const double d = ldexp(1.0, j);
  const uint64_t m = 64;
  GBuf x(2 * m * 8, 8), r(2 * m * 8, 24);
  REIM_TO_ZNX64_PRECOMP pc; pc.m = m; pc.function = 0; pc.divisor = d;
  uint64_t ties = 0;
  for (size_t base = 0; base < Y.size(); base += 2 * m) {
    for (uint64_t i = 0; i < 2 * m; ++i) x.as<double>()[i] = Y[std::min(base + i, Y.size() - 1)] * d;
    f(&pc, r.as<int64_t>(), x.p);
    for (uint64_t i = 0; i < 2 * m; ++i) {
      q128 q = (q128)x.as<double>()[i] / (q128)d;
      q128 err = fabsq((q128)r.as<int64_t>()[i] - q);
      if (err == 0.5Q) ++ties;
      if (!(err <= 0.5Q)) { ctx.violation(id, sfmt("x=%a d=2^%d: returned %lld, x/d=%.20g (error %.3g > 1/2)", x.as<double>()[i], j, (long long)r.as<int64_t>()[i], (double)q, (double)err)); base = Y.size(); break; }
    }
  }
  // in place (r == x, the way the module's inverse DFT calls this conversion), the vector at every 8-byte alignment modulo 32
  for (size_t off : {0, 8, 16, 24}) {
    GBuf z(2 * m * 8, off);
    for (size_t base = 0; base < Y.size(); base += 2 * m) {
      for (uint64_t i = 0; i < 2 * m; ++i) { x.as<double>()[i] = Y[std::min(base + i, Y.size() - 1)] * d; z.as<double>()[i] = x.as<double>()[i]; }
      f(&pc, z.as<int64_t>(), z.p);
      for (uint64_t i = 0; i < 2 * m; ++i) {
        q128 q = (q128)x.as<double>()[i] / (q128)d;
        q128 err = fabsq((q128)z.as<int64_t>()[i] - q);
        if (!(err <= 0.5Q)) { ctx.violation(id, sfmt("in place (vector at %zu modulo 32), slot %llu: x=%a d=2^%d: returned %lld, x/d=%.20g (error %.3g > 1/2)", off, (unsigned long long)i, x.as<double>()[i], j, (long long)z.as<int64_t>()[i], (double)q, (double)err)); base = Y.size(); break; }
      }
    }
    if (!z.guards_ok()) ctx.violation(id, "write outside a declared extent (in place)");
  }
  // every probe once more on its own: one probe per call (its position moves through the vector), all other slots hold a
  // small quotient - a kernel that chooses its path per group of slots must be right when the group mixes magnitudes
  for (size_t t = 0; t < Y.size(); ++t) {
    for (uint64_t i = 0; i < 2 * m; ++i) x.as<double>()[i] = 0.25 * d;
    const uint64_t pos = t % (2 * m);
    x.as<double>()[pos] = Y[t] * d;
    f(&pc, r.as<int64_t>(), x.p);
    for (uint64_t i = 0; i < 2 * m; ++i) {
      q128 q = (q128)x.as<double>()[i] / (q128)d;
      q128 err = fabsq((q128)r.as<int64_t>()[i] - q);
      if (!(err <= 0.5Q)) { ctx.violation(id, sfmt("isolated probe at slot %llu: x=%a d=2^%d: slot %llu returned %lld, x/d=%.20g (error %.3g > 1/2)", (unsigned long long)pos, x.as<double>()[pos], j, (unsigned long long)i, (long long)r.as<int64_t>()[i], (double)q, (double)err)); t = Y.size(); break; }
    }
  }
  if (!x.guards_ok() || !r.guards_ok()) ctx.violation(id, "write outside a declared extent");
  ctx.metric_add(2, 2 * Y.size()); ctx.metric_add(3, ties);
  ctx.end_case(true);
}

// ---- D: complex -> torus32 ----------------------------------------------------------------------------
typedef void (*totnx32_f)(const CPLX_TO_TNX32_PRECOMP*, int32_t*, const void*);
static void part_d(Ctx& ctx, int which, int j) {
  static const char* nm[] = {"cplx_to_tnx32_ref", "cplx_to_tnx32_avx2_fma"};
  totnx32_f f = which ? cplx_to_tnx32_avx2_fma : cplx_to_tnx32_ref;
  std::string id = sfmt("complex->torus32|%s|divisor=2^%d|domain |x/d|<2^18", nm[which], j);
  if (!ctx.want(id)) return;
  ctx.begin_case(id);
  std::vector<double> Y = quotient_alphabet(18, -60);
  // torus-specific points: multiples of 2^-32 and half-way points
  for (double k : {0.0, 1.0, 3.0, 1e5, 262143.0}) for (double u : {0x1p-32, 0x1p-33, 0x3p-33, 0x1p-34, 0x1p-31 + 0x1p-33}) { Y.push_back(k + u); Y.push_back(-(k + u)); }
  const double d = ldexp(1.0, j);
  const uint64_t m = 64;
  GBuf x(2 * m * 8, 8), r(2 * m * 4, 24);
  CPLX_TO_TNX32_PRECOMP pc; pc.m = m; pc.function = 0; pc.divisor = d;
  for (size_t base = 0; base < Y.size(); base += 2 * m) {
    for (uint64_t i = 0; i < 2 * m; ++i) x.as<double>()[i] = Y[std::min(base + i, Y.size() - 1)] * d;
    f(&pc, r.as<int32_t>(), x.p);
    // input is interleaved (re,im); output is re[0..m) then im[0..m)
    for (uint64_t i = 0; i < 2 * m; ++i) {
      double xv = x.as<double>()[i];
      int32_t o = (i & 1) ? r.as<int32_t>()[m + i / 2] : r.as<int32_t>()[i / 2];
      q128 t = (q128)xv / (q128)d * 0x1p32Q;  // exact
      q128 k0 = rintq(t);
      bool ok = false;
      for (int dk = -1; dk <= 1 && !ok; ++dk) {
        q128 kk = k0 + dk;
        if (fabsq(kk - t) <= 0.5Q) { q128 mod = fmodq(kk, 0x1p32Q); if (mod < 0) mod += 0x1p32Q; if ((uint32_t)(uint64_t)mod == (uint32_t)o) ok = true; }
      }
      if (!ok) { ctx.violation(id, sfmt("x=%a d=2^%d: returned %d, round(x 2^32/d) mod 2^32 = %u", xv, j, o, (uint32_t)(uint64_t)(fmodq(k0, 0x1p32Q) < 0 ? fmodq(k0, 0x1p32Q) + 0x1p32Q : fmodq(k0, 0x1p32Q)))); base = Y.size(); break; }
    }
  }
  if (!x.guards_ok() || !r.guards_ok()) ctx.violation(id, "write outside a declared extent");
  ctx.metric_add(2, Y.size());
  ctx.end_case(true);
}

// ---- E: double -> torus double --------------------------------------------------------------------------
static void part_e(Ctx& ctx, int which, int l2o, const CpuCfg& cfg) {
  static const char* nm[] = {"reim_to_tnx_ref", "reim_to_tnx_avx", "reim_to_tnx (dispatch)"};
  for (int j : {0, 1, 5, 20, 40}) {
    std::string id = sfmt("double->torus|%s|%s|log2overhead=%d|divisor=2^%d", nm[which], cfg.name, l2o, j);
    if (!ctx.want(id)) continue;
    ctx.begin_case(id);
    std::vector<double> Y = quotient_alphabet(std::max(l2o, 1), -60);
    Y.push_back(ldexp(1.0, l2o)); Y.push_back(-ldexp(1.0, l2o));
    const double d = ldexp(1.0, j);
    const uint64_t m = 64;
    set_cfg(cfg);
    REIM_TO_TNX_PRECOMP* pc = new_reim_to_tnx_precomp(m, d, l2o);
    set_cfg(CFG_NATIVE);
    GBuf x(2 * m * 8, 8), r(2 * m * 8, 24);
    const q128 tol = ldexpq(1.0Q, l2o - 50);
    for (size_t base = 0; base < Y.size(); base += 2 * m) {
      for (uint64_t i = 0; i < 2 * m; ++i) { double y = Y[std::min(base + i, Y.size() - 1)]; if (fabs(y) > ldexp(1.0, l2o)) y = 0.25; x.as<double>()[i] = y * d; }
      if (which == 0) reim_to_tnx_ref(pc, r.as<double>(), x.as<double>()); else if (which == 1) reim_to_tnx_avx(pc, r.as<double>(), x.as<double>()); else reim_to_tnx(pc, r.as<double>(), x.as<double>());
      for (uint64_t i = 0; i < 2 * m; ++i) {
        q128 q = (q128)x.as<double>()[i] / (q128)d, o = r.as<double>()[i];
        q128 t = q - o;                       // must be within tol of an integer
        q128 dist = fabsq(t - rintq(t));
        bool ok = dist <= tol && fabsq(o) <= 0.5Q + tol;
        if (!ok) { ctx.violation(id, sfmt("x/d=%.20g: returned %.20g; x/d - out is %.3g away from an integer (tolerance 2^%d)", (double)q, (double)o, (double)dist, l2o - 50)); base = Y.size(); break; }
      }
    }
    if (!x.guards_ok() || !r.guards_ok()) ctx.violation(id, "write outside a declared extent");
    ctx.metric_add(2, Y.size());
    free(pc);
    ctx.end_case(true);
  }
}

// ---- F: every m through the dispatching API and the *_simple forms --------------------------------------
// a buffer whose LAST byte is the last byte of a readable page, the next page being unmapped: a conversion that reads past its input
// (a block loaded ahead of its use) faults here and nowhere else
struct FlushBuf {
  uint8_t* base = 0; size_t len = 0; uint8_t* p = 0;
  explicit FlushBuf(size_t bytes) {
    size_t pages = (bytes + 4095) / 4096 + 1;
    len = (pages + 1) * 4096;
    base = (uint8_t*)mmap(0, len, PROT_READ | PROT_WRITE, MAP_PRIVATE | MAP_ANONYMOUS, -1, 0);
    if (base == MAP_FAILED) machinery_error("mmap");
    if (mprotect(base + pages * 4096, 4096, PROT_NONE)) machinery_error("mprotect");
    p = base + pages * 4096 - bytes;
  }
  ~FlushBuf() { if (base) munmap(base, len); }
};

static void part_f(Ctx& ctx, uint64_t m, const CpuCfg& cfg) {
  std::string id = sfmt("dispatch|%s|m=%llu|all six conversions through new_*_precomp and *_simple, every log2bound / log2overhead value", cfg.name, (unsigned long long)m);
  if (!ctx.want(id)) return;
  ctx.begin_case(id);
  set_cfg(cfg);
  Rng rng(ctx.args.seed + m);
  const uint64_t n = 2 * m;
  // int32 -> complex
  {
    GBuf x(n * 4, 8), r(n * 8, 16), r2(n * 8, 24);
    for (uint64_t i = 0; i < n; ++i) x.as<int32_t>()[i] = i == 0 ? INT32_MIN : i == 1 ? INT32_MAX : (int32_t)rng.next();
    CPLX_FROM_ZNX32_PRECOMP* p1 = new_cplx_from_znx32_precomp(m); CPLX_FROM_TNX32_PRECOMP* p2 = new_cplx_from_tnx32_precomp(m);
    cplx_from_znx32(p1, r.p, x.as<int32_t>()); cplx_from_znx32_simple(m, r2.p, x.as<int32_t>());
    for (uint64_t i = 0; i < m; ++i) for (int c = 0; c < 2; ++c) { double e = (double)x.as<int32_t>()[c * m + i]; if (r.as<double>()[2 * i + c] != e || r2.as<double>()[2 * i + c] != e) { ctx.violation(id, "cplx_from_znx32 (precomp or simple) is not exact"); i = m; break; } }
    cplx_from_tnx32(p2, r.p, x.as<int32_t>()); cplx_from_tnx32_simple(m, r2.p, x.as<int32_t>());
    for (uint64_t i = 0; i < m; ++i) for (int c = 0; c < 2; ++c) { double e = (double)x.as<int32_t>()[c * m + i] * 0x1p-32; if (r.as<double>()[2 * i + c] != e || r2.as<double>()[2 * i + c] != e) { ctx.violation(id, "cplx_from_tnx32 (precomp or simple) is not exact"); i = m; break; } }
    if (!x.guards_ok() || !r.guards_ok() || !r2.guards_ok()) ctx.violation(id, "write outside a declared extent (int32 -> complex)");
    free(p1); free(p2);
  }
  // every conversion once with its input (and once with its output) ending exactly where the mapped memory ends
  {
    FlushBuf xi(n * 8), xo(n * 8), x32(n * 4), o32(n * 4);
    GBuf r(n * 8, 16), r4(n * 4, 16);
    for (uint64_t i = 0; i < n; ++i) { ((int64_t*)xi.p)[i] = (int64_t)(rng.next() % 2001) - 1000; ((int32_t*)x32.p)[i] = (int32_t)rng.next(); }
    { REIM_FROM_ZNX64_PRECOMP* p = new_reim_from_znx64_precomp(m, 50); reim_from_znx64(p, r.p, (int64_t*)xi.p);
      for (uint64_t i = 0; i < n; ++i) if (r.as<double>()[i] != (double)((int64_t*)xi.p)[i]) { ctx.violation(id, "reim_from_znx64 is not exact on an input that ends at the end of the mapped memory"); break; }
      reim_from_znx64(p, xo.p, (int64_t*)xi.p); free(p); }
    for (uint64_t i = 0; i < n; ++i) ((double*)xi.p)[i] = (double)((int64_t)(rng.next() % 2001) - 1000) * 4.0;
    { REIM_TO_ZNX64_PRECOMP* p = new_reim_to_znx64_precomp(m, 4.0, 40); reim_to_znx64(p, r.as<int64_t>(), xi.p);
      for (uint64_t i = 0; i < n; ++i) if (r.as<int64_t>()[i] * 4 != (int64_t)((double*)xi.p)[i]) { ctx.violation(id, "reim_to_znx64 is wrong on an input that ends at the end of the mapped memory"); break; }
      reim_to_znx64(p, (int64_t*)xo.p, xi.p); free(p); }
    { REIM_TO_ZNX64_PRECOMP* p = new_reim_to_znx64_precomp(m, 4.0, 63); reim_to_znx64(p, r.as<int64_t>(), xi.p); reim_to_znx64(p, (int64_t*)xo.p, xi.p); free(p); }
    { REIM_TO_TNX_PRECOMP* p = new_reim_to_tnx_precomp(m, 4.0, 12); reim_to_tnx(p, r.as<double>(), (double*)xi.p); reim_to_tnx(p, (double*)xo.p, (double*)xi.p); free(p); }
    { CPLX_FROM_ZNX32_PRECOMP* p = new_cplx_from_znx32_precomp(m); cplx_from_znx32(p, r.p, (int32_t*)x32.p); cplx_from_znx32(p, xo.p, (int32_t*)x32.p); free(p); }
    { CPLX_FROM_TNX32_PRECOMP* p = new_cplx_from_tnx32_precomp(m); cplx_from_tnx32(p, r.p, (int32_t*)x32.p); cplx_from_tnx32(p, xo.p, (int32_t*)x32.p); free(p); }
    for (uint64_t i = 0; i < n; ++i) ((double*)xi.p)[i] = (double)((int64_t)(rng.next() % 2001) - 1000) * 0x1p-8;
    { CPLX_TO_TNX32_PRECOMP* p = new_cplx_to_tnx32_precomp(m, 4.0, 10); cplx_to_tnx32(p, r4.as<int32_t>(), xi.p); cplx_to_tnx32(p, (int32_t*)o32.p, xi.p); free(p); }
    if (!r.guards_ok() || !r4.guards_ok()) ctx.violation(id, "write outside a declared extent (inputs at the end of the mapped memory)");
  }
  // int64 -> double: every log2bound 0..50, values below 2^log2bound
  for (uint32_t lb = 0; lb <= 50; ++lb) {
    GBuf x(n * 8, 8), r(n * 8, 16), r2(n * 8, 24);
    const int64_t lim = INT64_C(1) << lb;
    for (uint64_t i = 0; i < n; ++i) { int64_t v = lb ? (int64_t)(rng.next() % (uint64_t)(2 * lim - 1)) - (lim - 1) : 0; if (i == 0) v = lim - 1; if (i == 1) v = -(lim - 1); x.as<int64_t>()[i] = v; }
    REIM_FROM_ZNX64_PRECOMP* p = new_reim_from_znx64_precomp(m, lb);
    reim_from_znx64(p, r.p, x.as<int64_t>()); reim_from_znx64_simple(m, lb, r2.p, x.as<int64_t>());
    for (uint64_t i = 0; i < n; ++i) if (r.as<double>()[i] != (double)x.as<int64_t>()[i] || r2.as<double>()[i] != (double)x.as<int64_t>()[i]) { ctx.violation(id, sfmt("reim_from_znx64 (precomp or simple, log2bound %u) is not exact on %lld", lb, (long long)x.as<int64_t>()[i])); break; }
    if (!x.guards_ok() || !r.guards_ok() || !r2.guards_ok()) ctx.violation(id, "write outside a declared extent (int64 -> double)");
    free(p);
  }
  // double -> int64, both bounds, two divisors
  // double -> int64: EVERY log2bound 0..64 (the announced bound of |x/d|), two divisors; values inside min(2^log2bound, 2^52)
  // (divisor in the outer loop: consecutive *_simple calls differ in log2bound only, so a table kept between calls must be re-selected)
  for (int j : {0, 7}) for (uint32_t lb = 0; lb <= 64; ++lb) {
    const int lim = (int)std::min<uint32_t>(lb, 52);
    std::vector<double> Y = quotient_alphabet(std::max(lim, 1), -3);
    if (lim == 0) Y = {0.0, 0.25, -0.25, 0.5 - 0x1p-54, -(0.5 - 0x1p-54), 0.75, -0.75, 1.0 - 0x1p-53};
    GBuf x(n * 8, 8), r(n * 8, 16), r2(n * 8, 24);
    const double d = ldexp(1.0, j);
    REIM_TO_ZNX64_PRECOMP* p = new_reim_to_znx64_precomp(m, d, lb);
    for (size_t base = 0; base < Y.size(); base += n) {
      for (uint64_t i = 0; i < n; ++i) x.as<double>()[i] = Y[std::min(base + i, Y.size() - 1)] * d;
      reim_to_znx64(p, r.as<int64_t>(), x.p); reim_to_znx64_simple(m, d, lb, r2.as<int64_t>(), x.p);
      { GBuf z(n * 8, 8 * (1 + (lb + base) % 3));  // in place, vector not 32-byte aligned
        memcpy(z.p, x.p, n * 8); reim_to_znx64(p, z.as<int64_t>(), z.p);
        for (uint64_t i = 0; i < n; ++i) { q128 q = (q128)x.as<double>()[i] / (q128)d;
          if (!(fabsq((q128)z.as<int64_t>()[i] - q) <= 0.5Q)) { ctx.violation(id, sfmt("reim_to_znx64 in place (log2bound %u, divisor 2^%d, vector at %zu modulo 32): x/d=%.20g gives %lld", lb, j, z.off, (double)q, (long long)z.as<int64_t>()[i])); base = Y.size(); break; } }
        if (!z.guards_ok()) ctx.violation(id, "write outside a declared extent (double -> int64 in place)"); }
      if (base >= Y.size()) break;
      for (uint64_t i = 0; i < n; ++i) {
        q128 q = (q128)x.as<double>()[i] / (q128)d;
        if (!(fabsq((q128)r.as<int64_t>()[i] - q) <= 0.5Q) || !(fabsq((q128)r2.as<int64_t>()[i] - q) <= 0.5Q)) { ctx.violation(id, sfmt("reim_to_znx64 (log2bound %u, divisor 2^%d): x/d=%.20g gives %lld / simple %lld", lb, j, (double)q, (long long)r.as<int64_t>()[i], (long long)r2.as<int64_t>()[i])); base = Y.size(); break; }
      }
    }
    if (!x.guards_ok() || !r.guards_ok() || !r2.guards_ok()) ctx.violation(id, "write outside a declared extent (double -> int64)");
    free(p);
  }
  // complex -> torus32 (both dispatch branches of log2overhead)
  for (uint32_t l2o = 0; l2o <= 52; ++l2o) {
    std::vector<double> Y = quotient_alphabet(std::max<int>(1, std::min<int>((int)l2o, 24)), -40);  // up to the announced overhead (consecutive *_simple calls differ in log2overhead only)
    GBuf x(n * 8, 8), r(n * 4, 16), r2(n * 4, 24);
    const double d = 4.0;
    CPLX_TO_TNX32_PRECOMP* p = new_cplx_to_tnx32_precomp(m, d, l2o);
    for (size_t base = 0; base < Y.size(); base += n) {
      for (uint64_t i = 0; i < n; ++i) x.as<double>()[i] = Y[std::min(base + i, Y.size() - 1)] * d;
      cplx_to_tnx32(p, r.as<int32_t>(), x.p); cplx_to_tnx32_simple(m, d, l2o, r2.as<int32_t>(), x.p);
      for (uint64_t i = 0; i < n; ++i) {
        q128 t = (q128)x.as<double>()[i] / (q128)d * 0x1p32Q, k0 = rintq(t);
        for (int v = 0; v < 2; ++v) {
          int32_t o = v ? ((i & 1) ? r2.as<int32_t>()[m + i / 2] : r2.as<int32_t>()[i / 2]) : ((i & 1) ? r.as<int32_t>()[m + i / 2] : r.as<int32_t>()[i / 2]);
          bool ok = false;
          for (int dk = -1; dk <= 1 && !ok; ++dk) { q128 kk = k0 + dk; if (fabsq(kk - t) <= 0.5Q) { q128 md = fmodq(kk, 0x1p32Q); if (md < 0) md += 0x1p32Q; if ((uint32_t)(uint64_t)md == (uint32_t)o) ok = true; } }
          if (!ok) { ctx.violation(id, sfmt("cplx_to_tnx32%s (log2overhead %u): x/d=%.20g gives %d", v ? "_simple" : "", l2o, (double)((q128)x.as<double>()[i] / d), o)); base = Y.size(); i = n; break; }
        }
      }
    }
    if (!x.guards_ok() || !r.guards_ok() || !r2.guards_ok()) ctx.violation(id, "write outside a declared extent (complex -> torus32)");
    free(p);
  }
  set_cfg(CFG_NATIVE);
  ctx.end_case(true);
}

int main(int argc, char** argv) {
  Args args = parse_args("C14", argc, argv, 420, 1800);
  Ctx ctx(args);
  const bool th = args.thorough();
  ctx.name_metric(0, "int32_inputs"); ctx.name_metric(1, "int64_inputs"); ctx.name_metric(2, "double_inputs"); ctx.name_metric(3, "exact_ties_seen");
  FI fi[] = {{"cplx_from_znx32_ref", (fromi32_f)cplx_from_znx32_ref, 1.0}, {"cplx_from_znx32_avx2_fma", (fromi32_f)cplx_from_znx32_avx2_fma, 1.0},
             {"cplx_from_tnx32_ref", (fromi32_f)cplx_from_tnx32_ref, 0x1p-32}, {"cplx_from_tnx32_avx2_fma", (fromi32_f)cplx_from_tnx32_avx2_fma, 0x1p-32}};
  struct It { int part, a, b, c; CpuCfg cfg; };
  std::vector<It> items;
  const int NB = 64;
  for (int k = 0; k < 4; ++k) for (int b = 0; b < NB; ++b) items.push_back({0, k, b, NB, CFG_NATIVE});
  for (int w = 0; w < 2; ++w) for (int b = 0; b < 16; ++b) items.push_back({1, w, b, 16, CFG_NATIVE});
  for (int w = 0; w < 3; ++w) for (int j = 0; j <= 40; ++j) items.push_back({2, w, j, 0, CFG_NATIVE});
  for (int w = 0; w < 2; ++w) for (int j : {0, 1, 5, 20, 40}) items.push_back({3, w, j, 0, CFG_NATIVE});
  for (int l = 0; l <= 48; ++l) { items.push_back({4, 0, l, 0, CFG_NATIVE}); items.push_back({4, 1, l, 0, CFG_NATIVE}); for (auto& c : cfgs(th)) items.push_back({4, 2, l, 0, c}); }
  for (uint64_t m = 1; m <= (th ? 4096u : 64u); m *= 2) for (auto& c : cfgs(th)) items.push_back({5, (int)m, 0, 0, c});
  ctx.parallel(items.size(), [&](uint64_t i) {
    const It& it = items[i];
    switch (it.part) {
      case 0: part_a(ctx, fi[it.a], it.b, it.c); break;
      case 1: part_b(ctx, it.a, it.b, it.c); break;
      case 2: part_c(ctx, it.a, it.b); break;
      case 3: part_d(ctx, it.a, it.b); break;
      case 4: part_e(ctx, it.a, it.b, it.cfg); break;
      case 5: part_f(ctx, it.a, it.cfg); break;
    }
  });
  ctx.assumptions = {"divisors are powers of two (the constructors reject anything else), so x = y*d is exact and the verdict |out - x/d| <= 1/2 is evaluated exactly in binary128",
                     "exact .5 ties may round either way", "domains: |x| < 2^50 (int64->double), |x/d| < 2^50 fast / 2^52 wide and reference (double->int64), |x/d| < 2^18 (torus32), |x/d| <= 2^log2overhead (torus double)",
                     "reim_from_znx32 / reim_from_tnx32 / reim_to_tnx32 are NOT_IMPLEMENTED stubs and are not part of the property"};
  return ctx.finish("exploration",
                    "A: all 2^32 int32 inputs x 4 kernels (64 blocks each); B: complete sweep |x|<2^27 + structured values x 2 kernels; C: 3 kernels x divisors 2^0..2^40 x per-binade boundary alphabet; "
                    "D: 2 kernels x 5 divisors; E: log2overhead 0..48 x {ref, avx, dispatch x cfg} x 5 divisors; F: m = 1..64 x cfg through new_*_precomp and *_simple; distinct = distinct case ids",
                    true);
}
