// Auxiliary binary of C12: the bodies of the Engine C scenarios, free-running on 16 threads behind a
// barrier, built with -fsanitize=thread (library and harness).  Prints ThreadSanitizer reports on
// stderr and "TSAN-BODIES done" at the end.
#include <pthread.h>
#include "../harness/lsm_explore.hpp"
using namespace vf;

static std::vector<LsmOp> g_ops;
static size_t g_lo, g_hi;
static pthread_barrier_t g_bar;
static const int NT = 16;
static void* body(void* a) {
  long t = (long)a;
  pthread_barrier_wait(&g_bar);
  uint64_t acc = 0;
  for (int rep = 0; rep < 3; ++rep)
    for (size_t k = g_lo; k < g_hi; ++k) acc ^= g_ops[g_lo + (k - g_lo + t * 7) % (g_hi - g_lo)].run();
  return (void*)acc;
}
static void phase(size_t lo, size_t hi) {
  g_lo = lo; g_hi = hi;
  pthread_barrier_init(&g_bar, 0, NT);
  pthread_t th[NT];
  for (long t = 0; t < NT; ++t) pthread_create(&th[t], 0, body, (void*)t);
  for (int t = 0; t < NT; ++t) pthread_join(th[t], 0);
  pthread_barrier_destroy(&g_bar);
}
int main() {
  lsm_protect_sources() = false;
  add_module_ops(g_ops, {4, 16, 1024});
  add_table_ops(g_ops);
  add_ctor_ops(g_ops);
  size_t nmod = g_ops.size();
  add_simple_ops(g_ops);
  // phase A: fresh process, module-level entry points and table kernels on shared objects
  phase(0, nmod);
  // phase B: documented warm-up of every *_simple function, then everything concurrently
  for (size_t k = nmod; k < g_ops.size(); ++k) g_ops[k].run();
  phase(0, g_ops.size());
  fprintf(stderr, "TSAN-BODIES done (%zu ops, %d threads)\n", g_ops.size(), NT);
  return 0;
}
