// C03 — NTT120 transform is an exact, invertible negacyclic transform on all 64-bit data.
// Decided as the conjunction of
//  (1) no lane ever wraps for any 64-bit lane content: the envelope model of Engine D, complete over
//      n = 2^0..2^16, both directions, four primes (same model as C04);
//  (2) given (1) every stage is linear modulo each prime: table facts on every twiddle word;
//  (3) the linear map is the evaluation map: EVERY basis vector e_i of every n (n <= 4096 quick,
//      65536 thorough) through the real forward transform, and every unit vector through the inverse;
//  (4) concrete extremal runs: round trip, additivity, pointwise product -> negacyclic convolution;
//  (5) module level: vec_znx_dft -> vec_znx_idft / _tmp_a on NTT120 modules over sizes, strides and
//      an int64 alphabet incl. INT64_MIN/MAX.
#include "../harness/giant.hpp"
#include "../harness/apiops.hpp"
#include "../harness/envelope.hpp"
using namespace vf;

static const uint64_t QS[4] = {Q1, Q2, Q3, Q4};
static inline uint64_t mm(uint64_t a, uint64_t b, uint64_t q) { return (a * b) % q; }  // a, b < 2^32

static void part_model(Ctx& ctx, uint64_t n, bool inverse) {
  std::string id = sfmt("model|%s|n=%llu", inverse ? "intt" : "ntt", (unsigned long long)n);
  if (!ctx.want(id)) return;
  ctx.begin_case(id);
  q120_ntt_precomp* pc = inverse ? q120_new_intt_bb_precomp(n) : q120_new_ntt_bb_precomp(n);
  if (!ntt_tables_ready(pc, inverse)) { ctx.end_case(false); return; }  // tables not readable in this build: the basis and module parts still decide
  EnvResult R = envelope_ntt(pc, inverse);
  for (auto& f : R.failures) ctx.violation(id, "a lane can wrap for some 64-bit content: " + f);
  std::vector<std::string> tf; uint64_t words = 0;
  check_ntt_tables(pc, inverse, tf, words);
  for (auto& f : tf) ctx.violation(id, "a stage is not the linear map modulo q it should be: " + f);
  ctx.metric_add(0, R.states); ctx.metric_add(1, words);
  if (inverse) q120_del_intt_bb_precomp(pc); else q120_del_ntt_bb_precomp(pc);
  ctx.end_case(n > 1);
}

// exponents e_j: out_j(e_1) = omega^(e_j); must be all odd residues mod 2n, each once, same for the 4 primes
static bool exponents(uint64_t n, const uint64_t* img_e1, std::vector<uint32_t>& e, std::string& err) {
  e.assign(n, 0);
  for (int k = 0; k < 4; ++k) {
    const uint64_t q = QS[k];
    uint64_t om = powmod(OMEGAS_VEC[k], 65536 / n, q);
    std::map<uint64_t, uint32_t> dl;
    uint64_t v = 1;
    for (uint32_t t = 0; t < 2 * n; ++t) { dl[v] = t; v = mm(v, om, q); }
    std::vector<char> seen(2 * n, 0);
    for (uint64_t j = 0; j < n; ++j) {
      auto it = dl.find(img_e1[4 * j + k] % q);
      if (it == dl.end()) { err = sfmt("output %llu of the transform of X is not a power of omega (prime %d)", (unsigned long long)j, k); return false; }
      uint32_t t = it->second;
      if (!(t & 1) || seen[t]) { err = sfmt("output %llu evaluates at omega^%u: not an odd exponent used once (prime %d)", (unsigned long long)j, t, k); return false; }
      seen[t] = 1;
      if (k == 0) e[j] = t; else if (e[j] != t) { err = sfmt("output %llu uses different evaluation points for different primes", (unsigned long long)j); return false; }
    }
  }
  return true;
}

static void part_basis(Ctx& ctx, uint64_t n, uint64_t i0, uint64_t i1) {
  q120_ntt_precomp* pf = q120_new_ntt_bb_precomp(n);
  q120_ntt_precomp* pi = q120_new_intt_bb_precomp(n);
  GBuf d(32 * n, 0);
  // exponents from the image of X (or of 1 when n == 1)
  std::vector<uint32_t> e(n, 1);
  std::string eerr;
  if (n >= 2) {
    memset(d.p, 0, 32 * n);
    for (int k = 0; k < 4; ++k) d.as<uint64_t>()[4 * 1 + k] = 1;
    q120_ntt_bb_avx2(pf, (q120b*)d.p);
    if (!exponents(n, d.as<uint64_t>(), e, eerr)) { std::string id = sfmt("basis|n=%llu|exponents", (unsigned long long)n); ctx.begin_case(id); ctx.violation(id, eerr); ctx.end_case(true); goto out; }
    for (uint64_t j = 0; j < n; ++j) if (e[j] != 2 * bitrev((uint32_t)j, ilog2(n)) + 1) ctx.metric_add(3);  // informational: documented order
  }
  {
    // w[k][j] = omega^(e_j) mod q_k, winv likewise for the inverse, ninv = n^-1
    std::vector<uint64_t> w(4 * n), wi(4 * n), cur(4 * n), curi(4 * n);
    uint64_t ninv[4];
    for (int k = 0; k < 4; ++k) {
      const uint64_t q = QS[k];
      uint64_t om = powmod(OMEGAS_VEC[k], n >= 1 ? 65536 / n : 1, q);
      ninv[k] = invmod(n % q, q);
      for (uint64_t j = 0; j < n; ++j) { w[4 * j + k] = powmod(om, e[j], q); wi[4 * j + k] = invmod(w[4 * j + k], q); }
    }
    // start the running powers at i0
    for (int k = 0; k < 4; ++k) for (uint64_t j = 0; j < n; ++j) { cur[4 * j + k] = powmod(w[4 * j + k], i0, QS[k]); curi[4 * j + k] = mm(powmod(wi[4 * j + k], i0, QS[k]), ninv[k], QS[k]); }
    const uint64_t chunk = n <= 64 ? n : 64;
    for (uint64_t i = i0; i < i1;) {
      uint64_t ie = std::min(i1, i + chunk);
      std::string id = sfmt("basis|n=%llu|unit vectors %llu..%llu", (unsigned long long)n, (unsigned long long)i, (unsigned long long)(ie - 1));
      bool run = ctx.want(id);
      if (run) ctx.begin_case(id);
      bool bad = false;
      const uint64_t start = i;
      for (; i < ie; ++i) {
        if (run && !bad) {
          // forward transform of X^i: out_j = omega^(e_j i)
          memset(d.p, 0, 32 * n);
          for (int k = 0; k < 4; ++k) d.as<uint64_t>()[4 * i + k] = 1;
          q120_ntt_bb_avx2(pf, (q120b*)d.p);
          for (uint64_t t = 0; t < 4 * n; ++t) if (d.as<uint64_t>()[t] % QS[t & 3] != cur[t]) { ctx.violation(id, sfmt("ntt(X^%llu) output %llu prime %d is not omega^(e_j*i)", (unsigned long long)i, (unsigned long long)(t / 4), (int)(t & 3))); bad = true; break; }
          // inverse transform of the unit vector at position j = i: out_t = n^-1 omega^(-e_j t)
          if (!bad) {
            memset(d.p, 0, 32 * n);
            for (int k = 0; k < 4; ++k) d.as<uint64_t>()[4 * i + k] = 1;
            q120_intt_bb_avx2(pi, (q120b*)d.p);
            uint64_t p[4];
            for (int k = 0; k < 4; ++k) p[k] = ninv[k];
            for (uint64_t t = 0; t < n && !bad; ++t) for (int k = 0; k < 4; ++k) {
              if (d.as<uint64_t>()[4 * t + k] % QS[k] != p[k]) { ctx.violation(id, sfmt("intt(unit vector %llu) output %llu prime %d is not n^-1 omega^(-e_j t)", (unsigned long long)i, (unsigned long long)t, k)); bad = true; break; }
              p[k] = mm(p[k], wi[4 * i + k], QS[k]);
            }
          }
          if (!d.guards_ok()) { ctx.violation(id, "write outside the 32 n bytes"); bad = true; }
        }
        for (uint64_t t = 0; t < 4 * n; ++t) cur[t] = mm(cur[t], w[t], QS[t & 3]);
      }
      if (run) { ctx.metric_add(2, ie - start); ctx.end_case(true); }
    }
  }
out:
  q120_del_ntt_bb_precomp(pf); q120_del_intt_bb_precomp(pi);
}

static void fill_pattern(uint64_t* d, uint64_t n, int pat, Rng& r) {
  for (uint64_t i = 0; i < n; ++i) for (int k = 0; k < 4; ++k) {
    uint64_t top = (~0ull / QS[k]) * QS[k];
    uint64_t v;
    switch (pat) { case 0: v = ~0ull; break; case 1: v = (i & 1) ? 0 : ~0ull; break; case 2: v = top - 1; break; case 3: v = top - (i % 3); break; case 4: v = (i == n / 3) ? ~0ull : 0; break; default: v = r.next(); }
    d[4 * i + k] = v;
  }
}
static const char* PATN[] = {"all-ones", "alternating", "below-multiple-of-q", "cyclic-near-multiple", "single-maximal", "seeded"};

static void part_concrete(Ctx& ctx, uint64_t n) {
  q120_ntt_precomp* pf = q120_new_ntt_bb_precomp(n);
  q120_ntt_precomp* pi = q120_new_intt_bb_precomp(n);
  Rng rng(ctx.args.seed * 17 + n);
  GBuf a(32 * n, 0), b(32 * n, 8), c(32 * n, 16);
  for (int p1 = 0; p1 < 6; ++p1) {
    std::string id = sfmt("concrete|n=%llu|%s|round trip, additivity, convolution", (unsigned long long)n, PATN[p1]);
    if (!ctx.want(id)) continue;
    ctx.begin_case(id);
    fill_pattern(a.as<uint64_t>(), n, p1, rng);
    std::vector<uint64_t> x(a.as<uint64_t>(), a.as<uint64_t>() + 4 * n);
    q120_ntt_bb_avx2(pf, (q120b*)a.p);
    std::vector<uint64_t> X(a.as<uint64_t>(), a.as<uint64_t>() + 4 * n);
    q120_intt_bb_avx2(pi, (q120b*)a.p);
    for (uint64_t t = 0; t < 4 * n; ++t) if (a.as<uint64_t>()[t] % QS[t & 3] != x[t] % QS[t & 3]) { ctx.violation(id, sfmt("intt(ntt(x)) differs from x modulo q at lane %llu", (unsigned long long)t)); break; }
    // and the other order
    memcpy(a.p, x.data(), 32 * n);
    q120_intt_bb_avx2(pi, (q120b*)a.p); q120_ntt_bb_avx2(pf, (q120b*)a.p);
    for (uint64_t t = 0; t < 4 * n; ++t) if (a.as<uint64_t>()[t] % QS[t & 3] != x[t] % QS[t & 3]) { ctx.violation(id, sfmt("ntt(intt(x)) differs from x modulo q at lane %llu", (unsigned long long)t)); break; }
    for (int p2 = 0; p2 < 6; ++p2) {
      fill_pattern(b.as<uint64_t>(), n, p2, rng);
      std::vector<uint64_t> y(b.as<uint64_t>(), b.as<uint64_t>() + 4 * n);
      // additivity on halves (x>>1)+(y>>1) < 2^64
      for (uint64_t t = 0; t < 4 * n; ++t) { a.as<uint64_t>()[t] = x[t] >> 1; b.as<uint64_t>()[t] = y[t] >> 1; c.as<uint64_t>()[t] = (x[t] >> 1) + (y[t] >> 1); }
      q120_ntt_bb_avx2(pf, (q120b*)a.p); q120_ntt_bb_avx2(pf, (q120b*)b.p); q120_ntt_bb_avx2(pf, (q120b*)c.p);
      for (uint64_t t = 0; t < 4 * n; ++t) { uint64_t q = QS[t & 3]; if ((a.as<uint64_t>()[t] % q + b.as<uint64_t>()[t] % q) % q != c.as<uint64_t>()[t] % q) { ctx.violation(id, sfmt("ntt(x)+ntt(y) != ntt(x+y) modulo q at lane %llu (second pattern %s)", (unsigned long long)t, PATN[p2])); break; } }
      // pointwise product -> inverse == negacyclic convolution modulo q (n <= 256: schoolbook)
      if (n <= 256) {
        memcpy(b.p, y.data(), 32 * n);
        q120_ntt_bb_avx2(pf, (q120b*)b.p);
        for (uint64_t t = 0; t < 4 * n; ++t) { uint64_t q = QS[t & 3]; c.as<uint64_t>()[t] = mm(X[t] % q, b.as<uint64_t>()[t] % q, q); }
        q120_intt_bb_avx2(pi, (q120b*)c.p);
        for (int k = 0; k < 4; ++k) {
          const uint64_t q = QS[k];
          for (uint64_t t = 0; t < n; ++t) {
            uint64_t s = 0;
            for (uint64_t i = 0; i < n; ++i) { uint64_t j = (t + n - i) % n; uint64_t pr = mm(x[4 * i + k] % q, y[4 * j + k] % q, q); if (i <= t) s = (s + pr) % q; else s = (s + q - pr) % q; }
            if (c.as<uint64_t>()[4 * t + k] % q != s) { ctx.violation(id, sfmt("intt(ntt(x).ntt(y)) is not the negacyclic convolution at coefficient %llu prime %d (second pattern %s)", (unsigned long long)t, k, PATN[p2])); k = 4; break; }
          }
        }
      }
    }
    if (!a.guards_ok() || !b.guards_ok() || !c.guards_ok()) ctx.violation(id, "write outside the 32 n bytes");
    ctx.end_case(true);
  }
  q120_del_ntt_bb_precomp(pf); q120_del_intt_bb_precomp(pi);
}

// module level
static void part_module(Ctx& ctx, uint64_t N) {
  MODULE* mod = get_module(N, NTT120, CFG_NATIVE);
  static const int64_t A0[] = {0, 1, -1, INT64_C(1) << 32, -(INT64_C(1) << 32), INT64_C(1) << 62, -(INT64_C(1) << 62), INT64_MIN, INT64_MAX, (int64_t)Q1, -(int64_t)Q2, (int64_t)Q3 * 5, -(int64_t)Q4 * 7,
                               // values with the same small residue modulo two of the primes (t * Qi * Qj + r): a lift that looks at a subset of the residues goes wrong here
                               (int64_t)Q1 * (int64_t)Q4, -5 * ((int64_t)Q1 * (int64_t)Q4) + 42, (int64_t)Q2 * (int64_t)Q3 + 1, -((int64_t)Q1 * (int64_t)Q2) + 7, 3 * ((int64_t)Q3 * (int64_t)Q4), (int64_t)Q2 * (int64_t)Q4 + (int64_t)Q2 - 1, -((int64_t)Q1 * (int64_t)Q3)};
  const int na = sizeof(A0) / sizeof(A0[0]);
  Rng rng(ctx.args.seed + N);
  for (int variant = 0; variant < 2; ++variant)
    for (uint64_t as = 0; as <= 3; ++as) for (uint64_t ds = 0; ds <= 3; ++ds) for (uint64_t os = 0; os <= 3; ++os) for (uint64_t asl : std::vector<uint64_t>{N, N + 1, N + 3, N - 1, N / 2, 0}) {  // a source is only read: overlapping (stride < N) and replicated (stride 0) limbs are stride combinations too
      if (asl < N && (N < 2 || as < 2)) continue;
      std::string id = sfmt("module|%s|N=%llu|a_size=%llu,a_sl=%llu|dft_size=%llu|out_size=%llu", variant ? "vec_znx_idft_tmp_a" : "vec_znx_idft", (unsigned long long)N,
                            (unsigned long long)as, (unsigned long long)asl, (unsigned long long)ds, (unsigned long long)os);
      if (!ctx.want(id)) continue;
      ctx.begin_case(id);
      GBuf a(limbvec_elems(N, as, asl) * 8, 8), dft(32 * N * ds, 0), big(16 * N * os, 16), tmp(vec_znx_idft_tmp_bytes(mod), 24);
      prefill(a.p, a.bytes, 1); prefill(dft.p, dft.bytes, 2); prefill(big.p, big.bytes, 1); prefill(tmp.p, tmp.bytes, 2);
      for (uint64_t i = 0; i < as; ++i) for (uint64_t j = 0; j < N; ++j) { uint64_t e = i * N + j; a.as<int64_t>()[i * asl + j] = (e % 3 == 2) ? (int64_t)rng.next() : A0[(e + as + ds) % na]; }
      std::vector<uint8_t> asnap(a.p, a.p + a.bytes);
      vec_znx_dft(mod, (VEC_ZNX_DFT*)dft.p, ds, a.as<int64_t>(), as, asl);
      std::vector<uint8_t> dsnap(dft.p, dft.p + dft.bytes);
      if (variant == 0) vec_znx_idft(mod, (VEC_ZNX_BIG*)big.p, os, (VEC_ZNX_DFT*)dft.p, ds, tmp.p);
      else vec_znx_idft_tmp_a(mod, (VEC_ZNX_BIG*)big.p, os, (VEC_ZNX_DFT*)dft.p, ds);
      for (uint64_t i = 0; i < os; ++i) for (uint64_t j = 0; j < N; ++j) {
        i128 e = (i < as && i < ds) ? (i128)a.as<int64_t>()[i * asl + j] : 0;
        i128 g; memcpy(&g, big.p + 16 * (i * N + j), 16);
        if (g != e) { ctx.violation(id, sfmt("limb %llu coefficient %llu: dft->idft returned %s, the original coefficient is %s", (unsigned long long)i, (unsigned long long)j, i128_str(g).c_str(), i128_str(e).c_str())); i = os; break; }
      }
      if (a.bytes && memcmp(a.p, asnap.data(), a.bytes)) ctx.violation(id, "vec_znx_dft modified its integer input");
      if (variant == 0 && dft.bytes && memcmp(dft.p, dsnap.data(), dft.bytes)) ctx.violation(id, "vec_znx_idft modified its DFT input");
      if (!a.guards_ok() || !dft.guards_ok() || !big.guards_ok() || !tmp.guards_ok()) ctx.violation(id, "write outside a declared extent");
      ctx.end_case(std::min(as, std::min(ds, os)) > 0);
    }
}

int main(int argc, char** argv) {
  Args args = parse_args("C03", argc, argv, 300, 1800);
  Ctx ctx(args);
  const bool th = args.thorough();
  ctx.name_metric(0, "abstract_states"); ctx.name_metric(1, "table_words_checked"); ctx.name_metric(2, "basis_vectors"); ctx.name_metric(3, "outputs_not_in_bitreversed_order");
  struct It { int part; uint64_t n; bool inv; uint64_t i0, i1; };
  std::vector<It> items;
  const uint64_t basis_max = th ? 65536 : 4096;
  for (int lg = 16; lg >= 0; --lg) {
    uint64_t n = 1ull << lg;
    if (n <= basis_max) {
      uint64_t step = std::min<uint64_t>(n, std::max<uint64_t>(64, (1ull << 22) / n));
      for (uint64_t i = 0; i < n; i += step) items.push_back({2, n, false, i, std::min(n, i + step)});
    }
  }
  for (int lg = 16; lg >= 0; --lg) { uint64_t n = 1ull << lg; items.push_back({3, n, false, 0, 0}); items.push_back({1, n, false, 0, 0}); items.push_back({1, n, true, 0, 0}); }
  for (uint64_t N : (th ? std::vector<uint64_t>{65536, 1024, 64, 8, 4, 2, 1} : std::vector<uint64_t>{8192, 64, 8, 4, 2, 1})) items.push_back({4, N, false, 0, 0});
  ctx.parallel(items.size(), [&](uint64_t i) {
    const It& it = items[i];
    switch (it.part) { case 1: part_model(ctx, it.n, it.inv); break; case 2: part_basis(ctx, it.n, it.i0, it.i1); break; case 3: part_concrete(ctx, it.n); break; case 4: part_module(ctx, it.n); break; }
  });
  const bool giant = (th || getenv("VERIF_GIANT")) && giant_memory_ok();
  if (giant) ctx.parallel(2, [&](uint64_t i) { giant_dft_roundtrip(ctx, NTT120, (int)i); }, "giant vectors (> 4 GiB)");
  ctx.assumptions = {"(1)+(2)+(3) give: for every lane content no word wraps, hence every stage is the linear map modulo q certified by the table facts, hence the transform is the linear map determined by its action on the basis, which (3) shows to be evaluation at the primitive 2n-th roots",
                     "NTT120 dft/idft exist only when avx2 is reported; default 30-bit primes"};
  Json ex = Json::obj();
  ex.set("basis_complete_up_to_n", basis_max);
  ex.set("giant_vectors", giant ? "dft -> idft / idft_tmp_a on NTT120 DFT vectors of 4 GiB + 2 MiB (2049 limbs at N = 65536)" : (th ? "skipped: less than 20 GiB of memory available" : "thorough tier only"));
  return ctx.finish("exploration",
                    "envelope model and table facts for n=2^0..2^16 both directions; every basis vector of every n <= basis bound through ntt and every unit vector through intt (64 per case id); 6 extremal lane patterns x 6 for additivity / convolution; "
                    "module-level dft->idft(_tmp_a) over (a_size,dft_size,out_size) in {0..3}^3 x strides (N, N+1, N+3, and for the read-only source also N-1, N/2, 0) x int64 alphabet; thorough: dft -> idft / idft_tmp_a on DFT vectors of more than 4 GiB (2049 limbs at N = 65536); distinct = distinct case ids",
                    true, ex);
}
