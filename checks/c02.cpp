// C02 — vector-matrix product (VMP) equals the naive polynomial product for all shapes.
// Engine A: N x nrows x ncols x a_size x res_size x stride x cfg x both entry points, dense injective
// probes in the exactness regime (E < 1/2), plus the complete bilinear basis sweep for small N.
// Oracle: column j = sum_{i < min(nrows,a_size)} a_i * M[i][j] in Z[X]/(X^N+1) (__int128 schoolbook),
// read back through vec_znx_idft_tmp_a; columns >= ncols exactly zero; both entry points agree.
#include "../harness/apiops.hpp"
using namespace vf;

struct Shape { uint64_t N, nr, nc, as, rs, asl; };

// runs prepare + apply (+ idft) on given integer data; returns res_size*N integers
static bool g_zero_gaps = false;  // stride padding of the input vector filled with zeros instead of the 0xFF pattern
static void run_vmp(MODULE* mod, const Shape& s, const std::vector<int64_t>& mat, const std::vector<int64_t>& a, int entry,
                    std::vector<int64_t>& out, std::string& err) {
  const uint64_t N = s.N;
  GBuf pm(bytes_of_vmp_pmat(mod, s.nr, s.nc), 0), ptmp(vmp_prepare_contiguous_tmp_bytes(mod, s.nr, s.nc), 8);
  GBuf gm(mat.size() * 8, 16);
  memcpy(gm.p, mat.data(), mat.size() * 8);
  prefill(pm.p, pm.bytes, 2); prefill(ptmp.p, ptmp.bytes, 1);
  vmp_prepare_contiguous(mod, (VMP_PMAT*)pm.p, gm.as<int64_t>(), s.nr, s.nc, ptmp.p);
  if (memcmp(gm.p, mat.data(), mat.size() * 8)) err = "vmp_prepare_contiguous modified the integer matrix";
  GBuf ga(limbvec_elems(N, s.as, s.asl) * 8, 24);
  prefill(ga.p, ga.bytes, g_zero_gaps ? 0 : 1);
  for (uint64_t i = 0; i < s.as; ++i) memcpy(ga.as<int64_t>() + i * s.asl, &a[i * N], N * 8);
  std::vector<uint8_t> a_snap(ga.p, ga.p + ga.bytes), pm_snap(pm.p, pm.p + pm.bytes);
  GBuf res(bytes_of_vec_znx_dft(mod, s.rs), 8);
  prefill(res.p, res.bytes, 2);
  if (entry == 0) {
    GBuf tmp(vmp_apply_dft_tmp_bytes(mod, s.rs, s.as, s.nr, s.nc), 16);
    prefill(tmp.p, tmp.bytes, 2);
    vmp_apply_dft(mod, (VEC_ZNX_DFT*)res.p, s.rs, ga.as<int64_t>(), s.as, s.asl, (VMP_PMAT*)pm.p, s.nr, s.nc, tmp.p);
    if (!tmp.guards_ok()) err = "vmp_apply_dft wrote outside its tmp_bytes scratch";
  } else {
    GBuf adft(bytes_of_vec_znx_dft(mod, s.as), 16);
    prefill(adft.p, adft.bytes, 2);
    vec_znx_dft(mod, (VEC_ZNX_DFT*)adft.p, s.as, ga.as<int64_t>(), s.as, s.asl);
    std::vector<uint8_t> d_snap(adft.p, adft.p + adft.bytes);
    GBuf tmp(vmp_apply_dft_to_dft_tmp_bytes(mod, s.rs, s.as, s.nr, s.nc), 24);
    prefill(tmp.p, tmp.bytes, 2);
    vmp_apply_dft_to_dft(mod, (VEC_ZNX_DFT*)res.p, s.rs, (VEC_ZNX_DFT*)adft.p, s.as, (VMP_PMAT*)pm.p, s.nr, s.nc, tmp.p);
    if (!tmp.guards_ok() || !adft.guards_ok()) err = "vmp_apply_dft_to_dft wrote outside a declared extent";
    if (adft.bytes && memcmp(adft.p, d_snap.data(), adft.bytes)) err = "vmp_apply_dft_to_dft modified its source a_dft";
  }
  if (ga.bytes && memcmp(ga.p, a_snap.data(), ga.bytes)) err = "the input vector a (or its stride padding) was modified";
  if (pm.bytes && memcmp(pm.p, pm_snap.data(), pm.bytes)) err = "the prepared matrix was modified by apply";
  if (!pm.guards_ok() || !ptmp.guards_ok() || !res.guards_ok() || !ga.guards_ok()) err = "write outside a declared extent (pmat / prepare scratch / res / a)";
  // columns >= ncols must be exactly zero already in DFT space
  for (uint64_t j = std::min(s.nc, s.rs); j < s.rs; ++j)
    for (uint64_t t = 0; t < N; ++t) { uint64_t bits; memcpy(&bits, res.as<double>() + j * N + t, 8); if (bits != 0) { err = sfmt("DFT output column %llu (>= ncols) is not exactly zero", (unsigned long long)j); break; } }
  GBuf big(bytes_of_vec_znx_big(mod, s.rs), 0);
  prefill(big.p, big.bytes, 1);
  vec_znx_idft_tmp_a(mod, (VEC_ZNX_BIG*)big.p, s.rs, (VEC_ZNX_DFT*)res.p, s.rs);
  out.assign(big.as<int64_t>(), big.as<int64_t>() + s.rs * N);
}

static void expected_cols(const Shape& s, const std::vector<int64_t>& mat, const std::vector<int64_t>& a, std::vector<i128>& exp, bool mat_sparse) {
  const uint64_t N = s.N;
  exp.assign(s.rs * N, 0);
  std::vector<i128> prod(N);
  const uint64_t rows = std::min(s.nr, s.as), cols = std::min(s.nc, s.rs);
  for (uint64_t j = 0; j < cols; ++j)
    for (uint64_t i = 0; i < rows; ++i) {
      const int64_t* mp = &mat[(i * s.nc + j) * N];
      if (mat_sparse) negacyclic_mul_i64(N, prod.data(), mp, &a[i * N]); else negacyclic_mul_i64(N, prod.data(), &a[i * N], mp);
      for (uint64_t t = 0; t < N; ++t) exp[j * N + t] += prod[t];
    }
}

static std::string shape_id(const Shape& s, const char* cfg, const char* kind) {
  return sfmt("vmp|%s|%s|N=%llu|nrows=%llu|ncols=%llu|as=%llu,asl=%llu|rs=%llu", kind, cfg, (unsigned long long)s.N, (unsigned long long)s.nr,
              (unsigned long long)s.nc, (unsigned long long)s.as, (unsigned long long)s.asl, (unsigned long long)s.rs);
}

static void check_case(Ctx& ctx, MODULE* mod, const Shape& s, const std::vector<int64_t>& mat, const std::vector<int64_t>& a, const std::string& id, bool sparse) {
  if (!ctx.want(id)) return;
  ctx.begin_case(id);
  std::vector<i128> exp;
  expected_cols(s, mat, a, exp, sparse);
  std::vector<int64_t> out[2];
  for (int entry = 0; entry < 2; ++entry) {
    std::string err;
    run_vmp(mod, s, mat, a, entry, out[entry], err);
    const char* en = entry ? "vec_znx_dft + vmp_apply_dft_to_dft" : "vmp_apply_dft";
    if (!err.empty()) { ctx.violation(id, std::string(en) + ": " + err); continue; }
    for (uint64_t e = 0; e < s.rs * s.N; ++e)
      if ((i128)out[entry][e] != exp[e]) {
        ctx.violation(id, sfmt("%s: column %llu coefficient %llu is %lld, the exact product is %s", en, (unsigned long long)(e / s.N), (unsigned long long)(e % s.N),
                               (long long)out[entry][e], i128_str(exp[e]).c_str()));
        break;
      }
  }
  ctx.end_case(std::min(s.nr, s.as) > 0 && std::min(s.nc, s.rs) > 0);
}

static void dense_data(const Shape& s, std::vector<int64_t>& mat, std::vector<int64_t>& a) {
  mat.resize(s.nr * s.nc * s.N); a.resize(std::max<uint64_t>(s.as, 1) * s.N);
  // all coefficients distinct small integers, signs mixed
  for (size_t e = 0; e < mat.size(); ++e) { int64_t v = (int64_t)e + 1; mat[e] = (e & 1) ? -v : v; }
  for (size_t e = 0; e < a.size(); ++e) { int64_t v = (int64_t)e + 1001; a[e] = (e % 3 == 0) ? -v : v; }
}

// every input coefficient a multiple of 2^32 (a plaintext scaled by a large power of two), tiny matrix entries: still exact
static void scaled_data(const Shape& s, std::vector<int64_t>& mat, std::vector<int64_t>& a) {
  mat.resize(s.nr * s.nc * s.N); a.resize(std::max<uint64_t>(s.as, 1) * s.N);
  for (size_t e = 0; e < mat.size(); ++e) mat[e] = (int64_t)((e * 5 + 1) % 7) - 3;
  for (size_t e = 0; e < a.size(); ++e) { int64_t v = (int64_t)((e * 3) % 7 + 1) << (32 + (e / s.N) % 2 * 3); a[e] = (e % 3 == 0) ? -v : v; }
}

// sparse rows: some rows of the input vector are the zero polynomial, others a single high-degree monomial, and the stride
// padding is zero as well (e.g. one column of a row-major matrix of polynomials): a shortcut for "empty" rows must look at
// the right coefficients
static void sparse_row_data(const Shape& s, std::vector<int64_t>& mat, std::vector<int64_t>& a) {
  mat.resize(s.nr * s.nc * s.N); a.assign(std::max<uint64_t>(s.as, 1) * s.N, 0);
  for (size_t e = 0; e < mat.size(); ++e) { int64_t v = (int64_t)(e % 97) + 1; mat[e] = (e & 1) ? -v : v; }
  for (uint64_t i = 0; i < s.as; ++i) {
    if (i % 3 == 1) continue;                                   // zero row
    if (i % 3 == 2) { a[i * s.N + s.N - 1] = 1000 + (int64_t)i; continue; }   // c * X^(N-1)
    for (uint64_t j = 0; j < s.N; ++j) a[i * s.N + j] = (int64_t)((i * 31 + j * 7) % 201) - 100;
  }
}

static void run_box(Ctx& ctx, uint64_t N, const CpuCfg& cfg, uint64_t maxdim, uint64_t maxsize) {
  MODULE* mod = get_module(N, FFT64, cfg);
  std::vector<int64_t> mat, a;
  for (uint64_t nr = 1; nr <= maxdim; ++nr) for (uint64_t nc = 1; nc <= maxdim; ++nc)
    for (uint64_t as = 0; as <= maxsize; ++as) for (uint64_t rs = 0; rs <= maxsize; ++rs) for (uint64_t asl : {N, N + 3}) {
      Shape s{N, nr, nc, as, rs, asl};
      dense_data(s, mat, a);
      check_case(ctx, mod, s, mat, a, shape_id(s, cfg.name, "dense"), false);
      if (nr <= 3 && nc <= 3 && as <= 3 && rs <= 3 && N <= 16) { scaled_data(s, mat, a); check_case(ctx, mod, s, mat, a, shape_id(s, cfg.name, "scaled-2^32"), false); }
    }
  // sparse rows with zero stride padding, strides N+3 and 2N (every a_size up to 5 ends on a zero row, a monomial row and a dense row)
  g_zero_gaps = true;
  for (uint64_t nr = 1; nr <= std::min<uint64_t>(maxdim, 5); ++nr) for (uint64_t nc = 1; nc <= 2; ++nc)
    for (uint64_t as = 1; as <= 5; ++as) for (uint64_t rs = 1; rs <= 2; ++rs) for (uint64_t asl : {N + 3, 2 * N, 3 * N + 1}) {
      Shape s{N, nr, nc, as, rs, asl};
      sparse_row_data(s, mat, a);
      check_case(ctx, mod, s, mat, a, shape_id(s, cfg.name, "sparse-rows-zero-padding"), false);
    }
  g_zero_gaps = false;
  // larger shapes (odd / even columns, res_size <,=,> ncols, a_size <,=,> nrows)
  for (auto& q : std::vector<std::vector<uint64_t>>{{7, 9, 8, 9}, {9, 7, 10, 5}, {1, 12, 1, 11}, {12, 1, 13, 1}, {8, 8, 8, 7}, {5, 11, 5, 9}, {11, 6, 3, 6}, {6, 7, 9, 8}})
    for (uint64_t asl : {N, N + 3}) { Shape s{N, q[0], q[1], q[2], q[3], asl}; dense_data(s, mat, a); check_case(ctx, mod, s, mat, a, shape_id(s, cfg.name, "dense"), false); }
}

// wide shapes: row / column counts around 16, 32, 64, 128, 256 (a counter or an index kept in 8 bits, a threshold tuned for "many rows")
static void run_wide(Ctx& ctx, uint64_t N, const CpuCfg& cfg) {
  MODULE* mod = get_module(N, FFT64, cfg);
  std::vector<int64_t> mat, a;
  for (auto& q : std::vector<std::vector<uint64_t>>{{17, 3, 17, 3}, {3, 17, 3, 18}, {33, 2, 33, 3}, {2, 33, 3, 33}, {65, 2, 66, 2}, {2, 65, 2, 64}, {129, 2, 129, 1}, {1, 129, 1, 130},
                                                    {257, 1, 257, 1}, {1, 257, 2, 257}, {256, 3, 255, 3}, {3, 256, 3, 255}, {64, 5, 63, 4}, {5, 64, 4, 63}, {128, 2, 300, 2}, {2, 128, 2, 300}, {513, 3, 513, 3}, {600, 3, 600, 3}, {1025, 1, 1025, 1}, {1100, 4, 1100, 3}, {3, 513, 3, 513}, {1, 1025, 1, 1025}, {512, 3, 512, 3}, {2049, 2, 2049, 1}})
    for (uint64_t asl : {N, N + 3}) {
      Shape s{N, q[0], q[1], q[2], q[3], asl};
      mat.resize(s.nr * s.nc * s.N); a.resize(std::max<uint64_t>(s.as, 1) * s.N);
      for (size_t e = 0; e < mat.size(); ++e) { int64_t v = (int64_t)(e % 97) + 1 + (int64_t)(e / s.N); mat[e] = (e & 1) ? -v : v; }
      for (size_t e = 0; e < a.size(); ++e) { int64_t v = (int64_t)(e % 977) + 1 + (int64_t)(e / s.N) * 1000; a[e] = (e % 3 == 0) ? -v : v; }
      check_case(ctx, mod, s, mat, a, shape_id(s, cfg.name, "wide"), false);
    }
}

// complete bilinear basis sweep: a = X^u e_i, M = X^v E_{ij}
static void run_basis(Ctx& ctx, uint64_t N, const CpuCfg& cfg, uint64_t maxdim) {
  MODULE* mod = get_module(N, FFT64, cfg);
  for (uint64_t nr = 1; nr <= maxdim; ++nr) for (uint64_t nc = 1; nc <= maxdim; ++nc) {
    Shape s{N, nr, nc, nr, nc, N};
    std::string id = shape_id(s, cfg.name, "basis-sweep");
    if (!ctx.want(id)) continue;
    ctx.begin_case(id);
    std::vector<int64_t> mat(nr * nc * N), a(nr * N), out;
    uint64_t runs = 0;
    for (uint64_t i = 0; i < nr; ++i) for (uint64_t u = 0; u < N; ++u) for (uint64_t i2 = 0; i2 < nr; ++i2) for (uint64_t j = 0; j < nc; ++j) for (uint64_t v = 0; v < N; ++v) {
      std::fill(mat.begin(), mat.end(), 0); std::fill(a.begin(), a.end(), 0);
      a[i * N + u] = 1; mat[(i2 * nc + j) * N + v] = 1;
      int entry = (int)((u + v + i + j) & 1);
      std::string err;
      run_vmp(mod, s, mat, a, entry, out, err);
      ++runs;
      if (!err.empty()) { ctx.violation(id, err); goto done; }
      for (uint64_t c = 0; c < nc; ++c) for (uint64_t t = 0; t < N; ++t) {
        int64_t e = 0;
        if (c == j && i == i2) { uint64_t w = u + v; if (w % N == t) e = (w < N) ? 1 : -1; }
        if (out[c * N + t] != e) { ctx.violation(id, sfmt("a = X^%llu e_%llu, M = X^%llu E_{%llu,%llu}: column %llu coefficient %llu is %lld, expected %lld",
            (unsigned long long)u, (unsigned long long)i, (unsigned long long)v, (unsigned long long)i2, (unsigned long long)j, (unsigned long long)c, (unsigned long long)t, (long long)out[c * N + t], (long long)e)); goto done; }
      }
    }
  done:
    ctx.metric_add(0, runs);
    ctx.end_case(true);
  }
}

// large N: fixed shape list, sparse matrix entries (4 monomials each) so that the exact oracle stays O(N)
static void run_large(Ctx& ctx, uint64_t N, const CpuCfg& cfg) {
  MODULE* mod = get_module(N, FFT64, cfg);
  static const uint64_t SH[][4] = {{1,1,1,1},{1,1,0,1},{1,1,1,0},{2,3,2,3},{2,3,1,3},{2,3,3,2},{2,3,2,4},{3,2,3,2},{3,2,4,1},{3,2,2,3},{4,4,4,4},{4,4,3,3},{4,4,5,5},{4,4,4,3},
                                   {5,5,5,5},{5,5,4,5},{5,5,6,4},{6,5,6,5},{5,6,5,6},{6,6,6,6},{6,6,5,5},{6,6,7,7},{3,5,3,5},{3,5,3,4},{3,5,2,5},{5,3,5,3},{5,3,6,2},{1,6,1,6},{1,6,1,5},{6,1,6,1},
                                   {6,1,5,1},{2,2,2,2},{2,2,2,1},{2,2,1,2},{2,2,3,3},{4,3,4,3},{4,3,4,2},{3,4,3,4},{3,4,2,4},{6,6,0,6}};
  for (auto& q : SH) {
    Shape s{N, q[0], q[1], q[2], q[3], N + 3};
    std::vector<int64_t> mat(s.nr * s.nc * N, 0), a(std::max<uint64_t>(s.as, 1) * N);
    for (size_t e = 0; e < a.size(); ++e) { int64_t v = (int64_t)(e % 977) + 1; a[e] = (e % 3 == 0) ? -v : v; }
    for (uint64_t cell = 0; cell < s.nr * s.nc; ++cell)
      for (int t = 0; t < 4; ++t) { uint64_t pos = (cell * 7919 + t * (N / 4) + t * 13 + cell) % N; mat[cell * N + pos] = (int64_t)(cell * 4 + t + 1) * ((t & 1) ? -1 : 1); }
    check_case(ctx, mod, s, mat, a, shape_id(s, cfg.name, "large-sparse"), true);
  }
}

int main(int argc, char** argv) {
  Args args = parse_args("C02", argc, argv, 300, 1800);
  Ctx ctx(args);
  const bool th = args.thorough();
  ctx.name_metric(0, "basis_products");
  struct It { int kind; uint64_t N; CpuCfg cfg; };
  std::vector<It> items;
  auto cf = cfgs(th);
  if (th) for (uint64_t N : {65536, 1024, 64, 32}) for (auto& c : cf) items.push_back({2, N, c});
  for (uint64_t N : {16, 8, 4, 2}) for (auto& c : cf) items.push_back({0, N, c});
  if (!th) for (uint64_t N : {64, 32}) for (auto& c : cf) items.push_back({3, N, c});
  for (uint64_t N : (th ? std::vector<uint64_t>{16, 8, 4, 2} : std::vector<uint64_t>{8, 4, 2})) for (auto& c : cf) items.push_back({1, N, c});
  for (uint64_t N : (th ? std::vector<uint64_t>{4, 8, 16, 64} : std::vector<uint64_t>{4, 16})) for (auto& c : cf) items.push_back({4, N, c});
  ctx.parallel(items.size(), [&](uint64_t i) {
    const It& it = items[i];
    if (it.kind == 0) run_box(ctx, it.N, it.cfg, th ? 6 : 4, 5);
    else if (it.kind == 3) run_box(ctx, it.N, it.cfg, 3, 4);
    else if (it.kind == 1) run_basis(ctx, it.N, it.cfg, 3);
    else if (it.kind == 4) run_wide(ctx, it.N, it.cfg);
    else run_large(ctx, it.N, it.cfg);
  });
  ctx.assumptions = {"operands small enough that the C01 error budget summed over the rows is < 1/2, so exact equality is demanded",
                     "large N (thorough) uses matrix entries with 4 monomials each so that the exact schoolbook oracle stays linear in N"};
  return ctx.finish("exploration",
                    "N in {2,4} (column-major prepared layout) and {8,16} (block layout) x nrows,ncols in 1..4 (6 thorough) x a_size,res_size in 0..5 x a_sl in {N,N+3} x cfg x both entry points with dense injective probes; "
                    "wide shapes (nrows / ncols / sizes around 16, 32, 64, 128, 256); complete bilinear basis sweep (all X^u e_i, X^v E_ij) for N<=8 (16 thorough), dims<=3; thorough adds N in {32,64,1024,65536} x 40 fixed shapes; non-trivial when at least one row and one column are used; distinct = distinct case ids",
                    true);
}
