// C12 — shared modules and precomputed tables are safe for concurrent use.
// Part 1 (Engine B): over the whole op alphabet, from the fresh process and from every warmed state,
//   I-imm: no module-level or table-level op writes the library's static storage or any library-owned
//          heap page (mprotect + SIGSEGV trap: even same-value writes are caught); *_simple ops write
//          nothing once warmed; I-warm: a first use writes only its own slot and repeating it is a
//          self-loop.  The library contains no synchronisation primitive (checked), so any write to
//          shared storage by an op that may run concurrently is a data race, and if no allowed op
//          writes shared storage every interleaving of any number of threads is equivalent to a
//          sequential run.
// Part 2 (Engine C): serialising scheduler, iterative context bounding over interposed library-internal
//   calls: pairs (quick) / triples (thorough) of module-level calls on one shared module, warmed
//   *_simple calls, table kernels on one shared table; every schedule with <= 2 (3) preemptions;
//   oracle: each call's outputs bit-identical to the call run alone, hidden state unchanged.
// Part 3: the same bodies free-running on 16 threads under ThreadSanitizer (auxiliary binary).
#include "../harness/lsm_explore.hpp"
#include "../harness/sched.hpp"
using namespace vf;

// library-internal calls that become scheduling points
VF_INTERPOSE(reim_from_znx64) VF_INTERPOSE(reim_to_znx64) VF_INTERPOSE(reim_fft) VF_INTERPOSE(reim_ifft)
VF_INTERPOSE(reim_fftvec_mul) VF_INTERPOSE(reim_fftvec_addmul)
VF_INTERPOSE(reim_fft_avx2_fma) VF_INTERPOSE(reim_ifft_avx2_fma) VF_INTERPOSE(reim_fft_ref) VF_INTERPOSE(reim_ifft_ref)
VF_INTERPOSE(reim_fftvec_mul_fma) VF_INTERPOSE(reim_fftvec_addmul_fma) VF_INTERPOSE(reim_fftvec_mul_ref) VF_INTERPOSE(reim_fftvec_addmul_ref)
VF_INTERPOSE(reim_from_znx64_bnd50_fma) VF_INTERPOSE(reim_from_znx64_ref) VF_INTERPOSE(reim_to_znx64_avx2_bnd63_fma) VF_INTERPOSE(reim_to_znx64_avx2_bnd50_fma) VF_INTERPOSE(reim_to_znx64_ref)
VF_INTERPOSE(reim4_extract_1blk_from_contiguous_reim_ref) VF_INTERPOSE(reim4_extract_1blk_from_contiguous_reim_avx)
VF_INTERPOSE(reim4_extract_1blk_from_reim_ref) VF_INTERPOSE(reim4_extract_1blk_from_reim_avx)
VF_INTERPOSE(reim4_vec_mat2cols_product_ref) VF_INTERPOSE(reim4_vec_mat2cols_product_avx2) VF_INTERPOSE(reim4_vec_mat1col_product_ref) VF_INTERPOSE(reim4_vec_mat1col_product_avx2)
VF_INTERPOSE(reim4_save_1blk_to_reim_ref) VF_INTERPOSE(reim4_save_1blk_to_reim_avx)
VF_INTERPOSE(znx_normalize) VF_INTERPOSE(znx_add_i64_ref) VF_INTERPOSE(znx_add_i64_avx) VF_INTERPOSE(znx_sub_i64_ref) VF_INTERPOSE(znx_sub_i64_avx)
VF_INTERPOSE(znx_negate_i64_ref) VF_INTERPOSE(znx_negate_i64_avx) VF_INTERPOSE(znx_copy_i64_ref) VF_INTERPOSE(znx_zero_i64_ref)
VF_INTERPOSE(znx_rotate_i64) VF_INTERPOSE(znx_rotate_inplace_i64) VF_INTERPOSE(znx_automorphism_i64) VF_INTERPOSE(znx_automorphism_inplace_i64)
VF_INTERPOSE(fft64_vec_znx_dft) VF_INTERPOSE(fft64_vmp_apply_dft_to_dft_ref) VF_INTERPOSE(fft64_vmp_apply_dft_to_dft_avx)
VF_INTERPOSE(q120_b_from_znx64_simple) VF_INTERPOSE(q120_b_to_znx128_simple) VF_INTERPOSE(q120_ntt_bb_avx2) VF_INTERPOSE(q120_intt_bb_avx2)
VF_INTERPOSE(ntt_iter_first) VF_INTERPOSE(ntt_iter) VF_INTERPOSE(ntt_iter_red) VF_INTERPOSE(intt_iter) VF_INTERPOSE(intt_iter_red) VF_INTERPOSE(ntt_iter_first_red)
VF_INTERPOSE(new_reim_fft_precomp) VF_INTERPOSE(new_reim_ifft_precomp) VF_INTERPOSE(new_cplx_fft_precomp) VF_INTERPOSE(new_cplx_ifft_precomp)
VF_INTERPOSE(new_reim_fftvec_mul_precomp) VF_INTERPOSE(new_reim_fftvec_addmul_precomp) VF_INTERPOSE(new_cplx_fftvec_mul_precomp) VF_INTERPOSE(new_cplx_fftvec_addmul_precomp)
VF_INTERPOSE(init_reim_from_znx64_precomp) VF_INTERPOSE(init_reim_to_znx64_precomp) VF_INTERPOSE(init_cplx_from_znx32_precomp) VF_INTERPOSE(init_cplx_from_tnx32_precomp) VF_INTERPOSE(init_cplx_to_tnx32_precomp)
VF_INTERPOSE(init_reim4_fftvec_mul_precomp) VF_INTERPOSE(init_reim4_fftvec_addmul_precomp) VF_INTERPOSE(init_reim4_from_cplx_precomp) VF_INTERPOSE(init_reim4_to_cplx_precomp)
VF_INTERPOSE(log2m) VF_INTERPOSE(cplx_fft_ref) VF_INTERPOSE(cplx_ifft_ref) VF_INTERPOSE(cplx_fft_avx2_fma) VF_INTERPOSE(cplx_ifft_avx2_fma)

static std::string sh(const std::string& cmd) {
  std::string out; FILE* f = popen(cmd.c_str(), "r"); if (!f) return out;
  char buf[4096]; size_t n; while ((n = fread(buf, 1, sizeof buf, f)) > 0) out.append(buf, n); pclose(f); return out;
}

struct Scenario { std::string name; std::vector<int> ops; };

// ---- S5: an object is replaced between two calls of a long-lived thread ----------------------------------------------
// A worker thread uses module A; the main thread (properly synchronised: nobody uses A any more) deletes A and creates B, a module of
// another dimension, which the allocator places at A's address (environment answer of the wrapped allocator); the worker then uses
// B.  What the worker computes on B must be what a thread that never saw A computes: a per-thread cache keyed on the address of a
// module, and invalidated only in the thread that deletes it, fails here although no two threads ever run concurrently.
#include <pthread.h>
#include <semaphore.h>
static uint64_t s5_tour(MODULE* m, uint64_t N, bool ntt) {
  GBuf a(3 * N * 8, 8), b(3 * N * 8, 16), r(3 * N * 8, 24), tmp(vec_znx_normalize_base2k_tmp_bytes(m) + 64, 0);
  for (uint64_t i = 0; i < 3 * N; ++i) { a.as<int64_t>()[i] = probe62(i + 3) >> 8; b.as<int64_t>()[i] = probe62(i + 1003) >> 8; }
  uint64_t h = 0xcbf29ce484222325ull;
  vec_znx_rotate(m, 3, r.as<int64_t>(), 3, N, a.as<int64_t>(), 3, N); h = ct_hash(r, h);
  vec_znx_automorphism(m, 5, r.as<int64_t>(), 3, N, a.as<int64_t>(), 2, N); h = ct_hash(r, h);
  vec_znx_automorphism(m, 5, r.as<int64_t>(), 3, N, r.as<int64_t>(), 3, N); h = ct_hash(r, h);
  vec_znx_rotate(m, 3, r.as<int64_t>(), 3, N, r.as<int64_t>(), 3, N); h = ct_hash(r, h);
  vec_znx_add(m, r.as<int64_t>(), 3, N, a.as<int64_t>(), 3, N, b.as<int64_t>(), 2, N); h = ct_hash(r, h);
  vec_znx_normalize_base2k(m, 13, r.as<int64_t>(), 2, N, a.as<int64_t>(), 3, N, tmp.p); h = ct_hash(r, h);
  GBuf d((ntt ? 32 : 8) * N * 2, 16), big((ntt ? 16 : 8) * N * 2, 24), t2(vec_znx_idft_tmp_bytes(m) + 64, 0);
  for (uint64_t i = 0; i < 2 * N; ++i) a.as<int64_t>()[i] = small_val(i + 3, 1 << 20);
  vec_znx_dft(m, (VEC_ZNX_DFT*)d.p, 2, a.as<int64_t>(), 2, N);
  vec_znx_idft(m, (VEC_ZNX_BIG*)big.p, 2, (VEC_ZNX_DFT*)d.p, 2, t2.p); h = ct_hash(big, h);
  if (!ntt) {
    VEC_ZNX_BIG* x = (VEC_ZNX_BIG*)big.p; GBuf y(8 * N * 2, 8);
    vec_znx_big_automorphism(m, 5, (VEC_ZNX_BIG*)y.p, 2, x, 2); h = ct_hash(y, h);
    vec_znx_big_rotate(m, 3, (VEC_ZNX_BIG*)y.p, 2, x, 2); h = ct_hash(y, h);
    GBuf t3(znx_small_single_product_tmp_bytes(m) + 64, 0), pr(N * 8, 8);
    for (uint64_t i = 0; i < N; ++i) { a.as<int64_t>()[i] = small_val(i + 3, 1 << 8); b.as<int64_t>()[i] = small_val(i + 31, 1 << 8); }
    znx_small_single_product(m, pr.as<int64_t>(), a.as<int64_t>(), b.as<int64_t>(), t3.p); h = ct_hash(pr, h);
  }
  return h;
}
struct S5 { sem_t go, done; MODULE* m; uint64_t N; bool ntt; uint64_t out; bool quit; };
static void* s5_worker(void* v) { S5* s = (S5*)v; for (;;) { sem_wait(&s->go); if (s->quit) return 0; s->out = s5_tour(s->m, s->N, s->ntt); sem_post(&s->done); } }
// returns "" / a violation text; *reused says whether the allocator really placed B at A's address
static std::string s5_run(uint64_t N1, uint64_t N2, bool ntt, bool* reused) {
  AllocTrack& at = alloc_track();
  at.on = 1; at.recycle = 1; at.poison_free = 0xDD;
  S5 s; sem_init(&s.go, 0, 0); sem_init(&s.done, 0, 0); s.quit = false; s.ntt = ntt;
  pthread_t w; pthread_create(&w, 0, s5_worker, &s);
  MODULE* A = new_module_info(N1, ntt ? NTT120 : FFT64);
  s.m = A; s.N = N1; sem_post(&s.go); sem_wait(&s.done);            // the worker uses A
  delete_module_info(A);                                               // nobody uses A any more
  MODULE* B = new_module_info(N2, ntt ? NTT120 : FFT64);
  *reused = (void*)B == (void*)A;
  s.m = B; s.N = N2; sem_post(&s.go); sem_wait(&s.done);            // the worker uses B
  const uint64_t hw = s.out;
  S5 f; sem_init(&f.go, 0, 0); sem_init(&f.done, 0, 0); f.quit = false; f.ntt = ntt; f.m = B; f.N = N2;
  pthread_t fw; pthread_create(&fw, 0, s5_worker, &f); sem_post(&f.go); sem_wait(&f.done);   // a thread that never saw A
  const uint64_t hf = f.out;
  const uint64_t hm = s5_tour(B, N2, ntt);
  s.quit = f.quit = true; sem_post(&s.go); sem_post(&f.go); pthread_join(w, 0); pthread_join(fw, 0);
  delete_module_info(B);
  at.recycle = 0; at.poison_free = -1;
  if (hf != hm) return "a fresh thread and the main thread disagree on the new module";
  if (hw != hf) return "the thread that had used the deleted module computes other results on the new module than a thread that never saw the deleted one";
  return "";
}

int main(int argc, char** argv) {
  Args args = parse_args("C12", argc, argv, 480, 2400);
  lsm_locate();
  lsm_arena_init(1ull << 30);
  lsm_install_trap();
  alloc_track().on = 1;
  const unsigned csr_at_start = __builtin_ia32_stmxcsr() & 0xFFC0u;
  Lsm L;
  add_simple_ops(L.ops);
  const size_t nsimple = L.ops.size();
  add_module_ops(L.ops, {4, 16, 256, 8192});  // 256: a dimension between the small and the large layer (a threshold-keyed scratch would sit there)
  const size_t nmod_end = L.ops.size();
  add_table_ops(L.ops);
  const size_t ntab_end = L.ops.size();
  add_ctor_ops(L.ops);
  const size_t nctor_end = L.ops.size();
  add_kernel_ops(L.ops);
  const size_t nmain = L.ops.size();
  add_module_ops(L.ops, {4, 16, 256, 8192}, 1);  // the same entry points on different data (second thread of same-call pairs)
  std::map<int, int> twin;
  for (size_t k = nsimple; k < nmod_end; ++k) for (size_t j = nmain; j < L.ops.size(); ++j) if (L.ops[j].name == L.ops[k].name + "#data1") twin[(int)k] = (int)j;
  lsm_seal_root();
  Ctx ctx(args);
  const bool th = args.thorough();
  L.init_shared();
  {  // building the modules and tables of the alphabet must not have changed the floating-point control register of this thread
    const unsigned csr_now = __builtin_ia32_stmxcsr() & 0xFFC0u;
    std::string id = "setup|creating the modules and tables of the op alphabet";
    if (ctx.want(id)) { ctx.begin_case(id);
      if (csr_now != csr_at_start) ctx.violation(id, sfmt("constructors changed the MXCSR control bits of the calling thread (0x%x -> 0x%x): the same call then returns different bits in a thread that created the objects and in one that did not", csr_at_start, csr_now));
      ctx.end_case(true); }
  }
  L.report = [&](LsmKind k, const std::string& id, const std::string& msg) {
    if (ctx.args.replaying() && ctx.args.replay_id != id) return;
    if (k == LSM_IMM || k == LSM_WARM || k == LSM_CRASH) ctx.violation(id, msg);   // I-hist findings belong to C15
  };
  L.on_transition = [&](const std::string& id) { if (ctx.args.replay_id.empty() || ctx.args.replay_id == id) { ctx.begin_case(id); ctx.end_case(true); } };
  ctx.name_metric(0, "schedules_executed"); ctx.name_metric(1, "scheduling_points_max"); ctx.name_metric(2, "scenarios"); ctx.name_metric(3, "scenarios_capped");

  // ---- part 0: the library contains no synchronisation primitive --------------------------------------
  std::string so = std::string(getenv("VERIF_LIBDIR") ? getenv("VERIF_LIBDIR") : ".") + "/libspq.so";
  long nlock = atol(sh("objdump -d --no-show-raw-insn '" + so + "' 2>/dev/null | grep -cE '\\block |xchg[a-z]* .*\\(|cmpxchg|mfence'").c_str());
  long nimp = atol(sh("nm -D --undefined-only '" + so + "' 2>/dev/null | grep -cE 'pthread_|__atomic_|__sync_|mtx_|call_once'").c_str());
  bool reduction_exact = (nlock == 0 && nimp == 0);

  // ---- part 1: Engine B ------------------------------------------------------------------------------------
  L.initial_hash = lsm_canon_hash();
  L.compute_baselines();
  uint64_t states = 1, transitions = 0;
  std::vector<std::string> fams;
  for (size_t k = 0; k < nsimple; ++k) if (std::find(fams.begin(), fams.end(), L.ops[k].family) == fams.end()) fams.push_back(L.ops[k].family);
  for (auto& f : fams) {
    std::vector<int> alpha;
    for (size_t k = 0; k < nsimple; ++k) if (L.ops[k].family == f) alpha.push_back((int)k);
    L.set.clear(); L.set.insert(L.initial_hash);
    std::vector<int> path;
    L.explore(path, L.initial_hash, alpha, 64, "family " + f);
    states += L.set.counters[0] - 1; transitions += L.set.counters[1];
  }
  // all sequences of length <= 2 over the whole alphabet; the thorough tier adds all sequences of length <= 3 over the
  // state-changing part of the alphabet (the *_simple functions: module / table / kernel / constructor ops are self-loops)
  const int depth = 2;
  std::vector<int> all;
  for (size_t k = 0; k < nmain; ++k) all.push_back((int)k);
  L.set.clear(); L.set.insert(L.initial_hash);
  ctx.parallel(all.size(), [&](uint64_t i) { std::vector<int> path; L.explore(path, L.initial_hash, all, depth, "cross-family", (int)i); }, "Engine B");
  states += L.set.counters[0] - 1; transitions += L.set.counters[1];
  if (th) {
    std::vector<int> simple;
    for (size_t k = 0; k < nsimple; ++k) simple.push_back((int)k);
    L.set.clear(); L.set.insert(L.initial_hash);
    ctx.parallel(simple.size(), [&](uint64_t i) { std::vector<int> path; L.explore(path, L.initial_hash, simple, 3, "simple depth 3", (int)i); }, "Engine B, *_simple sequences of length 3");
    states += L.set.counters[0] - 1; transitions += L.set.counters[1];
  }

  lsm_protect_sources() = false;  // from here on ops run in several threads of one process
  // ---- part 2: Engine C ------------------------------------------------------------------------------------
  std::vector<Scenario> scen;
  {
    // S1: pairs of module-level calls on shared modules (unordered pairs incl. the same call twice)
    std::vector<int> heavy, light;
    for (size_t k = nsimple; k < nmod_end; ++k) {
      const std::string& n = L.ops[k].name;
      if (n.find("@src0") == std::string::npos && !(n.find("@+8") != std::string::npos && n.find("vec_znx_zero") != std::string::npos)) continue;  // the scheduler works on one alignment pattern (sources aligned, the rest not); all four are Engine B's
      if (n.find("|N=16|") == std::string::npos && !(th && n.find("|N=4|") != std::string::npos)) continue;  // the large dimensions (N = 256, 8192) are Engine B's job  // quick: N=16 (and NTT120 N=16); thorough adds N=4 (column-major vmp layout)
      bool h = n.find("vmp") != std::string::npos || n.find("dft") != std::string::npos || n.find("svp") != std::string::npos || n.find("small") != std::string::npos || n.find("normalize") != std::string::npos;
      (h ? heavy : light).push_back((int)k);
    }
    for (size_t a = 0; a < heavy.size(); ++a) for (size_t b = a; b < heavy.size(); ++b) scen.push_back({"S1 module pair", {heavy[a], (a == b && twin.count(heavy[b])) ? twin[heavy[b]] : heavy[b]}});
    for (size_t a = 0; a < heavy.size(); ++a) for (size_t b = 0; b < light.size(); ++b) if (b % (th ? 3 : 6) == a % (th ? 3 : 6)) scen.push_back({"S1 module pair", {heavy[a], light[b]}});
    for (size_t a = 0; a < light.size(); ++a) for (size_t b = a; b < light.size(); ++b) if (a == b || (th && (a + b) % 5 == 0)) scen.push_back({"S1 module pair", {light[a], (a == b && twin.count(light[b])) ? twin[light[b]] : light[b]}});
    if (th) for (size_t a = 0; a + 2 < heavy.size(); a += 2) scen.push_back({"S1 module triple", {heavy[a], heavy[a + 1], heavy[a + 2]}});
    // the large dimensions (m=4096, N=8192) are Engine B's job; the scheduler works on the small ones
    auto small_dim = [&](size_t k) { return L.ops[k].name.find("4096") == std::string::npos && L.ops[k].name.find("8192") == std::string::npos; };
    // S2: warmed *_simple calls, equal and different dimensions / parameters
    for (size_t a = 0; a < nsimple; ++a) for (size_t b = a; b < nsimple; ++b) if (L.ops[a].family == L.ops[b].family && small_dim(a) && small_dim(b)) scen.push_back({"S2 warmed simple pair", {(int)a, (int)b}});
    // S3: table-based kernels on one shared table
    for (size_t a = nmod_end; a < ntab_end; ++a) { if (!small_dim(a) || (a + 1 < nmain && !small_dim(a + 1))) continue; scen.push_back({"S3 table pair", {(int)a, (int)a}}); if (a + 1 < L.ops.size()) scen.push_back({"S3 table pair", {(int)a, (int)a + 1}}); }
  }
  // S4: two threads creating, using and deleting their own objects at the same time
  for (size_t a = ntab_end; a < nctor_end; ++a) for (size_t b = a; b < nctor_end; ++b) if (L.ops[a].name.find("2048") == std::string::npos && L.ops[b].name.find("2048") == std::string::npos && L.ops[a].name.find("4096") == std::string::npos && L.ops[b].name.find("4096") == std::string::npos) scen.push_back({"S4 constructor pair", {(int)a, (int)b}});
  // S5: the same exported kernel in two threads (small and medium size layers; the large ones are Engine B's job)
  for (size_t a = nctor_end; a < nmain; ++a) if (L.ops[a].name.find("layer=4096") == std::string::npos && L.ops[a].name.find("layer=8192") == std::string::npos
      && L.ops[a].name.find("|generic|") == std::string::npos && L.ops[a].name.find("|native|") == std::string::npos)  // cases that switch the harness-global CPU mask are not thread-safe in the harness itself (the transforms are in S3)
      scen.push_back({"S5 kernel pair", {(int)a, (int)a}});
  const int bound = th ? 3 : 2;
  ctx.parallel(scen.size(), [&](uint64_t si) {
    alloc_track().recycle = 1;  // freed blocks are handed out again (bounded memory over thousands of schedules; address reuse is an environment answer)
    const Scenario& sc = scen[si];
    std::string id = "sched|" + sc.name;
    for (int k : sc.ops) id += " | " + L.ops[k].name;
    if (!ctx.want(id)) return;
    ctx.begin_case(id);
    // warm-up (documented protocol) and solo baselines in this process
    // warm-up in this (main) thread, then "run alone" = the same call as the only thread under the scheduler, i.e. in a
    // fresh thread exactly like in the concurrent executions (thread-local caches start empty in both)
    std::vector<uint64_t> solo(sc.ops.size());
    for (size_t t = 0; t < sc.ops.size(); ++t) L.ops[sc.ops[t]].run();
    for (size_t t = 0; t < sc.ops.size(); ++t) {
      uint64_t v1 = 0, v2 = 0;
      sched_run({[&] { v1 = L.ops[sc.ops[t]].run(); }}, {});
      sched_run({[&] { v2 = L.ops[sc.ops[t]].run(); }}, {});
      solo[t] = v1;
      if (v1 != v2) { ctx.violation(id, "the call is not deterministic when run alone twice"); ctx.end_case(true); return; }
    }
    const uint64_t h0 = lsm_canon_hash();
    std::vector<uint64_t> got(sc.ops.size());
    std::vector<std::function<void()>> bodies;
    for (size_t t = 0; t < sc.ops.size(); ++t) bodies.push_back([&, t] { got[t] = L.ops[sc.ops[t]].run(); });
    SchedExplore E;
    bool failed = false;
    E.run(bodies, bound, [&](const std::vector<int>& choices) {
      for (size_t t = 0; t < sc.ops.size(); ++t) if (got[t] != solo[t]) {
        std::string s; for (int c : choices) s += std::to_string(c);
        ctx.violation(id, sfmt("thread %zu (%s) returned different outputs than when run alone under schedule [%s] (%d preemptions)", t, L.ops[sc.ops[t]].name.c_str(), s.c_str(), sched().preemptions));
        failed = true; return false;
      }
      if (lsm_canon_hash() != h0) { ctx.violation(id, "the library's hidden state differs from the state after a sequential run"); failed = true; return false; }
      return true;
    }, th ? 200000 : 20000, [&] { return ctx.args.past_deadline(); });
    ctx.metric_add(0, E.executions); ctx.metric_max(1, (double)E.max_points); ctx.metric_add(2); if (E.capped) ctx.metric_add(3);
    // replay determinism of one recorded schedule
    if (!failed && E.executions > 1) {
      Sched& S = sched();
      std::vector<int> pfx; for (auto& p : S.points) pfx.push_back(p.choice);
      S.log_calls = true; sched_run(bodies, pfx); std::vector<std::string> l1 = S.call_log; sched_run(bodies, pfx); std::vector<std::string> l2 = S.call_log; S.log_calls = false;
      if (l1 != l2) machinery_error("scheduler: replaying one schedule twice gave different call sequences");
    }
    ctx.end_case(true);
  }, "Engine C");

  // S5: module replaced (same address, other dimension) between two calls of a long-lived thread
  uint64_t s5_reused = 0, s5_total = 0;
  {
    struct P { uint64_t n1, n2; bool ntt; };
    std::vector<P> ps;
    for (int t = 0; t < 2; ++t) for (auto& q : std::vector<std::pair<uint64_t, uint64_t>>{{8, 16}, {16, 8}, {32, 16}, {64, 8}, {16, 16}}) ps.push_back({q.first, q.second, t == 1});
    uint64_t* shm = (uint64_t*)mmap(0, 4096, PROT_READ | PROT_WRITE, MAP_SHARED | MAP_ANONYMOUS, -1, 0);
    ctx.parallel(ps.size(), [&](uint64_t i) {
      std::string id = sfmt("hand-over|%s|module of N=%llu deleted, module of N=%llu created at its address, used by the thread that had used the first", ps[i].ntt ? "ntt120" : "fft64", (unsigned long long)ps[i].n1, (unsigned long long)ps[i].n2);
      if (!ctx.want(id)) return;
      ctx.begin_case(id);
      bool reused = false;
      std::string err = s5_run(ps[i].n1, ps[i].n2, ps[i].ntt, &reused);
      __sync_fetch_and_add(&shm[0], 1); if (reused) __sync_fetch_and_add(&shm[1], 1);
      if (!err.empty()) ctx.violation(id, err);
      ctx.end_case(true);
    }, "object replaced under a long-lived thread");
    s5_total = shm[0]; s5_reused = shm[1];
  }

  // S0: detector self-test - concurrent FIRST use of a *_simple function must show the double initialisation
  bool selftest_found = false;
  int selftest_at = -1;
  {
    int k0 = -1; for (size_t k = 0; k < nsimple; ++k) if (L.ops[k].name == "reim_fft_simple(m=16)") k0 = (int)k;
    // every execution starts from the fresh process (fork): switch to thread 1 at point i of thread 0
    for (int i = 1; i < 24 && !selftest_found && k0 >= 0; ++i) {
      fflush(stdout);
      pid_t p = fork();
      if (p == 0) {
        std::vector<std::function<void()>> bodies = {[&] { L.ops[k0].run(); }, [&] { L.ops[k0].run(); }};
        std::vector<int> prefix(i, 0); prefix.push_back(1);
        sched().log_calls = true;
        sched_run(bodies, prefix);
        int inits = 0; for (auto& c : sched().call_log) if (c.find("new_reim_fft_precomp") != std::string::npos) inits++;
        _exit(inits > 1 ? 42 : 0);
      }
      int st; waitpid(p, &st, 0);
      if (WIFEXITED(st) && WEXITSTATUS(st) == 42) { selftest_found = true; selftest_at = i; }
    }
  }

  // ---- part 3: ThreadSanitizer, free running -----------------------------------------------------------------
  std::string tsan_note = "not run";
  if (const char* aux = getenv("VERIF_AUX_0")) {
    std::string id = "tsan|free-running pass, 16 threads, fresh and warmed";
    if (ctx.want(id)) {
      ctx.begin_case(id);
      std::string out = sh(std::string("TSAN_OPTIONS='halt_on_error=0 report_signal_unsafe=0 exitcode=0' '") + aux + "' 2>&1 | grep -E 'WARNING: ThreadSanitizer|#0|#1|#2|Location|TSAN-BODIES' | head -40");
      size_t races = 0, pos = 0; while ((pos = out.find("WARNING: ThreadSanitizer: data race", pos)) != std::string::npos) { ++races; ++pos; }
      if (out.find("TSAN-BODIES") == std::string::npos) tsan_note = "auxiliary binary did not run to completion";
      else tsan_note = sfmt("%zu data race reports", races);
      if (races) ctx.violation(id, "ThreadSanitizer reports a data race on shared storage while threads use one module / table concurrently:\n" + out.substr(0, 900));
      ctx.end_case(true);
    }
  }

  uint64_t sched_exec = 0; for (int k = 0; k <= ctx.nw; ++k) sched_exec += ctx.w[k].cnt[0];
  Json ex = Json::obj();
  ex.set("states", states).set("transitions", transitions).set("traces_validated_against_impl", transitions + sched_exec);
  ex.set("schedules", sched_exec).set("preemption_bound", bound).set("scenarios", (long long)scen.size());
  ex.set("reduction_exact", reduction_exact).set("library_sync_instructions", nlock).set("library_sync_imports", nimp);
  ex.set("detector_selftest_concurrent_first_use", selftest_found ? sfmt("double initialisation found with 1 preemption at scheduling point %d (documented precondition, not a violation)", selftest_at) : "NOT FOUND - the scheduler does not reach the check-then-act window");
  ex.set("tsan", tsan_note);
  ex.set("hand_over_scenarios", sfmt("%llu (the allocator placed the new module at the address of the deleted one in %llu of them)", (unsigned long long)s5_total, (unsigned long long)s5_reused));
  if (!selftest_found) machinery_error("Engine C self-test failed: concurrent first use of reim_fft_simple did not show the double initialisation");
  ctx.assumptions = {"the *_simple functions are used according to their documented warm-up protocol (one completed call per dimension before concurrent use); concurrent FIRST use is a documented precondition and only serves as a self-test of the detector",
                     "reduction argument: the library has no lock/atomic (checked on the built object), so an op that writes no shared storage commutes with every step of other threads; I-imm therefore decides all interleavings of any number of threads",
                     "the serialising scheduler sees interleavings at interposed call boundaries only; unsynchronised accesses inside a segment are the ThreadSanitizer pass's job"};
  return ctx.finish("model_checking",
                    "Engine B: every (state, op) with write traps on static storage and library-owned heap (per-family fixed point, cross-family depth bound); Engine C: every schedule with <= bound preemptions of 2 (3) threads over interposed library-internal calls "
                    "for module pairs, warmed *_simple pairs and shared-table pairs; ThreadSanitizer free-running pass; distinct = distinct case ids",
                    true, ex);
}
