// C05 — base-2^k normalisation yields the unique balanced digit expansion.
// Engine A.  Normalisation acts independently on each coefficient, so N only packs many enumerated
// limb tuples into one call.  Part A: every k in 1..62 x limb-tuple alphabets (complete for
// a_size <= 3, carry-chain tuples for a_size 4, complete small scopes for small k) x res_size;
// Part B: shapes (sizes incl. 0, strides, big / sub-range forms, in place); Part C: the single-limb
// primitive in its six argument shapes.  Oracle: digits from the definition, itself cross-checked
// against T mod 2^(k a_size) in 320-bit arithmetic.
#include "../harness/apiops.hpp"
extern "C" {
#include "coeffs/coeffs_arithmetic.h"
}
using namespace vf;

static std::vector<int64_t> alphabet(unsigned k) {
  std::set<int64_t> s;
  const i128 lim = (i128)1 << 62;
  auto add = [&](i128 v) { if (v <= lim && v >= -lim) { s.insert((int64_t)v); s.insert((int64_t)-v); } };
  i128 h = (i128)1 << (k - 1), f = (i128)1 << k;
  add(0); add(1); add(h - 1); add(h); add(h + 1); add(f - 1); add(f); add(f + 1);
  add((i128)1 << 61); add(lim - 1); add(lim);
  return std::vector<int64_t>(s.begin(), s.end());
}
static std::vector<int64_t> boundary(unsigned k) {
  std::set<int64_t> s;
  const i128 lim = (i128)1 << 62;
  i128 h = (i128)1 << (k - 1);
  for (i128 v : {h - 1, h, -h, -h - 1}) if (v <= lim && v >= -lim) s.insert((int64_t)v);
  s.insert((int64_t)lim); s.insert((int64_t)-lim);
  return std::vector<int64_t>(s.begin(), s.end());
}

// definition-level self check of the oracle: digits in range and sum == T (mod 2^(k n))
static bool oracle_by_definition(unsigned k, const std::vector<i128>& a, const std::vector<i128>& d) {
  typedef BigInt<5> B;
  size_t n = a.size();
  B ta, td;
  for (size_t i = 0; i < n; ++i) {
    if (d[i] < -((i128)1 << (k - 1)) || d[i] >= ((i128)1 << (k - 1))) return false;
    ta += B::from_i128(a[i]).shl(k * (n - 1 - i));
    td += B::from_i128(d[i]).shl(k * (n - 1 - i));
  }
  return ta.low_bits(k * n) == td.low_bits(k * n);
}

// runs vec_znx_normalize_base2k on a batch of tuples (one tuple per coefficient)
struct Batch {
  uint64_t N; MODULE* mod;
  std::vector<int64_t> a, res, tmp;
};

static void run_tuples(Ctx& ctx, const std::string& idbase, unsigned k, unsigned as, const std::vector<std::vector<int64_t>>& tuples, uint64_t N, MODULE* mod) {
  // tuples.size() <= N; the rest of the coefficients repeat tuple 0
  for (unsigned rs = 0; rs <= 4; ++rs) {
    std::string id = sfmt("%s|rs=%u", idbase.c_str(), rs);
    if (!ctx.want(id)) continue;
    ctx.begin_case(id);
    GBuf a(as * N * 8, 0), r(rs * N * 8, 8), t(vec_znx_normalize_base2k_tmp_bytes(mod), 16);
    for (unsigned i = 0; i < as; ++i) for (uint64_t j = 0; j < N; ++j) a.as<int64_t>()[i * N + j] = tuples[j < tuples.size() ? j : 0][i];
    prefill(r.p, r.bytes, 1); prefill(t.p, t.bytes, 2);
    vec_znx_normalize_base2k(mod, k, r.as<int64_t>(), rs, N, a.as<int64_t>(), as, N, t.p);
    std::vector<i128> limbs(as), dig;
    for (uint64_t j = 0; j < tuples.size() && j < N; ++j) {
      for (unsigned i = 0; i < as; ++i) limbs[i] = tuples[j][i];
      balanced_digits(k, limbs, dig);
      if (rs == 0 && !oracle_by_definition(k, limbs, dig)) machinery_error("digit oracle disagrees with the definition (k=%u)", k);
      for (unsigned i = 0; i < rs; ++i) {
        int64_t e = i < as ? (int64_t)dig[i] : 0;
        int64_t g = r.as<int64_t>()[i * N + j];
        if (g != e) {
          std::string tup; for (unsigned q = 0; q < as; ++q) tup += sfmt("%lld ", (long long)tuples[j][q]);
          ctx.violation(id, sfmt("limbs (%s) k=%u: output limb %u is %lld, the balanced digit is %lld", tup.c_str(), k, i, (long long)g, (long long)e));
          j = N; break;
        }
      }
    }
    if (!a.guards_ok() || !r.guards_ok() || !t.guards_ok()) ctx.violation(id, "write outside a declared extent");
    ctx.metric_add(0, tuples.size());
    ctx.end_case(rs > 0 && as > 0);
  }
}

static void part_a(Ctx& ctx, unsigned k, bool thorough) {
  const uint64_t N = 4096;
  MODULE* mod = get_module(N, FFT64, CFG_NATIVE);
  std::vector<int64_t> A = alphabet(k), Bd = boundary(k);
  for (unsigned as = 1; as <= 4; ++as) {
    const std::vector<int64_t>& S = as <= 3 ? A : Bd;
    // all tuples over S
    std::vector<std::vector<int64_t>> tuples;
    std::vector<size_t> idx(as, 0);
    uint64_t batch = 0;
    for (;;) {
      std::vector<int64_t> t(as);
      for (unsigned i = 0; i < as; ++i) t[i] = S[idx[i]];
      tuples.push_back(t);
      int p = as - 1;
      while (p >= 0 && ++idx[p] == S.size()) idx[p--] = 0;
      if (tuples.size() == N || p < 0) {
        run_tuples(ctx, sfmt("tuples|k=%u|as=%u|set=%s|batch=%llu", k, as, as <= 3 ? "alphabet" : "boundary", (unsigned long long)batch++), k, as, tuples, N, mod);
        tuples.clear();
      }
      if (p < 0) break;
    }
  }
  // complete small scopes: every limb in [-2^(k+1), 2^(k+1)]
  unsigned kmax = thorough ? 5 : 3;
  if (k <= kmax) {
    int64_t R = INT64_C(1) << (k + 1);
    unsigned asmax = thorough ? (k <= 4 ? 4 : 3) : 3;
    for (unsigned as = 1; as <= asmax; ++as) {
      std::vector<std::vector<int64_t>> tuples;
      std::vector<int64_t> cur(as, -R);
      uint64_t batch = 0;
      for (;;) {
        tuples.push_back(cur);
        int p = as - 1;
        while (p >= 0 && ++cur[p] > R) cur[p--] = -R;
        if (tuples.size() == N || p < 0) {
          run_tuples(ctx, sfmt("complete|k=%u|as=%u|range=%lld|batch=%llu", k, as, (long long)R, (unsigned long long)batch++), k, as, tuples, N, mod);
          tuples.clear();
        }
        if (p < 0) break;
      }
    }
  }
}

static void part_b(Ctx& ctx, uint64_t N, const CpuCfg& cfg, bool thorough) {
  MODULE* mod = get_module(N, FFT64, cfg);
  ExecResult r;
  std::vector<uint64_t> ks = {1, 2, 13, 31, 52, 61, 62};
  const bool sparse = N >= 4096;  // large-N layer: a thinner shape box (every variant, aliasing and data set still occurs)
  if (sparse) ks = {1, 19, 62};
  std::vector<uint64_t> RS = {0, 1, 2, 3, 4}, AS = {0, 1, 2, 3, 4}, SL = {N, N + 1, 2 * N + 3};
  if (sparse) { RS = {1, 3}; AS = {0, 2, 4}; SL = {N, N + 1}; }
  auto run = [&](const NormShape& s) {
    ApiCase c = gen_normalize(mod, s, cfg.name);
    if (!ctx.want(c.id)) return;
    ctx.begin_case(c.id);
    ExecOpts o; o.prefill = (int)((s.rs + s.as + s.k) % 3);
    execute(c, o, r);
    std::string err = judge_model(c, r);
    if (!err.empty()) ctx.violation(c.id, err);
    ctx.end_case(c.nontrivial);
  };
  for (uint64_t k : ks)
    for (uint64_t rs : RS)
      for (int ds = 0; ds < 3; ++ds) {  // 62-bit probes, digit-boundary values, structured limbs (all zero / multiples of 2^32 / probes)
        for (uint64_t as : AS) {
          for (uint64_t rsl : SL) for (uint64_t asl : SL) {
            NormShape s; s.N = N; s.k = k; s.rs = rs; s.as = as; s.rsl = rsl; s.asl = asl; s.variant = 0; s.dataset = ds;
            run(s);
            if (rsl == asl || rs <= 1) { s.alias = 1; run(s); }   // same pointer; with a one-limb (or empty) result its stride addresses nothing, so any stride is the same in-place call
          }
          for (uint64_t rsl : SL) {
            NormShape s; s.N = N; s.k = k; s.rs = rs; s.as = as; s.rsl = rsl; s.variant = 1; s.dataset = ds;
            run(s);
            if (rsl == N || rs <= 1) { s.alias = 1; run(s); }
          }
        }
        // all (begin,end,step) with begin<=end<=5, step 1..3, plus longer ranges and strides
        std::vector<std::vector<uint64_t>> RG;
        for (uint64_t end = 0; end <= 5; ++end) for (uint64_t begin = 0; begin <= end; ++begin) for (uint64_t step = 1; step <= 3; ++step) RG.push_back({begin, end, step});
        for (uint64_t end : {8, 13, 40}) for (uint64_t begin : {0, 1, 5}) for (uint64_t step : {1, 2, 3, 7}) RG.push_back({begin, end, step});
        if (sparse) RG = {{0, 3, 1}, {1, 5, 2}, {0, 8, 3}, {0, 2, 1}};
        for (auto& rg : RG) for (uint64_t rsl : {N, N + 1}) {
            const uint64_t begin = rg[0], end = rg[1], step = rg[2];
            NormShape s; s.N = N; s.k = k; s.rs = rs; s.rsl = rsl; s.variant = 2; s.begin = begin; s.end = end; s.step = step; s.dataset = ds;
            run(s);
            if ((rsl == N && begin == 0 && step == 1) || (rs <= 1 && begin == 0)) { s.alias = 1; run(s); }   // one-limb result over limb 0 of its own source, any step
          }
      }
}

// Part C: the single-limb primitive, six argument shapes, in + cin == out + cout 2^k
static void part_c(Ctx& ctx, unsigned k) {
  std::vector<int64_t> A = alphabet(k);
  std::set<int64_t> cs;
  for (i128 v : {(i128)0, (i128)1, (i128)2, ((i128)1 << (k - 1)), ((i128)1 << (k - 1)) - 1, ((i128)1 << k), ((i128)1 << (63 - k)), ((i128)1 << (63 - k)) - 1, ((i128)1 << (62 - k)) + 1}) {
    if (v <= ((i128)1 << (63 - k))) { cs.insert((int64_t)v); cs.insert((int64_t)-v); }
  }
  std::vector<int64_t> C(cs.begin(), cs.end());
  const uint64_t nn = 64;
  for (int shape = 0; shape < 6; ++shape) {
    bool has_out = shape < 4, has_cin = shape & 1, has_cout = shape >= 4 || (shape & 2);
    for (int inplace = 0; inplace < (has_out ? 2 : 1); ++inplace) {
      std::string id = sfmt("znx_normalize|k=%u|out=%d,cin=%d,cout=%d|inplace=%d", k, has_out, has_cin, has_cout, inplace);
      if (!ctx.want(id)) continue;
      ctx.begin_case(id);
      // all pairs (in, cin) packed nn per call
      std::vector<std::pair<int64_t, int64_t>> pairs;
      for (int64_t x : A) { if (has_cin) for (int64_t c : C) pairs.push_back({x, c}); else pairs.push_back({x, 0}); }
      for (size_t base = 0; base < pairs.size(); base += nn) {
        GBuf in(nn * 8, 8), cin(nn * 8, 16), out(nn * 8, 24), cout(nn * 8, 0);
        for (uint64_t j = 0; j < nn; ++j) { auto& pr = pairs[std::min(base + j, pairs.size() - 1)]; in.as<int64_t>()[j] = pr.first; cin.as<int64_t>()[j] = pr.second; }
        prefill(out.p, nn * 8, 1); prefill(cout.p, nn * 8, 1);
        std::vector<int64_t> in0(in.as<int64_t>(), in.as<int64_t>() + nn);
        int64_t* outp = has_out ? (inplace ? in.as<int64_t>() : out.as<int64_t>()) : 0;
        znx_normalize(nn, k, outp, has_cout ? cout.as<int64_t>() : 0, in.as<int64_t>(), has_cin ? cin.as<int64_t>() : 0);
        for (uint64_t j = 0; j < nn; ++j) {
          i128 t = (i128)in0[j] + (has_cin ? cin.as<int64_t>()[j] : 0);
          i128 d = centred_mod_pow2(t, k), co = (t - d) >> k;
          if (has_out && outp[j] != (int64_t)d) { ctx.violation(id, sfmt("in=%lld cin=%lld: out=%lld, expected digit %lld", (long long)in0[j], (long long)cin.as<int64_t>()[j], (long long)outp[j], (long long)d)); break; }
          if (has_cout && cout.as<int64_t>()[j] != (int64_t)co) { ctx.violation(id, sfmt("in=%lld cin=%lld: carry_out=%lld, expected %lld (in+cin = out + cout 2^k)", (long long)in0[j], (long long)cin.as<int64_t>()[j], (long long)cout.as<int64_t>()[j], (long long)co)); break; }
        }
        if (!in.guards_ok() || !cin.guards_ok() || !out.guards_ok() || !cout.guards_ok()) ctx.violation(id, "write outside nn elements");
        if (!has_out || !inplace) if (memcmp(in.p, in0.data(), nn * 8)) ctx.violation(id, "input modified");
      }
      ctx.metric_add(1, pairs.size());
      ctx.end_case(true);
    }
  }
}

// Part D: long carry chains - many more input limbs than output limbs.  Every limb sits at a digit boundary
// (values from the boundary set), with one deviating position: a carry born anywhere must ripple through
// an arbitrarily long run of boundary digits into the kept limbs ("dropped low limbs still propagate").
static void part_d(Ctx& ctx, unsigned k, bool thorough) {
  const uint64_t N = 4096;
  MODULE* mod = get_module(N, FFT64, CFG_NATIVE);
  const i128 h = (i128)1 << (k - 1);
  std::vector<int64_t> Bs;
  for (i128 v : {h - 1, h, -h, -h - 1}) if (v <= ((i128)1 << 62) && v >= -((i128)1 << 62)) Bs.push_back((int64_t)v);
  std::vector<unsigned> sizes = {5, 6, 8, 9, 12, 16, 24, 33, 48, 70, 100, 140};
  if (thorough) { sizes.push_back(200); sizes.push_back(300); }
  for (unsigned as : sizes) {
    // tuples: all limbs = x except position j = y (x, y in the boundary set), plus j = none
    std::vector<std::vector<int64_t>> tuples;
    for (int64_t x : Bs) { tuples.push_back(std::vector<int64_t>(as, x)); for (int64_t y : Bs) if (y != x) for (unsigned j = 0; j < as; ++j) { std::vector<int64_t> t(as, x); t[j] = y; tuples.push_back(t); } }
    // and alternating boundary patterns
    for (int64_t x : Bs) for (int64_t y : Bs) if (x != y) { std::vector<int64_t> t(as); for (unsigned j = 0; j < as; ++j) t[j] = (j & 1) ? x : y; tuples.push_back(t); }
    std::vector<unsigned> rss = {0, 1, 2, 3, as / 2, as - 1, as, as + 2};
    for (size_t base = 0, batch = 0; base < tuples.size(); base += N, ++batch) {
      size_t cnt = std::min<size_t>(N, tuples.size() - base);
      for (unsigned rs : rss) {
        std::string id = sfmt("long-chain|k=%u|as=%u|rs=%u|batch=%zu", k, as, rs, batch);
        if (!ctx.want(id)) continue;
        ctx.begin_case(id);
        GBuf a((size_t)as * N * 8, 0), r((size_t)rs * N * 8, 8), t(vec_znx_normalize_base2k_tmp_bytes(mod), 16);
        for (unsigned i = 0; i < as; ++i) for (uint64_t j = 0; j < N; ++j) a.as<int64_t>()[i * N + j] = tuples[base + (j < cnt ? j : 0)][i];
        prefill(r.p, r.bytes, 1); prefill(t.p, t.bytes, 2);
        vec_znx_normalize_base2k(mod, k, r.as<int64_t>(), rs, N, a.as<int64_t>(), as, N, t.p);
        std::vector<i128> limbs(as), dig;
        for (uint64_t j = 0; j < cnt; ++j) {
          for (unsigned i = 0; i < as; ++i) limbs[i] = tuples[base + j][i];
          balanced_digits(k, limbs, dig);
          bool bad = false;
          for (unsigned i = 0; i < rs && !bad; ++i) {
            int64_t e = i < as ? (int64_t)dig[i] : 0;
            if (r.as<int64_t>()[i * N + j] != e) {
              ctx.violation(id, sfmt("a_size=%u limbs all %lld except limb %lld...: output limb %u is %lld, the balanced digit is %lld (a carry from a dropped low limb was lost or mis-propagated)", as, (long long)tuples[base + j][0], (long long)tuples[base + j][as - 1], i, (long long)r.as<int64_t>()[i * N + j], (long long)e));
              bad = true;
            }
          }
          if (bad) break;
        }
        if (!a.guards_ok() || !r.guards_ok() || !t.guards_ok()) ctx.violation(id, "write outside a declared extent");
        ctx.metric_add(0, cnt);
        ctx.end_case(rs > 0);
      }
    }
  }
}

int main(int argc, char** argv) {
  Args args = parse_args("C05", argc, argv, 300, 1800);
  Ctx ctx(args);
  const bool th = args.thorough();
  ctx.name_metric(0, "limb_tuples_checked");
  ctx.name_metric(1, "single_limb_pairs_checked");
  // items: part A per k (62), part C per k (62), part B per (N, cfg)
  struct It { int part; unsigned k; uint64_t N; CpuCfg cfg; };
  std::vector<It> items;
  for (unsigned k = (th ? 5 : 3); k >= 1; --k) items.push_back({0, k, 0, CFG_NATIVE});  // heavy ones first
  for (unsigned k = (th ? 6 : 4); k <= 62; ++k) items.push_back({0, k, 0, CFG_NATIVE});
  std::vector<uint64_t> Ns = {2, 4, 8, 16, 32, 64};
  if (th) Ns.push_back(1024);
  for (uint64_t N : Ns) for (auto& c : cfgs(th)) items.push_back({1, 0, N, c});
  for (uint64_t N : {16384, 4096}) items.insert(items.begin(), {1, 0, N, CFG_NATIVE});  // sparse large-N layer (a blocked / vectorised variant keyed to a size threshold is still met)
  for (unsigned k = 1; k <= 62; ++k) items.push_back({2, k, 0, CFG_NATIVE});
  for (unsigned k = 1; k <= 62; ++k) items.push_back({3, k, 0, CFG_NATIVE});
  ctx.parallel(items.size(), [&](uint64_t i) {
    const It& it = items[i];
    if (it.part == 0) part_a(ctx, it.k, th); else if (it.part == 1) part_b(ctx, it.N, it.cfg, th); else if (it.part == 2) part_c(ctx, it.k); else part_d(ctx, it.k, th);
  });
  ctx.assumptions = {"|a_i| <= 2^62 (documented domain of znx_normalize)", "carry_in of the single-limb primitive bounded by 2^(63-k) (half of the documented 65-k bits, so that in-domain sums cannot overflow)",
                     "the digit oracle (carry chain in __int128) is cross-checked against the definition T mod 2^(k a_size) in 320-bit arithmetic on every enumerated tuple"};
  return ctx.finish("exploration",
                    "part A: k=1..62 x a_size 1..4 x all tuples over the per-k boundary alphabet (complete for a_size<=3; digit-boundary tuples for a_size 4) x res_size 0..4, plus complete scopes "
                    "(all limbs in [-2^(k+1),2^(k+1)]) for small k; part B: k-set x (res_size,a_size) in {0..4}^2 x strides x {small, big, sub-range (begin<=end<=5, step 1..3)} x in/out of place x N x cfg; "
                    "part C: znx_normalize six argument shapes x k x alphabet pairs; part D: long carry chains, a_size in {5..140 (300 thorough)} x digit-boundary chains with one deviating position x res_size in {0,1,2,3,a/2,a-1,a,a+2}. A case (batch of up to 4096 tuples / one shape) is non-trivial when res_size>0 and a_size>0; distinct = distinct case ids",
                    true);
}
