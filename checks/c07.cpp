// C07 — accelerated kernels compute the same function as their reference kernels.
// Engine A over a table of (accelerated, reference-or-definition) kernel pairs:
//  part 1: every group of variants of one kernel in the exported-kernel table (same inputs by
//          construction): integer / data-movement kernels bit-identical to the model and to each
//          other; lazy q120 products equal modulo each prime;
//  part 2: floating-point pairs: BOTH members within the standard a-priori bound of the exact
//          (binary128) result - never bitwise equality between two floating-point kernels;
//  part 3: the public API under every dispatch configuration: integer outputs identical, DFT-space
//          outputs within a normwise rounding bound;
//  part 4: the accelerated symbol is really the one selected (function pointer identity).
#include "../harness/apitable.hpp"
#include "../harness/kernels.hpp"
#include "../harness/fporacle.hpp"
#include "../harness/fftoracle.hpp"
extern "C" {
#include "arithmetic/vec_znx_arithmetic_private.h"
}
using namespace vf;

static const uint64_t QS[4] = {Q1, Q2, Q3, Q4};

// kernel name -> (base, variant)
static std::string base_of(const std::string& name, std::string& variant) {
  static const char* suf[] = {"_avx2_bnd50_fma", "_avx2_bnd63_fma", "_bnd50_fma", "_avx2_fma", "_avx512", "_avx2", "_avx", "_fma", "_sse", "_ref"};
  for (const char* s : suf) { size_t l = strlen(s); if (name.size() > l && name.compare(name.size() - l, l, s) == 0) { variant = s + 1; return name.substr(0, name.size() - l); } }
  variant = "";
  return name;
}

// ---- part 1 ---------------------------------------------------------------------------------------
struct Member { std::string id, variant; ApiCase c; ExecResult r; std::string family; };
static void part1(Ctx& ctx, const KernelGroup& G, bool th) {
  std::map<std::string, std::vector<Member>> groups;
  std::vector<std::string> order;
  run_kernel_group(G, th, [&](ApiCase& c, const KernelInfo& ki) {
    // id = kernel|<name>|params
    size_t p1 = c.id.find('|'), p2 = c.id.find('|', p1 + 1);
    std::string name = c.id.substr(p1 + 1, (p2 == std::string::npos ? c.id.size() : p2) - p1 - 1), var;
    std::string base = base_of(name, var);
    if (var.empty()) return;  // no variants (e.g. znx_rotate_i64)
    std::string key = "kernel|" + base + (p2 == std::string::npos ? "" : c.id.substr(p2));
    if (!groups.count(key)) order.push_back(key);
    Member m; m.id = c.id; m.variant = var; m.c = c; m.family = ki.family;
    ExecOpts o; o.prefill = 2; for (int i = 0; i < 12; ++i) o.off[i] = (var == "ref") ? 0 : 8 * ((i % 3) + 1);  // accelerated variants on 8-byte aligned only pointers
    execute(m.c, o, m.r);
    groups[key].push_back(std::move(m));
  });
  for (auto& key : order) {
    auto& g = groups[key];
    if (g.size() < 2) continue;
    std::string id = "pair|" + key;
    if (!ctx.want(id)) continue;
    ctx.begin_case(id);
    const Member* ref = 0;
    for (auto& m : g) if (m.variant == "ref") ref = &m;
    if (!ref) ref = &g[0];
    const std::string fam = ref->family;
    bool fp = fam == "fftvec" || fam == "fft" || (fam == "reim4" && key.find("product") != std::string::npos) || key.find("to_tnx") != std::string::npos;
    for (auto& m : g) {
      std::string err = judge_model(m.c, m.r);  // exact model where one exists, guards, inputs unchanged
      if (err.empty() && &m != ref && !fp) {
        if (fam == "q120 product") {
          // equal modulo each prime
          for (size_t i = 0; i < m.c.bufs.size() && err.empty(); ++i) {
            if (m.c.bufs[i].role != R_OUT) continue;
            const uint64_t* x = (const uint64_t*)m.r.after[i].data(); const uint64_t* y = (const uint64_t*)ref->r.after[i].data();
            for (size_t e = 0; e < m.c.bufs[i].bytes / 8; ++e) if (x[e] % QS[e & 3] != y[e] % QS[e & 3]) { err = sfmt("lane %zu: %s gives %llu, reference gives %llu modulo q", e, m.variant.c_str(), (unsigned long long)(x[e] % QS[e & 3]), (unsigned long long)(y[e] % QS[e & 3])); break; }
          }
        } else {
          err = diff_outputs(m.c, m.r, ref->r, ("between variant " + m.variant + " and the reference").c_str(), true);
        }
      }
      if (!err.empty()) ctx.violation(id, m.variant + ": " + err);
    }
    ctx.metric_add(0, g.size() - 1);
    ctx.end_case(true);
  }
}

// ---- part 2: floating-point pairs against binary128 -------------------------------------------------
static void part2_pointwise(Ctx& ctx, uint64_t m) {
  for (auto& k : pointwise_kernels()) {
    if (m < k.minm) continue;
    for (int off = 0; off < 3; ++off) for (int rg = 0; rg < 3; ++rg) {
      std::string id = sfmt("fp|%s|m=%llu|offset=%d|values=%s", k.name, (unsigned long long)m, off * 8 + (off == 2 ? 8 : 0), rg == 2 ? "extreme-combinations" : rg ? "special" : "dense");
      if (!ctx.want(id)) continue;
      ctx.begin_case(id);
      size_t o = off == 0 ? 0 : off == 1 ? 8 : 24;
      GBuf r(2 * m * 8, o), a(2 * m * 8, o), b(2 * m * 8, (o + 8) % 32);
      for (uint64_t i = 0; i < 2 * m; ++i) { a.as<double>()[i] = val(i + m, rg == 2 ? 0 : rg); b.as<double>()[i] = val(i + 3 * m + 11, rg == 2 ? 0 : rg); r.as<double>()[i] = k.addmul ? val(i + 5 * m + 1, 0) : 0; }
      if (rg == 2) extreme_triples(k.layout, m, r.as<double>(), a.as<double>(), b.as<double>());
      if (!k.addmul) prefill(r.p, r.bytes, 2);
      std::vector<double> r0(r.as<double>(), r.as<double>() + 2 * m);
      PCm pc{0, (int64_t)m};
      k.f(&pc, r.p, a.p, b.p);
      std::string err = judge_pointwise(k, m, r.as<double>(), r0.data(), a.as<double>(), b.as<double>());
      if (err.empty() && (!r.guards_ok() || !a.guards_ok() || !b.guards_ok())) err = "write outside the 2m doubles";
      if (!err.empty()) ctx.violation(id, err);
      ctx.end_case(true);
    }
  }
  // twiddle kernels against (a + w b, a - w b)
  struct TW { const char* name; void (*f)(const CPLX_FFTVEC_TWIDDLE_PRECOMP*, void*, void*, const void*); uint64_t minm; };
  TW tw[] = {{"cplx_fftvec_twiddle_fma", cplx_fftvec_twiddle_fma, 8}, {"cplx_fftvec_twiddle_avx512", cplx_fftvec_twiddle_avx512, 16}};
  for (auto& k : tw) {
    if (m < k.minm) continue;
    for (int wi = 0; wi < 3; ++wi) {
      static const double OM[3][2] = {{0.955336489125606, 0.29552020666133955}, {1.0, 0.0}, {-0.6, 0.8}};
      std::string id = sfmt("fp|%s|m=%llu|omega=(%g,%g)", k.name, (unsigned long long)m, OM[wi][0], OM[wi][1]);
      if (!ctx.want(id)) continue;
      ctx.begin_case(id);
      GBuf a(2 * m * 8, 8), b(2 * m * 8, 24), om(32, 16);
      for (uint64_t i = 0; i < 2 * m; ++i) { a.as<double>()[i] = val(i + m, 0); b.as<double>()[i] = val(i + 7 * m, 0); }
      std::vector<double> a0(a.as<double>(), a.as<double>() + 2 * m), b0(b.as<double>(), b.as<double>() + 2 * m);
      double o4[4] = {OM[wi][0], OM[wi][1], OM[wi][0], OM[wi][1]}; memcpy(om.p, o4, 32);
      CPLX_FFTVEC_TWIDDLE_PRECOMP pc; pc.m = m; pc.function = 0;
      k.f(&pc, a.p, b.p, om.p);
      std::string err;
      for (uint64_t i = 0; i < m && err.empty(); ++i) {
        q128 ar = a0[2 * i], ai = a0[2 * i + 1], br = b0[2 * i], bi = b0[2 * i + 1], wr = OM[wi][0], wim = OM[wi][1];
        q128 pr = br * wr - bi * wim, pi = br * wim + bi * wr;
        q128 sr = fabsq(br * wr) + fabsq(bi * wim) + fabsq(ar), si = fabsq(br * wim) + fabsq(bi * wr) + fabsq(ai);
        q128 tolr = gamma_k(5) * sr, toli = gamma_k(5) * si;
        if (!(fabsq((q128)a.as<double>()[2 * i] - (ar + pr)) <= tolr) || !(fabsq((q128)a.as<double>()[2 * i + 1] - (ai + pi)) <= toli) ||
            !(fabsq((q128)b.as<double>()[2 * i] - (ar - pr)) <= tolr) || !(fabsq((q128)b.as<double>()[2 * i + 1] - (ai - pi)) <= toli))
          err = sfmt("complex number %llu: (a,b) -> ((%.17g,%.17g),(%.17g,%.17g)), exact (a+wb, a-wb) = ((%.17g,%.17g),(%.17g,%.17g))", (unsigned long long)i, a.as<double>()[2 * i], a.as<double>()[2 * i + 1],
                     b.as<double>()[2 * i], b.as<double>()[2 * i + 1], (double)(ar + pr), (double)(ai + pi), (double)(ar - pr), (double)(ai - pi));
      }
      if (err.empty() && (!a.guards_ok() || !b.guards_ok() || !om.guards_ok())) err = "write outside a declared extent";
      if (!err.empty()) ctx.violation(id, err);
      ctx.end_case(true);
    }
  }
}
static void part2_dot(Ctx& ctx, uint64_t nrows) {
  std::string id = sfmt("fp|reim4_vec_mat1col/mat2cols_product ref and avx2|nrows=%llu", (unsigned long long)nrows);
  if (!ctx.want(id)) return;
  ctx.begin_case(id);
  GBuf u(64 * nrows, 8), v(128 * nrows, 24), d(128, 8);
  std::string err;
  for (int pass = 0; pass < 2; ++pass)   // seeded values, then structured rows of u
  for (int av = 0; av < 2 && err.empty(); ++av) {
    if (av == 0) {
      for (uint64_t i = 0; i < 8 * nrows; ++i) u.as<double>()[i] = val(i + 7 * nrows, pass ? 0 : (int)(i % 2));
      for (uint64_t i = 0; i < 16 * nrows; ++i) v.as<double>()[i] = val(i + 1000 + nrows, 0);
      if (pass) structured_rows(u.as<double>(), nrows);
    }
    q128 acc[16], ab[16];
    for (int i = 0; i < 16; ++i) acc[i] = ab[i] = 0;
    for (uint64_t r = 0; r < nrows; ++r) r4_addmul_q(acc, ab, u.as<double>() + 8 * r, v.as<double>() + 8 * r);
    if (av) reim4_vec_mat1col_product_avx2(nrows, d.as<double>(), u.as<double>(), v.as<double>()); else reim4_vec_mat1col_product_ref(nrows, d.as<double>(), u.as<double>(), v.as<double>());
    within(d.as<double>(), acc, ab, 8, 2 * (int)nrows + 2, err, av ? "reim4_vec_mat1col_product_avx2" : "reim4_vec_mat1col_product_ref");
    for (int i = 0; i < 16; ++i) acc[i] = ab[i] = 0;
    for (uint64_t r = 0; r < nrows; ++r) { r4_addmul_q(acc, ab, u.as<double>() + 8 * r, v.as<double>() + 16 * r); r4_addmul_q(acc + 8, ab + 8, u.as<double>() + 8 * r, v.as<double>() + 16 * r + 8); }
    if (av) reim4_vec_mat2cols_product_avx2(nrows, d.as<double>(), u.as<double>(), v.as<double>()); else reim4_vec_mat2cols_product_ref(nrows, d.as<double>(), u.as<double>(), v.as<double>());
    if (err.empty()) within(d.as<double>(), acc, ab, 16, 2 * (int)nrows + 2, err, av ? "reim4_vec_mat2cols_product_avx2" : "reim4_vec_mat2cols_product_ref");
  }
  if (!u.guards_ok() || !v.guards_ok() || !d.guards_ok()) err = "write outside a declared extent";
  if (!err.empty()) ctx.violation(id, err);
  ctx.end_case(true);
}
static void part2_fft(Ctx& ctx, uint64_t m) {
  Tables T(m);
  Rng rng(ctx.args.seed * 77 + m);
  for (int im = 0; im < NIMPL; ++im) {
    if (m < min_m(im)) continue;
    std::string id = sfmt("fp|%s|m=%llu|3 vectors, unaligned buffers", IN[im], (unsigned long long)m);
    if (!ctx.want(id)) continue;
    ctx.begin_case(id);
    Runner R(im, m);
    const double bnd = bound_of(m);
    for (int vi = 0; vi < 3; ++vi) {
      GBuf d(2 * m * 8, vi == 0 ? 0 : vi == 1 ? 8 : 24);
      std::vector<cq> in(m), ex;
      for (uint64_t k = 0; k < m; ++k) {
        double sc = vi == 2 ? 0x1p-1021 : 1.0;  // third vector: tiny normal numbers (subnormal intermediates)
        double re = vi == 0 ? (k == m / 3 ? 1.0 : 0.0) : (vi == 2 ? (1.0 + rng.unit()) * (rng.unit() < 0.5 ? -sc : sc) : (rng.unit() - 0.5) * 4096), imv = vi == 0 ? 0.0 : (vi == 2 ? (1.0 + rng.unit()) * sc : (rng.unit() - 0.5) * 4096);
        in[k] = {(q128)re, (q128)imv}; d.as<double>()[R.pre(k)] = re; d.as<double>()[R.pim(k)] = imv;
      }
      if (is_inv(im)) T.inverse_times_m(in, ex); else T.forward(in, ex);
      R.run(d.as<double>());
      q128 e2 = 0, n2 = 0;
      for (uint64_t j = 0; j < m; ++j) { q128 dr = (q128)d.as<double>()[R.pre(j)] - ex[j].re, di = (q128)d.as<double>()[R.pim(j)] - ex[j].im; e2 += dr * dr + di * di; n2 += ex[j].re * ex[j].re + ex[j].im * ex[j].im; }
      double ratio = (double)(sqrtq(e2) / sqrtq(n2)) / bnd;
      ctx.metric_max(1, ratio);
      if (!(ratio <= 1.0)) ctx.violation(id, sfmt("vector %d: relative error %.3g exceeds the bound %.3g", vi, ratio * bnd, bnd));
      if (!d.guards_ok()) ctx.violation(id, "write outside the 2m doubles");
    }
    ctx.end_case(m > 1);
  }
}

// ---- part 3: public API under every cfg -------------------------------------------------------------
static void part3(Ctx& ctx, const ApiGroup& G0, const BoxOpts& o0, const std::vector<CpuCfg>& cf) {
  // run the same group under every cfg; cases are generated in the same order
  BoxOpts o = o0;
  if (G0.fam != F_VEC && G0.fam != F_NORM) o.inplace = false;  // same-pointer calls for the integer families (what an inverse DFT leaves in a consumed source is unspecified)
  std::vector<std::vector<std::pair<ApiCase, ExecResult>>> runs(cf.size());
  for (size_t ci = 0; ci < cf.size(); ++ci) {
    ApiGroup G = G0; G.cfg = cf[ci];
    if (G.fam == F_DFT && G.mtype == 1 && !cf[ci].avx2) continue;  // NTT120 dft/idft exist only with avx2
    run_group(G, o, [&](ApiCase& c) { ExecOpts eo; eo.prefill = 1; ExecResult r; execute(c, eo, r); runs[ci].push_back({c, r}); });
  }
  for (size_t k = 0; k < runs[0].size(); ++k) {
    const ApiCase& c0 = runs[0][k].first;
    std::string id = "api-cfg|" + c0.id;
    if (!ctx.want(id)) continue;
    ctx.begin_case(id);
    for (size_t ci = 0; ci < cf.size(); ++ci) {
      if (runs[ci].size() != runs[0].size()) continue;
      const ApiCase& c = runs[ci][k].first; const ExecResult& r = runs[ci][k].second;
      std::string err = judge_model(c, r);
      for (size_t i = 0; i < c.bufs.size() && err.empty() && ci > 0; ++i) {
        const Buf& b = c.bufs[i];
        if (b.role != R_OUT && b.role != R_INOUT) continue;
        // mask 2 regions hold doubles (DFT space): normwise comparison; everything else byte-identical
        long double e2 = 0, n2 = 0; bool any2 = false;
        for (size_t e = 0; e + 8 <= b.bytes; e += 8) {
          if (b.mask[e] == 2) {
            if (G0.mtype == 1) { if (memcmp(&r.after[i][e], &runs[0][k].second.after[i][e], 8)) err = "NTT120 DFT output differs between configurations"; continue; }
            double x, y; memcpy(&x, &r.after[i][e], 8); memcpy(&y, &runs[0][k].second.after[i][e], 8);
            e2 += (long double)(x - y) * (x - y); n2 += (long double)y * y; any2 = true;
          } else if (memcmp(&r.after[i][e], &runs[0][k].second.after[i][e], 8)) err = sfmt("output '%s' element %zu differs between cfg %s and cfg %s", b.name.c_str(), e / 8, cf[ci].name, cf[0].name);
        }
        if (any2 && err.empty()) {
          double tol = 32.0 * (ilog2(G0.N) + 8) * 0x1p-53;
          double rel = n2 > 0 ? (double)(sqrtl(e2) / sqrtl(n2)) : (e2 == 0 ? 0 : 1);
          ctx.metric_max(2, rel / tol);
          if (rel > tol) err = sfmt("DFT-space output '%s' differs between cfg %s and cfg %s by %.3g relative (tolerance %.3g)", b.name.c_str(), cf[ci].name, cf[0].name, rel, tol);
        }
      }
      if (!err.empty()) ctx.violation(id, std::string(cf[ci].name) + ": " + err);
    }
    ctx.end_case(c0.nontrivial);
  }
}

// ---- part 4: the accelerated symbol is really selected ------------------------------------------------
static void part4(Ctx& ctx) {
  for (int ci = 0; ci < 4; ++ci) {
    static const CpuCfg CF[4] = {CFG_NATIVE, CFG_GENERIC, CFG_AVX2_NOFMA, CFG_FMA_NOAVX2};
    const CpuCfg& cfg = CF[ci];
    for (uint64_t m : {1, 2, 4, 8, 16, 64}) {
      std::string id = sfmt("dispatch|%s|m=%llu|function pointers of every constructor and of the module", cfg.name, (unsigned long long)m);
      if (!ctx.want(id)) continue;
      ctx.begin_case(id);
      set_cfg(cfg);
      auto expect = [&](const char* what, const void* got, const void* acc, const void* ref, bool use_acc) {
        const void* e = use_acc ? acc : ref;
        // informational: which kernel the dispatcher selected (a moved threshold is not a violation by itself; the
        // functional parts decide).  Counted so that the evidence shows the accelerated kernels really are dispatched.
        if (got == acc) ctx.metric_add(3); else if (got == ref) ctx.metric_add(4); else ctx.metric_add(5);
        if (got != e) ctx.metric_add(6);
        (void)what;
      };
      { auto* p = new_reim_fftvec_mul_precomp(m); expect("reim_fftvec_mul", (void*)p->function, (void*)reim_fftvec_mul_fma, (void*)reim_fftvec_mul_ref, cfg.fma && m >= 4); free(p); }
      { auto* p = new_reim_fftvec_addmul_precomp(m); expect("reim_fftvec_addmul", (void*)p->function, (void*)reim_fftvec_addmul_fma, (void*)reim_fftvec_addmul_ref, cfg.fma && m >= 4); free(p); }
      { auto* p = new_cplx_fftvec_mul_precomp(m); expect("cplx_fftvec_mul", (void*)p->function, (void*)cplx_fftvec_mul_fma, (void*)cplx_fftvec_mul_ref, cfg.fma && m > 4); free(p); }
      { auto* p = new_cplx_fftvec_addmul_precomp(m); expect("cplx_fftvec_addmul", (void*)p->function, (void*)cplx_fftvec_addmul_fma, (void*)cplx_fftvec_addmul_ref, cfg.fma && m > 4); free(p); }
      { auto* p = new_reim_from_znx64_precomp(m, 50); expect("reim_from_znx64", (void*)p->function, (void*)reim_from_znx64_bnd50_fma, (void*)reim_from_znx64_ref, cfg.avx2 && m >= 8); free(p); }
      { auto* p = new_reim_to_znx64_precomp(m, 2.0, 50); expect("reim_to_znx64 (bound 50)", (void*)p->function, (void*)reim_to_znx64_avx2_bnd50_fma, (void*)reim_to_znx64_ref, cfg.avx2 && m >= 8); free(p); }
      { auto* p = new_reim_to_znx64_precomp(m, 2.0, 63); expect("reim_to_znx64 (bound 63)", (void*)p->function, (void*)reim_to_znx64_avx2_bnd63_fma, (void*)reim_to_znx64_ref, cfg.avx2 && m >= 8); free(p); }
      { auto* p = new_reim_to_tnx_precomp(m, 2.0, 18); expect("reim_to_tnx", (void*)p->function, (void*)reim_to_tnx_avx, (void*)reim_to_tnx_ref, cfg.avx2 && m >= 8); free(p); }
      { auto* p = new_cplx_from_znx32_precomp(m); expect("cplx_from_znx32", (void*)p->function, (void*)cplx_from_znx32_avx2_fma, (void*)cplx_from_znx32_ref, cfg.avx2 && m >= 8); free(p); }
      { auto* p = new_cplx_from_tnx32_precomp(m); expect("cplx_from_tnx32", (void*)p->function, (void*)cplx_from_tnx32_avx2_fma, (void*)cplx_from_tnx32_ref, cfg.avx2 && m >= 8); free(p); }
      { auto* p = new_cplx_to_tnx32_precomp(m, 2.0, 18); expect("cplx_to_tnx32 (overhead 18)", (void*)p->function, (void*)cplx_to_tnx32_avx2_fma, (void*)cplx_to_tnx32_ref, cfg.avx2 && m >= 8); free(p); }
      { auto* p = new_cplx_to_tnx32_precomp(m, 2.0, 19); expect("cplx_to_tnx32 (overhead 19)", (void*)p->function, (void*)cplx_to_tnx32_avx2_fma, (void*)cplx_to_tnx32_ref, false); free(p); }
      if (m >= 4) {
        { auto* p = new_reim4_fftvec_mul_precomp(m); expect("reim4_fftvec_mul", (void*)p->function, (void*)reim4_fftvec_mul_fma, (void*)reim4_fftvec_mul_ref, cfg.fma); free(p); }
        { auto* p = new_reim4_fftvec_addmul_precomp(m); expect("reim4_fftvec_addmul", (void*)p->function, (void*)reim4_fftvec_addmul_fma, (void*)reim4_fftvec_addmul_ref, cfg.fma); free(p); }
        { auto* p = new_reim4_from_cplx_precomp(m); expect("reim4_from_cplx", (void*)p->function, (void*)reim4_from_cplx_fma, (void*)reim4_from_cplx_ref, cfg.fma); free(p); }
        { auto* p = new_reim4_to_cplx_precomp(m); expect("reim4_to_cplx", (void*)p->function, (void*)reim4_to_cplx_fma, (void*)reim4_to_cplx_ref, cfg.fma); free(p); }
      }
      if (m >= 2) {
        MODULE* mod = new_module_info(m, FFT64);
        expect("module vec_znx_add", (void*)mod->func.vec_znx_add, (void*)vec_znx_add_avx, (void*)vec_znx_add_ref, cfg.avx2);
        expect("module vec_znx_sub", (void*)mod->func.vec_znx_sub, (void*)vec_znx_sub_avx, (void*)vec_znx_sub_ref, cfg.avx2);
        expect("module vec_znx_negate", (void*)mod->func.vec_znx_negate, (void*)vec_znx_negate_avx, (void*)vec_znx_negate_ref, cfg.avx2);
        expect("module vmp_prepare_contiguous", (void*)mod->func.vmp_prepare_contiguous, (void*)fft64_vmp_prepare_contiguous_avx, (void*)fft64_vmp_prepare_contiguous_ref, cfg.avx2);
        expect("module vmp_apply_dft", (void*)mod->func.vmp_apply_dft, (void*)fft64_vmp_apply_dft_avx, (void*)fft64_vmp_apply_dft_ref, cfg.avx2);
        expect("module vmp_apply_dft_to_dft", (void*)mod->func.vmp_apply_dft_to_dft, (void*)fft64_vmp_apply_dft_to_dft_avx, (void*)fft64_vmp_apply_dft_to_dft_ref, cfg.avx2);
        delete_module_info(mod);
      }
      set_cfg(CFG_NATIVE);
      ctx.end_case(true);
    }
  }
}

// ---- part 5: parameterised constructors under every cfg: results do not depend on the detected CPU features ----
static void part5(Ctx& ctx, uint64_t m) {
  static const CpuCfg CF[4] = {CFG_NATIVE, CFG_GENERIC, CFG_AVX2_NOFMA, CFG_FMA_NOAVX2};
  std::string id = sfmt("cfg-independence|m=%llu|reim_to_znx64 (every log2bound 0..64), reim_from_znx64 (0..50), cplx_to_tnx32 (every log2overhead 0..52), reim_to_tnx (0..48)", (unsigned long long)m);
  if (!ctx.want(id)) return;
  ctx.begin_case(id);
  const uint64_t n = 2 * m;
  Rng rng(ctx.args.seed * 3 + m);
  std::string err;
  // double -> int64: non-tie inputs have a unique correctly rounded result, which every kernel must return
  for (uint32_t lb = 0; lb <= 64 && err.empty(); ++lb) for (double d : {1.0, 8.0}) {
    int lim = (int)std::min<uint32_t>(lb, 52);
    GBuf x(n * 8, 8); std::vector<std::vector<int64_t>> outs;
    for (uint64_t i = 0; i < n; ++i) {
      double y;
      if (lim == 0) y = (rng.unit() - 0.5) * 0.9;
      else { double mag = ldexp(1.0, (int)(rng.next() % lim)) * (1.0 + rng.unit()); if (i % 3 == 0) mag = ldexp(1.0, lim) - 1.25; if (mag >= ldexp(1.0, lim)) mag = ldexp(1.0, lim) - 1.25; if (mag < 0) mag = 0.25; y = (i & 1) ? -mag : mag; }
      y = floor(y) + (fabs(y) < 0x1p49 ? 0.25 : 0.0);  // never an exact .5 tie (ties may legitimately round either way)
      if (fabs(y) >= ldexp(1.0, std::max(lim, 1))) y = 0.25;
      x.as<double>()[i] = y * d;
    }
    for (int ci = 0; ci < 4; ++ci) {
      set_cfg(CF[ci]);
      REIM_TO_ZNX64_PRECOMP* p = new_reim_to_znx64_precomp(m, d, lb);
      GBuf r(n * 8, 16); reim_to_znx64(p, r.as<int64_t>(), x.p); free(p);
      outs.push_back(std::vector<int64_t>(r.as<int64_t>(), r.as<int64_t>() + n));
      if (outs.back() != outs[0]) { size_t i = 0; while (outs.back()[i] == outs[0][i]) ++i; err = sfmt("reim_to_znx64(log2bound=%u, divisor=%g) on x/d=%.17g: cfg %s returns %lld, cfg %s returns %lld", lb, d, x.as<double>()[i] / d, CF[ci].name, (long long)outs.back()[i], CF[0].name, (long long)outs[0][i]); break; }
    }
    set_cfg(CFG_NATIVE);
    if (!err.empty()) break;
  }
  for (uint32_t lb = 0; lb <= 50 && err.empty(); ++lb) {
    GBuf x(n * 8, 8); std::vector<std::vector<uint8_t>> outs;
    const int64_t lim = INT64_C(1) << lb;
    for (uint64_t i = 0; i < n; ++i) x.as<int64_t>()[i] = i == 0 ? lim - 1 : i == 1 ? -(lim - 1) : (lb ? (int64_t)(rng.next() % (uint64_t)(2 * lim - 1)) - (lim - 1) : 0);
    for (int ci = 0; ci < 4; ++ci) {
      set_cfg(CF[ci]); REIM_FROM_ZNX64_PRECOMP* p = new_reim_from_znx64_precomp(m, lb); GBuf r(n * 8, 16); reim_from_znx64(p, r.p, x.as<int64_t>()); free(p);
      outs.push_back(std::vector<uint8_t>(r.p, r.p + n * 8));
      if (outs.back() != outs[0]) { err = sfmt("reim_from_znx64(log2bound=%u): cfg %s and cfg %s return different doubles", lb, CF[ci].name, CF[0].name); break; }
    }
    set_cfg(CFG_NATIVE);
  }
  for (uint32_t lo = 0; lo <= 52 && err.empty(); ++lo) {
    GBuf x(n * 8, 8); std::vector<std::vector<uint8_t>> outs;
    for (uint64_t i = 0; i < n; ++i) x.as<double>()[i] = 4.0 * ((double)((int64_t)(rng.next() >> 30)) * 0x1p-16 - 131072.0 + 0x1p-34);  // |x/d| < 2^18, never a tie of the 2^-32 grid
    for (int ci = 0; ci < 4; ++ci) {
      set_cfg(CF[ci]); CPLX_TO_TNX32_PRECOMP* p = new_cplx_to_tnx32_precomp(m, 4.0, lo); GBuf r(n * 4, 16); cplx_to_tnx32(p, r.as<int32_t>(), x.p); free(p);
      outs.push_back(std::vector<uint8_t>(r.p, r.p + n * 4));
      if (outs.back() != outs[0]) { err = sfmt("cplx_to_tnx32(log2overhead=%u): cfg %s and cfg %s return different torus values", lo, CF[ci].name, CF[0].name); break; }
    }
    set_cfg(CFG_NATIVE);
  }
  // the *_simple forms under every cfg, each in a fresh process (their caches are per process / per thread): a short
  // sequence of calls with different cache-relevant parameters must give the same integers whatever CPU features are reported
  if (err.empty() && m >= 8) {
    uint64_t hs[4] = {0, 0, 0, 0};
    for (int ci = 0; ci < 4; ++ci) {
      int pfd[2]; if (pipe(pfd)) machinery_error("pipe");
      fflush(stdout);
      pid_t pid = fork();
      if (pid == 0) {
        set_cfg(CF[ci]);
        uint64_t h = 0xcbf29ce484222325ull;
        GBuf x(n * 8, 8), r(n * 8, 16), r32(n * 4, 24);
        for (uint32_t lo : {10u, 30u, 18u, 25u}) {   // complex -> torus32, inputs up to the announced overhead
          for (uint64_t i = 0; i < n; ++i) x.as<double>()[i] = 2.0 * ldexp((double)((int64_t)(probe62(i + lo) >> 38)) + 0.25, (int)std::min<uint32_t>(lo, 24) - 24);
          cplx_to_tnx32_simple(m, 2.0, lo, r32.as<int32_t>(), x.p); h = fnv(r32.p, n * 4, h);
        }
        for (uint32_t lb : {40u, 63u, 50u, 52u, 51u}) {   // double -> int64, inputs up to the announced bound, no ties
          for (uint64_t i = 0; i < n; ++i) { int top = (int)std::min<uint32_t>(lb, 52); double y = ldexp((double)(probe62(i + lb) >> 10), top - 52); y = floor(y) + (fabs(y) < 0x1p49 ? 0.25 : 0.0); x.as<double>()[i] = y * 4.0; }
          reim_to_znx64_simple(m, 4.0, lb, r.as<int64_t>(), x.p); h = fnv(r.p, n * 8, h);
        }
        if (write(pfd[1], &h, 8) != 8) _exit(3);
        _exit(0);
      }
      close(pfd[1]);
      if (read(pfd[0], &hs[ci], 8) != 8) hs[ci] = ~0ull;
      close(pfd[0]);
      int st; waitpid(pid, &st, 0);
      if (!WIFEXITED(st) || WEXITSTATUS(st)) err = sfmt("the *_simple sequence crashed under cfg %s", CF[ci].name);
      else if (hs[ci] != hs[0]) err = sfmt("a sequence of cplx_to_tnx32_simple / reim_to_znx64_simple calls with changing log2overhead / log2bound returns different integers under cfg %s and cfg %s", CF[ci].name, CF[0].name);
      if (!err.empty()) break;
    }
  }
  if (!err.empty()) ctx.violation(id, err);
  ctx.end_case(true);
}

// part 6: the accelerated coefficient kernels on very long vectors (one polynomial of 512 KiB / 16 MiB), every 8-byte alignment of the
// output modulo 32, out of place and in place: bit-identical to the reference kernel (integer data)
static void part6(Ctx& ctx, uint64_t nn) {
  typedef void (*bin_f)(uint64_t, int64_t*, const int64_t*, const int64_t*);
  typedef void (*un_f)(uint64_t, int64_t*, const int64_t*);
  struct K { const char* name; void* ref; void* acc; int nin; };
  K ks[] = {{"znx_add_i64", (void*)znx_add_i64_ref, (void*)znx_add_i64_avx, 2}, {"znx_sub_i64", (void*)znx_sub_i64_ref, (void*)znx_sub_i64_avx, 2},
            {"znx_negate_i64", (void*)znx_negate_i64_ref, (void*)znx_negate_i64_avx, 1}};
  for (auto& k : ks)
    for (size_t ro : {0, 8, 16, 24}) for (int al = 0; al < 3; ++al) {
      if (al == 2 && k.nin < 2) continue;
      std::string id = sfmt("pair|long vector|%s ref / avx|nn=%llu|res at %zu mod 32|%s", k.name, (unsigned long long)nn, ro, al == 0 ? "out of place" : al == 1 ? "res == a" : "res == b");
      if (!ctx.want(id)) continue;
      ctx.begin_case(id);
      GBuf out[2]; out[0].init(nn * 8, ro); out[1].init(nn * 8, ro);
      GBuf a(nn * 8, (ro + 8) % 32), b(nn * 8, 16);
      for (int v = 0; v < 2; ++v) {
        int64_t* R = out[v].as<int64_t>();
        int64_t* A = al == 1 ? R : a.as<int64_t>();
        int64_t* B = al == 2 ? R : b.as<int64_t>();
        prefill(R, nn * 8, 2);
        for (uint64_t j = 0; j < nn; ++j) A[j] = probe62(j + 2) / 2;
        if (k.nin >= 2) for (uint64_t j = 0; j < nn; ++j) B[j] = probe62(j + 1000003) / 2;
        void* f = v == 0 ? k.ref : k.acc;
        if (k.nin == 2) ((bin_f)f)(nn, R, A, B); else ((un_f)f)(nn, R, A);
      }
      if (memcmp(out[0].p, out[1].p, nn * 8)) {
        uint64_t j = 0; while (out[0].as<int64_t>()[j] == out[1].as<int64_t>()[j]) ++j;
        ctx.violation(id, sfmt("coefficient %llu: reference kernel %lld, accelerated kernel %lld", (unsigned long long)j, (long long)out[0].as<int64_t>()[j], (long long)out[1].as<int64_t>()[j]));
      }
      if (!out[0].guards_ok() || !out[1].guards_ok() || !a.guards_ok() || !b.guards_ok()) ctx.violation(id, "write outside the nn elements");
      ctx.end_case(true);
    }
}

int main(int argc, char** argv) {
  Args args = parse_args("C07", argc, argv, 420, 1800);
  Ctx ctx(args);
  const bool th = args.thorough();
  ctx.name_metric(0, "accelerated_variants_compared"); ctx.name_metric(1, "fft_worst_error_over_bound"); ctx.name_metric(2, "api_dft_difference_over_tolerance"); ctx.name_metric(3, "dispatch_selected_accelerated"); ctx.name_metric(4, "dispatch_selected_reference"); ctx.name_metric(5, "dispatch_selected_other"); ctx.name_metric(6, "dispatch_differs_from_pinned_tree_thresholds");
  std::vector<KernelGroup> kg = kernel_groups(th);
  ctx.parallel(kg.size(), [&](uint64_t i) { part1(ctx, kg[i], th); }, "kernel variant groups");
  struct It { int kind; uint64_t v; };
  std::vector<It> items;
  for (uint64_t m = (th ? 4096 : 64); m >= 1; m /= 2) { items.push_back({0, m}); if (m == 1) break; }
  for (uint64_t nr = 0; nr <= (th ? 64u : 16u); ++nr) items.push_back({1, nr});
  for (uint64_t m = (th ? 4096 : 256); m >= 1; m /= 2) { items.push_back({2, m}); if (m == 1) break; }
  ctx.parallel(items.size(), [&](uint64_t i) { const It& it = items[i]; if (it.kind == 0) part2_pointwise(ctx, it.v); else if (it.kind == 1) part2_dot(ctx, it.v); else part2_fft(ctx, it.v); }, "floating-point pairs");
  BoxOpts o;
  o.cf = {CFG_NATIVE};
  o.inplace = true;  // the same-pointer calls too: an in-place fast path of an accelerated kernel must agree with the portable code
  if (th) o.Ns = {2, 4, 8, 16, 32, 64, 1024};
  std::vector<CpuCfg> cf = cfgs(true);  // all four masks: native first
  std::vector<ApiGroup> groups = api_groups(o);
  std::stable_sort(groups.begin(), groups.end(), [](const ApiGroup& a, const ApiGroup& b) { return a.N > b.N; });
  ctx.parallel(groups.size(), [&](uint64_t i) { part3(ctx, groups[i], o, cf); }, "public API under every cfg");
  BoxOpts ol = large_layer(th, {CFG_NATIVE});
  std::vector<ApiGroup> lgroups = api_groups(ol);
  ctx.parallel(lgroups.size(), [&](uint64_t i) { part3(ctx, lgroups[i], ol, cf); }, "public API under every cfg, large ring dimensions");
  BoxOpts ow = wide_layer({CFG_NATIVE});
  std::vector<ApiGroup> wgroups = api_groups(ow);
  ctx.parallel(wgroups.size(), [&](uint64_t i) { part3(ctx, wgroups[i], ow, cf); }, "public API under every cfg, wide shapes");
  BoxOpts ot = top_layer();
  std::vector<ApiGroup> tgroups;
  for (auto& G : api_groups(ot)) if (G.fam == F_VEC || G.fam == F_NORM) tgroups.push_back(G);  // the integer families (the transforms at N = 65536 are C01 / C06 / C03 business)
  ctx.parallel(tgroups.size(), [&](uint64_t i) { part3(ctx, tgroups[i], ot, cf); }, "public API under every cfg, N = 65536");
  ctx.parallel(1, [&](uint64_t) { part4(ctx); }, "dispatch identity");
  std::vector<uint64_t> ms5; for (uint64_t m = 1; m <= (th ? 1024u : 64u); m *= 2) ms5.push_back(m);
  ctx.parallel(ms5.size(), [&](uint64_t i) { part5(ctx, ms5[i]); }, "parameterised constructors under every cfg");
  { std::vector<uint64_t> big = {UINT64_C(1) << 21, UINT64_C(1) << 16}; if (th) big.insert(big.begin(), UINT64_C(1) << 23);
    ctx.parallel(big.size(), [&](uint64_t i) { part6(ctx, big[i]); }, "coefficient kernels on very long vectors"); }
  ctx.assumptions = {"floating-point kernels are never compared bitwise with each other (FMA contraction differs legitimately): both members must be within the a-priori bound of the exact binary128 result",
                     "exported kernels with no portable reference and no documented semantics (cplx_fftvec_bitwiddle_fma/_avx512, cplx_fftvec_add_fma, cplx_fftvec_sub2_to_fma, cplx_fftvec_copy_fma) cannot be judged by this property and are excluded",
                     "every kernel is called from its minimum size (unroll width); the q120 NTT has only an AVX2 implementation (C03)",
                     "NTT120 dft/idft exist only when avx2 is reported; the cfg override can only hide CPU features"};
  return ctx.finish("exploration",
                    "part 1: every variant group of the exported-kernel table (sizes from the kernel minimum, accelerated variants on 8/16/24-byte offset pointers); part 2: 14 pointwise kernels x m x 3 offsets x 2 value sets, 2 twiddle kernels, reim4 dot products x nrows, "
                    "8 FFT implementations x m against binary128; part 3: entry-point table x shape box x N under 4 dispatch masks; part 4 (informational): which kernel every constructor selects x m x 4 masks; part 6: znx add / sub / negate ref vs avx on vectors of 2^16 and 2^21 (2^23 thorough) coefficients x 4 output alignments x in / out of place; part 5: parameterised conversion constructors (every log2bound / log2overhead) x m x 4 masks give identical results on non-tie inputs; distinct = distinct case ids",
                    true);
}
