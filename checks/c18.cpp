// C18 — read-only operands are never modified.
// Engine A oracle over the entry-point table: every `const` operand (limb vectors including stride
// padding, integer matrices, prepared scalars/matrices, source DFT/big vectors) is snapshotted before
// and compared byte-wise after the call; module and table memory (every block the library allocated
// for the MODULE) is hashed before and after.  Exemptions are only the documented ones.
#include "../harness/apitable.hpp"
#include "../harness/kernels.hpp"
using namespace vf;

int main(int argc, char** argv) {
  Args args = parse_args("C18", argc, argv, 240, 1500);
  Ctx ctx(args);
  BoxOpts o;
  o.inplace = true;  // "whether or not other arguments alias each other": the part of a source outside the aliased output stays read-only
  o.cf = cfgs(args.thorough());
  if (args.thorough()) { o.Ns = {2, 4, 8, 16, 32, 64, 256, 1024}; o.all_strides = true; o.vmp_max_dim = 4; o.vmp_max_size = 5; }
  else { o.Ns = {2, 4, 8, 16, 32, 64}; }
  std::vector<ApiGroup> groups = api_groups(o);
  std::stable_sort(groups.begin(), groups.end(), [](const ApiGroup& a, const ApiGroup& b) { return a.N > b.N; });
  ctx.name_metric(0, "module_memory_snapshots");
  ctx.name_metric(1, "source_buffers_compared");
  auto run_groups = [&](const std::vector<ApiGroup>& gs, const BoxOpts& bo, const char* phase) {
    ctx.parallel(gs.size(), [&](uint64_t gi) {
      const ApiGroup& G = gs[gi];
      MODULE* mod = get_module(G.N, G.mtype == 0 ? FFT64 : NTT120, G.cfg);
      ExecResult r;
      run_group(G, bo, [&](ApiCase& c) {
        if (!ctx.want(c.id)) return;
        ctx.begin_case(c.id);
        uint64_t h0 = module_hash(mod);
        std::string err;
        // alignment patterns: all buffers 64-byte aligned; every buffer at a different odd multiple of 8; sources aligned and
        // outputs / scratch not; the converse (a code path keyed to the alignment of one argument can touch another)
        // patterns 4 and 5: all operands packed back to back in one block, ascending / descending (disjoint but touching buffers)
        for (int al = 0; al < 6 && err.empty(); ++al) {
          ExecOpts eo; eo.prefill = 1; eo.protect_inputs = true;  // pure sources are read-only mappings during the call
          if (al >= 4) eo.adjacent = al - 3;
          for (int i = 0; i < 12 && i < (int)c.bufs.size(); ++i) { bool src = c.bufs[i].role == R_IN; if (al == 1 || (al == 2 && !src) || (al == 3 && src)) eo.off[i] = 8 * (2 * (i % 4) + 1); }
          execute(c, eo, r);
          err = judge_model(c, r, false, true);
          if (err.empty() && module_hash(mod) != h0) err = sfmt("the MODULE or one of its precomputed tables was modified by the call (alignment pattern %d)", al);
        }
        if (!err.empty()) ctx.violation(c.id, err);
        int nsrc = 0;
        for (auto& b : c.bufs) if (b.role == R_IN && b.bytes) nsrc++;
        ctx.metric_add(0); ctx.metric_add(1, nsrc);
        ctx.end_case(nsrc > 0);
      });
    }, phase);
  };
  run_groups(groups, o, "module entry points");
  BoxOpts ol = large_layer(args.thorough(), o.cf); ol.inplace = true;
  std::vector<ApiGroup> lgroups = api_groups(ol);
  std::stable_sort(lgroups.begin(), lgroups.end(), [](const ApiGroup& a, const ApiGroup& b) { return a.N > b.N; });
  run_groups(lgroups, ol, "module entry points, large ring dimensions");
  BoxOpts ow = wide_layer(o.cf); ow.inplace = true;
  std::vector<ApiGroup> wgroups = api_groups(ow);
  run_groups(wgroups, ow, "module entry points, wide shapes");
  if (!args.thorough()) {
    BoxOpts ot = top_layer(); ot.inplace = true;
    std::vector<ApiGroup> tgroups = api_groups(ot);
    run_groups(tgroups, ot, "module entry points, N = 65536");
  }
  // exported kernels (q120, reim, reim4, cplx, coefficient kernels): const operands and tables
  std::vector<KernelGroup> kg = kernel_groups(args.thorough());
  ctx.parallel(kg.size(), [&](uint64_t gi) {
    ExecResult r;
    run_kernel_group(kg[gi], args.thorough(), [&](ApiCase& c, const KernelInfo& ki) {
      if (!ctx.want(c.id)) return;
      ctx.begin_case(c.id);
      uint64_t h0 = ki.table ? fnv(ki.table, ki.table_bytes) : 0;
      std::string err;
      for (int al = 0; al < 6 && err.empty(); ++al) {
        ExecOpts eo; eo.prefill = 1; eo.protect_inputs = true;
        if (al >= 4) eo.adjacent = al - 3;
        for (int i = 0; i < 12 && i < (int)c.bufs.size(); ++i) { bool src = c.bufs[i].role == R_IN; if (al == 1 || (al == 2 && !src) || (al == 3 && src)) eo.off[i] = 8 * (2 * (i % 4) + 1); }
        execute(c, eo, r);
        err = judge_model(c, r, false, true);
        if (err.empty() && ki.table && fnv(ki.table, ki.table_bytes) != h0) err = "the precomputed table was modified by the call";
      }
      if (!err.empty()) ctx.violation(c.id, err);
      int nsrc = 0;
      for (auto& b : c.bufs) if (b.role == R_IN && b.bytes) nsrc++;
      ctx.metric_add(1, nsrc);
      ctx.end_case(nsrc > 0 || ki.table);
    });
  }, "kernels");
  ctx.assumptions = {"documented exemptions: vec_znx_idft_tmp_a overwrites its source; an input that is the output buffer of an in-place call (covered by C13)",
                     "module/table memory = every block the library allocated while creating the MODULE / PRECOMP (tracked by the wrapped allocator)"};
  return ctx.finish("exploration",
                    "entry-point table (16 element-wise ops, 3 normalisations, dft/idft/idft_tmp_a on FFT64 and NTT120, svp, small product, vmp) over its shape box x N x cfg, "
                    "plus the exported-kernel table; a case is non-trivial when it has at least one non-empty read-only operand or table; distinct = distinct case ids",
                    true);
}
