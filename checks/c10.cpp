// C10 — q120 products and layout conversions are exact modulo the 120-bit modulus.
// Engine A: EVERY ell in 0..10000 for each of the ten product functions (operand arrays of length
// 10000 used by prefix) x six operand families per layout; conversions over an int64 alphabet;
// centred lift; block extract/save on every block index.  Oracle: __int128 / modular running sums.
#include "../harness/bufs.hpp"
#include "../harness/oracle.hpp"
extern "C" {
#include "q120/q120_arithmetic.h"
#include "q120/q120_arithmetic_private.h"
#include "q120/q120_common.h"
}
using namespace vf;

static const uint64_t QS[4] = {Q1, Q2, Q3, Q4};
static const uint64_t L = 10000;

// operand families
enum Fam { F_CANON, F_LAZY, F_HIGH, F_LOW, F_ALLMAX, F_ALT, F_SINGLE, F_ZERO, NFAM };  // F_HIGH / F_LOW: only the high / only the low half of every word is non-zero
static const char* FN[] = {"seeded-canonical", "seeded-noncanonical", "seeded-high-halves-only", "seeded-low-halves-only", "all-maximal", "alternating-max-min", "single-maximal", "all-zero"};

// layout a: 4 uint64 lanes < 2^32;  b: 4 uint64 lanes any;  c: 8 uint32 words
static void fill_a(uint64_t* p, uint64_t n, int fam, Rng& r) {
  for (uint64_t i = 0; i < n; ++i) for (int k = 0; k < 4; ++k) {
    uint64_t v;
    switch (fam) {
      case F_CANON: v = r.next() % QS[k]; break;
      case F_LAZY: v = r.next() & 0xFFFFFFFFull; break;
      case F_HIGH: v = r.next() & 0xFFFF0000ull; break;
      case F_LOW: v = r.next() & 0x0000FFFFull; break;
      case F_ALLMAX: v = 0xFFFFFFFFull; break;
      case F_ALT: v = (i & 1) ? 0 : 0xFFFFFFFFull; break;
      case F_SINGLE: v = (i == n / 2) ? 0xFFFFFFFFull : 0; break;
      default: v = 0;
    }
    p[4 * i + k] = v;
  }
}
static void fill_b(uint64_t* p, uint64_t n, int fam, Rng& r) {
  for (uint64_t i = 0; i < n; ++i) for (int k = 0; k < 4; ++k) {
    uint64_t v;
    switch (fam) {
      case F_CANON: v = r.next() % QS[k]; break;
      case F_LAZY: v = r.next(); break;
      case F_HIGH: v = r.next() & 0xFFFFFFFF00000000ull; break;
      case F_LOW: v = r.next() & 0x00000000FFFFFFFFull; break;
      case F_ALLMAX: v = ~0ull; break;
      case F_ALT: v = (i & 1) ? 0 : ~0ull; break;
      case F_SINGLE: v = (i == n / 2) ? ~0ull : 0; break;
      default: v = 0;
    }
    p[4 * i + k] = v;
  }
}
static void fill_c(uint32_t* p, uint64_t n, int fam, Rng& r) {
  for (uint64_t i = 0; i < n; ++i) for (int k = 0; k < 4; ++k) {
    uint32_t y0, y1;
    switch (fam) {
      case F_CANON: { uint64_t y = r.next() % QS[k]; y0 = (uint32_t)y; y1 = (uint32_t)((y << 32) % QS[k]); break; }
      case F_LAZY: y0 = (uint32_t)r.next(); y1 = (uint32_t)r.next(); break;  // arbitrary words: defined value x_lo*y0 + x_hi*y1
      case F_HIGH: y0 = 0; y1 = (uint32_t)r.next(); break;
      case F_LOW: y0 = (uint32_t)r.next(); y1 = 0; break;
      case F_ALLMAX: y0 = y1 = ~0u; break;
      case F_ALT: y0 = y1 = (i & 1) ? 0 : ~0u; break;
      case F_SINGLE: y0 = y1 = (i == n / 2) ? ~0u : 0; break;
      default: y0 = y1 = 0;
    }
    p[8 * i + 2 * k] = y0; p[8 * i + 2 * k + 1] = y1;
  }
}

// per-term contribution modulo q_k
static inline uint64_t term_aa(uint64_t x, uint64_t y, int k) { return mulmod(x % QS[k], y % QS[k], QS[k]); }
static inline uint64_t term_bc(uint64_t x, uint32_t y0, uint32_t y1, int k) {
  return (mulmod((x & 0xFFFFFFFFull) % QS[k], y0 % QS[k], QS[k]) + mulmod((x >> 32) % QS[k], y1 % QS[k], QS[k])) % QS[k];
}

typedef void (*prod_f)(void*, uint64_t, void*, const void*, const void*);
struct PF { const char* name; int kind; prod_f f; };  // kind 0 baa 1 bbb 2 bbc 3 x2-1col 4 x2-2cols

static void run_product(Ctx& ctx, const PF& pf, int fam, void* pc, int sd, bool same = false) {
  Rng rng(ctx.args.seed * 7919 + fam * 131 + pf.kind);
  const int kind = pf.kind;
  const uint64_t xw = kind <= 2 ? 4 : 8;                       // uint64 per x element
  const uint64_t yw = kind <= 1 ? 4 : kind == 2 ? 4 : kind == 3 ? 8 : 16;  // uint64-equivalents per y element
  const int nres = kind <= 2 ? 1 : kind == 3 ? 2 : 4;
  GBuf X(L * xw * 8, 8), Y(L * yw * 8, 16), R(nres * 32, 24);
  if (kind == 0) { fill_a(X.as<uint64_t>(), L, fam, rng); fill_a(Y.as<uint64_t>(), L, (fam == F_SINGLE) ? F_ALLMAX : fam, rng); }
  else if (kind == 1) { fill_b(X.as<uint64_t>(), L, fam, rng); fill_b(Y.as<uint64_t>(), L, (fam == F_SINGLE) ? F_ALLMAX : fam, rng); }
  else { fill_b(X.as<uint64_t>(), L * (xw / 4), fam, rng); fill_c(Y.as<uint32_t>(), L * (yw / 4), (fam == F_SINGLE) ? F_ALLMAX : fam, rng); }
  // same: the two operands are ONE array passed twice (x == y by pointer: a sum of squares, or b words read as c words)
  if (same) { if (X.bytes != Y.bytes) return; memcpy(Y.p, X.p, X.bytes); }
  const void* ycall = same ? (const void*)X.p : (const void*)Y.p;
  std::vector<uint8_t> xs(X.p, X.p + X.bytes), ys(Y.p, Y.p + Y.bytes);
  // running sums modulo each prime for each result slot
  uint64_t acc[4][4] = {{0}};
  const uint64_t* x = X.as<uint64_t>(); const uint64_t* yb = Y.as<uint64_t>(); const uint32_t* yc = Y.as<uint32_t>();
  // chunked case ids: 100 ells per case; acc holds the exact sum of the terms < ell
  for (uint64_t lo = 0; lo <= L; lo += 100) {
    uint64_t hi = std::min<uint64_t>(L, lo + 99);
    std::string id = sfmt("product|%s|%s%s|seed+%d|ell=%llu..%llu", pf.name, FN[fam], same ? "|same pointer for both operands" : "", sd, (unsigned long long)lo, (unsigned long long)hi);
    bool run = ctx.want(id);
    if (run) ctx.begin_case(id);
    bool bad = false;
    for (uint64_t ell = lo; ell <= hi; ++ell) {
      if (run && !bad) {
        prefill(R.p, R.bytes, 1);
        pf.f(pc, ell, R.p, X.p, ycall);
        for (int s = 0; s < nres && !bad; ++s) for (int k = 0; k < 4; ++k) {
          uint64_t got = R.as<uint64_t>()[4 * s + k] % QS[k];
          if (got != acc[s][k]) { ctx.violation(id, sfmt("ell=%llu result %d lane %d is %llu mod q, exact sum is %llu", (unsigned long long)ell, s, k, (unsigned long long)got, (unsigned long long)acc[s][k])); bad = true; break; }
        }
      }
      if (ell == L) break;
      for (int k = 0; k < 4; ++k) {
        if (kind <= 1) acc[0][k] = (acc[0][k] + term_aa(x[4 * ell + k], yb[4 * ell + k], k)) % QS[k];
        else if (kind == 2) acc[0][k] = (acc[0][k] + term_bc(x[4 * ell + k], yc[8 * ell + 2 * k], yc[8 * ell + 2 * k + 1], k)) % QS[k];
        else if (kind == 3) for (int s = 0; s < 2; ++s) acc[s][k] = (acc[s][k] + term_bc(x[8 * ell + 4 * s + k], yc[16 * ell + 8 * s + 2 * k], yc[16 * ell + 8 * s + 2 * k + 1], k)) % QS[k];
        else for (int s = 0; s < 4; ++s) acc[s][k] = (acc[s][k] + term_bc(x[8 * ell + 4 * (s & 1) + k], yc[32 * ell + 8 * s + 2 * k], yc[32 * ell + 8 * s + 2 * k + 1], k)) % QS[k];
      }
    }
    if (run) {
      if (memcmp(X.p, xs.data(), X.bytes) || memcmp(Y.p, ys.data(), Y.bytes)) ctx.violation(id, "an operand was modified");
      if (!X.guards_ok() || !Y.guards_ok() || !R.guards_ok()) ctx.violation(id, "write outside a declared extent");
      ctx.metric_add(0, hi - lo + 1);
      ctx.end_case(fam != F_ZERO);
    }
  }
}

// ---- complete small scopes: every combination of boundary half-words for ell = 1, 2 (and 3 on a coarser alphabet) ----
// The carry logic between the partial sums of a product depends on the low / high halves of a few terms only: all of it is reached
// by very short vectors whose words are built from {0, 1, 2, 2^31, 2^32-2, 2^32-1} halves.
static void run_small_scope(Ctx& ctx, const PF& pf, void* pc, int ell) {
  std::string id = sfmt("scope|%s|ell=%d|all combinations of boundary half-words", pf.name, ell);
  if (!ctx.want(id)) return;
  ctx.begin_case(id);
  const int kind = pf.kind;
  const std::vector<uint32_t> H = ell <= 2 ? std::vector<uint32_t>{0u, 1u, 2u, 0x80000000u, 0xFFFFFFFEu, 0xFFFFFFFFu} : std::vector<uint32_t>{0u, 1u, 0xFFFFFFFFu};
  const uint64_t nh = H.size();
  // one term = (x word, y word); a-layout words are single 32-bit values, the others (hi, lo) / (y1, y0) pairs
  const uint64_t per_word = kind == 0 ? nh : nh * nh, per_term = per_word * per_word;
  uint64_t total = 1; for (int t = 0; t < ell; ++t) total *= per_term;
  const uint64_t xw = kind <= 2 ? 4 : 8, yw = kind <= 1 ? 4 : kind == 2 ? 4 : kind == 3 ? 8 : 16;
  const int nres = kind <= 2 ? 1 : kind == 3 ? 2 : 4;
  GBuf X(ell * xw * 8, 8), Y(ell * yw * 8, 16), R(nres * 32, 24);
  bool bad = false;
  for (uint64_t code = 0; code < total && !bad; ++code) {
    uint64_t c = code;
    uint64_t xv[3], yv[3];
    for (int t = 0; t < ell; ++t) {
      uint64_t cw = c % per_term; c /= per_term;
      uint64_t cx = cw % per_word, cy = cw / per_word;
      xv[t] = kind == 0 ? H[cx] : (((uint64_t)H[cx / nh]) << 32) | H[cx % nh];
      yv[t] = kind == 0 ? H[cy] : (((uint64_t)H[cy / nh]) << 32) | H[cy % nh];   // for the c layout: y1 in the high, y0 in the low half
    }
    for (int t = 0; t < ell; ++t) {
      for (uint64_t j = 0; j < xw; ++j) X.as<uint64_t>()[t * xw + j] = xv[t];
      if (kind <= 1) for (uint64_t j = 0; j < 4; ++j) Y.as<uint64_t>()[t * 4 + j] = yv[t];
      else for (uint64_t j = 0; j < yw; ++j) Y.as<uint64_t>()[t * yw + j] = yv[t];  // a uint64 holds the pair (y0 = low word, y1 = high word) of one prime
    }
    pf.f(pc, (uint64_t)ell, R.p, X.p, Y.p);
    for (int k = 0; k < 4 && !bad; ++k) {
      uint64_t want = 0;
      for (int t = 0; t < ell; ++t) want = (want + (kind <= 1 ? term_aa(xv[t], yv[t], k) : term_bc(xv[t], (uint32_t)yv[t], (uint32_t)(yv[t] >> 32), k))) % QS[k];
      for (int r = 0; r < nres; ++r) {
        uint64_t got = R.as<uint64_t>()[4 * r + k] % QS[k];
        if (got != want) { ctx.violation(id, sfmt("terms x=%llx,%llx,%llx y=%llx,%llx,%llx: result %d lane %d is %llu mod q, the exact sum is %llu", (unsigned long long)xv[0], (unsigned long long)(ell > 1 ? xv[1] : 0), (unsigned long long)(ell > 2 ? xv[2] : 0), (unsigned long long)yv[0], (unsigned long long)(ell > 1 ? yv[1] : 0), (unsigned long long)(ell > 2 ? yv[2] : 0), r, k, (unsigned long long)got, (unsigned long long)want)); bad = true; break; }
      }
    }
  }
  if (!X.guards_ok() || !Y.guards_ok() || !R.guards_ok()) ctx.violation(id, "write outside a declared extent");
  ctx.metric_add(2, total);
  ctx.end_case(true);
}

// ---- conversions ----
static std::vector<int64_t> int64_alphabet(Rng& r) {
  std::vector<int64_t> v = {0, 1, -1, INT64_C(1) << 31, -(INT64_C(1) << 31), INT64_C(1) << 32, -(INT64_C(1) << 32), INT64_C(1) << 62, -(INT64_C(1) << 62), INT64_MIN, INT64_MAX, INT64_MIN + 1};
  for (int k = 0; k < 4; ++k) for (int64_t d : {-1, 0, 1}) { v.push_back((int64_t)QS[k] + d); v.push_back(-(int64_t)QS[k] + d); v.push_back((int64_t)QS[k] * 3 + d); }
  for (int i = 0; i < 200; ++i) v.push_back((int64_t)r.next());
  return v;
}

static void run_conversions(Ctx& ctx) {
  Rng rng(ctx.args.seed + 99);
  std::vector<int64_t> A = int64_alphabet(rng);
  while (A.size() % 8) A.push_back(A.size());
  const uint64_t nn = A.size();
  const i128 Q = (i128)Q1 * Q2 * Q3 * Q4;
  {
    std::string id = "conversion|q120_b_from_znx64_simple + q120_b_to_znx128_simple|int64 alphabet";
    if (ctx.want(id)) {
      ctx.begin_case(id);
      GBuf x(nn * 8, 8), b(nn * 32, 16), z(nn * 16, 0);
      memcpy(x.p, A.data(), nn * 8);
      q120_b_from_znx64_simple(nn, (q120b*)b.p, x.as<int64_t>());
      for (uint64_t i = 0; i < nn; ++i) for (int k = 0; k < 4; ++k)
        if (b.as<uint64_t>()[4 * i + k] % QS[k] != smod(A[i], QS[k])) { ctx.violation(id, sfmt("b_from_znx64(%lld) lane %d not congruent to the input", (long long)A[i], k)); break; }
      q120_b_to_znx128_simple(nn, (__int128_t*)z.p, (q120b*)b.p);
      for (uint64_t i = 0; i < nn; ++i) { i128 g; memcpy(&g, z.p + 16 * i, 16); if (g != (i128)A[i]) { ctx.violation(id, sfmt("int64 -> b -> int128 is not the identity on %lld (got %s)", (long long)A[i], i128_str(g).c_str())); break; } }
      if (memcmp(x.p, A.data(), nn * 8)) ctx.violation(id, "input modified");
      ctx.end_case(true);
    }
  }
  {
    std::string id = "conversion|q120_c_from_znx64_simple|int64 alphabet";
    if (ctx.want(id)) {
      ctx.begin_case(id);
      GBuf x(nn * 8, 8), c(nn * 32, 16);
      memcpy(x.p, A.data(), nn * 8);
      q120_c_from_znx64_simple(nn, (q120c*)c.p, x.as<int64_t>());
      for (uint64_t i = 0; i < nn; ++i) for (int k = 0; k < 4; ++k) {
        uint64_t v = smod(A[i], QS[k]);
        if (c.as<uint32_t>()[8 * i + 2 * k] != v || c.as<uint32_t>()[8 * i + 2 * k + 1] != (v << 32) % QS[k]) { ctx.violation(id, sfmt("c_from_znx64(%lld) prime %d: not the canonical pair (x mod q, x 2^32 mod q)", (long long)A[i], k)); break; }
      }
      ctx.end_case(true);
    }
  }
  // lazy b lanes
  std::vector<uint64_t> Bl;
  for (int k = 0; k < 4; ++k) for (uint64_t v : std::vector<uint64_t>{0, 1, QS[k] - 1, QS[k], QS[k] + 1, UINT64_MAX, UINT64_MAX - 1, (UINT64_MAX / QS[k]) * QS[k] - 1, (UINT64_MAX / QS[k]) * QS[k], UINT64_C(1) << 63, (UINT64_C(1) << 63) - 1}) Bl.push_back(v);
  for (int i = 0; i < 100; ++i) Bl.push_back(rng.next());
  while (Bl.size() % 4) Bl.push_back(7);
  {
    std::string id = "conversion|q120_c_from_b_simple|lazy b lanes";
    if (ctx.want(id)) {
      ctx.begin_case(id);
      const uint64_t n2 = Bl.size();  // every alphabet value placed in every lane position
      GBuf b(n2 * 32, 8), c(n2 * 32, 16);
      for (uint64_t i = 0; i < n2; ++i) for (int k = 0; k < 4; ++k) b.as<uint64_t>()[4 * i + k] = Bl[(i + k) % n2];
      q120_c_from_b_simple(n2, (q120c*)c.p, (q120b*)b.p);
      for (uint64_t i = 0; i < n2; ++i) for (int k = 0; k < 4; ++k) {
        uint64_t v = b.as<uint64_t>()[4 * i + k] % QS[k];
        if (c.as<uint32_t>()[8 * i + 2 * k] != v || c.as<uint32_t>()[8 * i + 2 * k + 1] != (v << 32) % QS[k]) { ctx.violation(id, sfmt("c_from_b lane value %llu prime %d: not the canonical pair", (unsigned long long)b.as<uint64_t>()[4 * i + k], k)); break; }
      }
      ctx.end_case(true);
    }
  }
  {
    std::string id = "conversion|q120_add_bbb_simple|lazy b lanes (all pairs)";
    if (ctx.want(id)) {
      ctx.begin_case(id);
      const uint64_t n2 = Bl.size();
      GBuf x(n2 * 32, 8), y(n2 * 32, 16), r(n2 * 32, 24);
      for (uint64_t sh = 0; sh < n2; ++sh) {
        for (uint64_t i = 0; i < n2; ++i) for (int k = 0; k < 4; ++k) { x.as<uint64_t>()[4 * i + k] = Bl[i]; y.as<uint64_t>()[4 * i + k] = Bl[(i + sh) % n2]; }
        q120_add_bbb_simple(n2, (q120b*)r.p, (q120b*)x.p, (q120b*)y.p);
        for (uint64_t i = 0; i < n2; ++i) for (int k = 0; k < 4; ++k)
          if (r.as<uint64_t>()[4 * i + k] % QS[k] != (x.as<uint64_t>()[4 * i + k] % QS[k] + y.as<uint64_t>()[4 * i + k] % QS[k]) % QS[k]) { ctx.violation(id, sfmt("add_bbb(%llu,%llu) prime %d not congruent to the sum", (unsigned long long)x.as<uint64_t>()[4 * i + k], (unsigned long long)y.as<uint64_t>()[4 * i + k], k)); sh = n2; i = n2; break; }
      }
      ctx.end_case(true);
    }
  }
  {
    std::string id = "conversion|q120_add_ccc_simple|canonical c pairs (all pairs of the int64 alphabet)";
    if (ctx.want(id)) {
      ctx.begin_case(id);
      GBuf xi(nn * 8, 0), x(nn * 32, 8), y(nn * 32, 16), r(nn * 32, 24), yi(nn * 8, 0);
      memcpy(xi.p, A.data(), nn * 8);
      q120_c_from_znx64_simple(nn, (q120c*)x.p, xi.as<int64_t>());
      for (uint64_t sh = 0; sh < nn; ++sh) {
        for (uint64_t i = 0; i < nn; ++i) yi.as<int64_t>()[i] = A[(i + sh) % nn];
        q120_c_from_znx64_simple(nn, (q120c*)y.p, yi.as<int64_t>());
        q120_add_ccc_simple(nn, (q120c*)r.p, (q120c*)x.p, (q120c*)y.p);
        for (uint64_t i = 0; i < nn; ++i) for (int k = 0; k < 4; ++k) {
          uint64_t v = (smod(A[i], QS[k]) + smod(yi.as<int64_t>()[i], QS[k])) % QS[k];
          if (r.as<uint32_t>()[8 * i + 2 * k] % QS[k] != v || r.as<uint32_t>()[8 * i + 2 * k + 1] % QS[k] != (v << 32) % QS[k]) { ctx.violation(id, sfmt("add_ccc(%lld,%lld) prime %d not congruent to the sum", (long long)A[i], (long long)yi.as<int64_t>()[i], k)); sh = nn; i = nn; break; }
        }
      }
      ctx.end_case(true);
    }
  }
  {
    // every 32-bit lane content is a legal c lane (the products take unreduced c operands): all pairs of a lane alphabet that
    // contains 0, 1, q-1, q, q+1, 2q, the neighbours of 2^31, and the values whose pairwise sums hit 2^32-1, 2^32 and 2^32+1
    std::string id = "conversion|q120_add_ccc_simple|lazy c lanes (all pairs)";
    if (ctx.want(id)) {
      ctx.begin_case(id);
      bool bad = false;
      for (int k = 0; k < 4 && !bad; ++k) {
        const uint64_t q = QS[k];
        std::vector<uint32_t> L = {0u, 1u, 2u, (uint32_t)(q - 1), (uint32_t)q, (uint32_t)(q + 1), (uint32_t)(2 * q), 0x7FFFFFFFu, 0x80000000u, 0x80000001u,
                                   (uint32_t)(0x100000000ull - q - 1), (uint32_t)(0x100000000ull - q), (uint32_t)(0x100000000ull - q + 1), 0xFFFFFFFEu, 0xFFFFFFFFu};
        const uint64_t nl = L.size(), np = nl * nl;
        GBuf x(np * 32, 8), y(np * 32, 16), r(np * 32, 24);
        memset(x.p, 0, x.bytes); memset(y.p, 0, y.bytes);
        // pair (i, j) in element i*nl+j; even lane of prime k gets (L[i], L[j]), odd lane the swapped roles shifted by one
        for (uint64_t i = 0; i < nl; ++i) for (uint64_t j = 0; j < nl; ++j) {
          uint64_t e = i * nl + j;
          x.as<uint32_t>()[8 * e + 2 * k] = L[i]; y.as<uint32_t>()[8 * e + 2 * k] = L[j];
          x.as<uint32_t>()[8 * e + 2 * k + 1] = L[j]; y.as<uint32_t>()[8 * e + 2 * k + 1] = L[(i + 1) % nl];
        }
        q120_add_ccc_simple(np, (q120c*)r.p, (q120c*)x.p, (q120c*)y.p);
        for (uint64_t e = 0; e < np && !bad; ++e) for (int lane = 0; lane < 8; ++lane) {
          uint64_t want = ((uint64_t)x.as<uint32_t>()[8 * e + lane] + (uint64_t)y.as<uint32_t>()[8 * e + lane]) % QS[lane / 2];
          uint64_t got = r.as<uint32_t>()[8 * e + lane] % QS[lane / 2];
          if (got != want) { ctx.violation(id, sfmt("add_ccc lane %d (prime %d): %u + %u gives %u, which is %llu mod q instead of %llu", lane, lane / 2, x.as<uint32_t>()[8 * e + lane], y.as<uint32_t>()[8 * e + lane], r.as<uint32_t>()[8 * e + lane], (unsigned long long)got, (unsigned long long)want)); bad = true; break; }
        }
        if (!r.guards_ok() || !x.guards_ok() || !y.guards_ok()) { ctx.violation(id, "add_ccc wrote outside a declared extent"); bad = true; }
      }
      ctx.end_case(true);
    }
  }
  {
    std::string id = "conversion|q120_b_to_znx128_simple|centred representative (canonical and lazy lanes)";
    if (ctx.want(id)) {
      ctx.begin_case(id);
      std::vector<i128> Xs = {0, 1, -1, (Q - 1) / 2, -(Q - 1) / 2, (Q - 1) / 2 - 1, -(Q - 1) / 2 + 1, (i128)1 << 100, -((i128)1 << 100), (i128)INT64_MAX * 3, Q / 3};
      // values with equal small residues modulo a subset of the primes: t * prod(subset) + r (every subset of size 2 and 3)
      for (int mask = 1; mask < 16; ++mask) {
        if (__builtin_popcount(mask) < 2 || mask == 15) continue;
        i128 P = 1; for (int k = 0; k < 4; ++k) if (mask >> k & 1) P *= (i128)QS[k];
        for (i128 t : {(i128)1, (i128)-1, (i128)3, (i128)-5}) for (i128 r : {(i128)0, (i128)1, (i128)42, (i128)-7}) { i128 v = t * P + r; if (v <= (Q - 1) / 2 && v >= -(Q - 1) / 2) Xs.push_back(v); }
      }
      for (int i = 0; i < 200; ++i) { i128 v = (i128)((((u128)rng.next() << 64) | rng.next()) % (u128)Q); Xs.push_back(v - (Q - 1) / 2); }
      const uint64_t n3 = Xs.size();
      GBuf b(n3 * 32, 8), z(n3 * 16, 0);
      for (int lazy = 0; lazy < 3; ++lazy) {
        for (uint64_t i = 0; i < n3; ++i) for (int k = 0; k < 4; ++k) {
          uint64_t v = smod(Xs[i], QS[k]);
          if (lazy == 1) v += QS[k] * (rng.next() % ((~0ull - v) / QS[k]));      // random representative
          if (lazy == 2) v += QS[k] * ((~0ull - v) / QS[k]);                       // largest representative < 2^64
          b.as<uint64_t>()[4 * i + k] = v;
        }
        q120_b_to_znx128_simple(n3, (__int128_t*)z.p, (q120b*)b.p);
        for (uint64_t i = 0; i < n3; ++i) { i128 g; memcpy(&g, z.p + 16 * i, 16); if (g != Xs[i]) { ctx.violation(id, sfmt("lift of %s returned %s (lazy mode %d)", i128_str(Xs[i]).c_str(), i128_str(g).c_str(), lazy)); break; } }
      }
      ctx.end_case(true);
    }
  }
  // block extract / save: mutually inverse exact copies on every block index
  for (uint64_t nb : {2, 4, 8, 64, 1024}) {
    std::string id = sfmt("blocks|extract/save|nn=%llu|all block indices", (unsigned long long)nb);
    if (!ctx.want(id)) continue;
    ctx.begin_case(id);
    GBuf src(nb * 32 * 3, 8), dst(nb * 32, 16), blk(64 * 3, 24);
    for (uint64_t i = 0; i < nb * 12; ++i) src.as<uint64_t>()[i] = rng.next();
    std::vector<uint8_t> ss(src.p, src.p + src.bytes);
    for (uint64_t bi = 0; bi < nb / 2; ++bi) {
      prefill(dst.p, dst.bytes, 1);
      std::vector<uint8_t> d0(dst.p, dst.p + dst.bytes);
      q120x2_extract_1blk_from_q120b_ref(nb, bi, (q120x2b*)blk.p, (q120b*)src.p);
      if (memcmp(blk.p, src.p + 64 * bi, 64)) ctx.violation(id, sfmt("extract_from_q120b block %llu is not an exact copy", (unsigned long long)bi));
      q120x2b_save_1blk_to_q120b_ref(nb, bi, (q120b*)dst.p, (q120x2b*)blk.p);
      for (uint64_t o = 0; o < dst.bytes; ++o) { uint8_t e = (o >= 64 * bi && o < 64 * bi + 64) ? src.p[o] : d0[o]; if (dst.p[o] != e) { ctx.violation(id, sfmt("save block %llu: byte %llu wrong (save must write exactly the block)", (unsigned long long)bi, (unsigned long long)o)); break; } }
      q120x2_extract_1blk_from_q120c_ref(nb, bi, (q120x2c*)blk.p, (q120c*)src.p);
      if (memcmp(blk.p, src.p + 64 * bi, 64)) ctx.violation(id, sfmt("extract_from_q120c block %llu is not an exact copy", (unsigned long long)bi));
      for (uint64_t nrows = 0; nrows <= 3; ++nrows) {
        prefill(blk.p, blk.bytes, 2);
        q120x2_extract_1blk_from_contiguous_q120b_ref(nb, nrows, bi, (q120x2b*)blk.p, (q120b*)src.p);
        for (uint64_t r = 0; r < nrows; ++r) if (memcmp(blk.p + 64 * r, src.p + 32 * nb * r + 64 * bi, 64)) ctx.violation(id, sfmt("extract_from_contiguous block %llu row %llu is not an exact copy", (unsigned long long)bi, (unsigned long long)r));
        GBuf ref(64 * 3, 24); prefill(ref.p, ref.bytes, 2);
        if (memcmp(blk.p + 64 * nrows, ref.p + 64 * nrows, 64 * (3 - nrows))) ctx.violation(id, "extract_from_contiguous wrote beyond nrows blocks");
      }
    }
    if (memcmp(src.p, ss.data(), src.bytes)) ctx.violation(id, "source modified");
    if (!src.guards_ok() || !dst.guards_ok() || !blk.guards_ok()) ctx.violation(id, "write outside a declared extent");
    ctx.end_case(true);
  }
}

static void run_residue_sweep(Ctx& ctx, uint64_t part) {
  // EVERY residue: r = 0 .. 2^30-1 (all four primes are below 2^30) through both conversions into the c layout, in the canonical
  // form and as the largest 64-bit / int64 representative: lane 0 must be r mod q and lane 1 (r * 2^32) mod q
  {
    std::string id = sfmt("conversion|q120_c_from_b_simple + q120_c_from_znx64_simple|every residue|r in [%llu * 2^24, %llu * 2^24)", (unsigned long long)part, (unsigned long long)(part + 1));
    if (!ctx.want(id)) return;
    ctx.begin_case(id);
    const uint64_t CH = 1u << 12;
    GBuf b(CH * 32, 8), zi(CH * 8, 16), c1(CH * 32, 24), c2(CH * 32, 8);
    bool bad = false;
    for (uint64_t r0 = part << 24; r0 < ((part + 1) << 24) && !bad; r0 += CH) {
      for (uint64_t i = 0; i < CH; ++i) {
        const uint64_t r = r0 + i;
        for (int k = 0; k < 4; ++k) b.as<uint64_t>()[4 * i + k] = (i & 1) ? r + QS[k] * ((~0ull - r) / QS[k]) : r;  // odd positions: the largest representative below 2^64
        zi.as<int64_t>()[i] = (i & 2) ? (int64_t)r - (int64_t)(1ull << 62) : (int64_t)r;                         // a negative representative for half of them
      }
      q120_c_from_b_simple(CH, (q120c*)c1.p, (q120b*)b.p);
      q120_c_from_znx64_simple(CH, (q120c*)c2.p, zi.as<int64_t>());
      for (uint64_t i = 0; i < CH && !bad; ++i) for (int k = 0; k < 4; ++k) {
        const uint64_t q = QS[k], rb = b.as<uint64_t>()[4 * i + k] % q, rz = smod(zi.as<int64_t>()[i], q);
        const uint32_t* w1 = c1.as<uint32_t>() + 8 * i + 2 * k; const uint32_t* w2 = c2.as<uint32_t>() + 8 * i + 2 * k;
        if (w1[0] % q != rb || w1[1] % q != (rb << 32) % q) { ctx.violation(id, sfmt("c_from_b: lane value %llu (prime %d) gives (%u, %u), expected (%llu, %llu) mod q", (unsigned long long)b.as<uint64_t>()[4 * i + k], k, w1[0], w1[1], (unsigned long long)rb, (unsigned long long)((rb << 32) % q))); bad = true; break; }
        if (w2[0] % q != rz || w2[1] % q != (rz << 32) % q) { ctx.violation(id, sfmt("c_from_znx64: %lld (prime %d) gives (%u, %u), expected (%llu, %llu) mod q", (long long)zi.as<int64_t>()[i], k, w2[0], w2[1], (unsigned long long)rz, (unsigned long long)((rz << 32) % q))); bad = true; break; }
      }
    }
    if (!b.guards_ok() || !c1.guards_ok() || !c2.guards_ok() || !zi.guards_ok()) ctx.violation(id, "write outside a declared extent");
    ctx.metric_add(1, 1u << 24);
    ctx.end_case(true);
  }
}

int main(int argc, char** argv) {
  Args args = parse_args("C10", argc, argv, 300, 1800);
  Ctx ctx(args);
  ctx.name_metric(0, "ell_values_checked"); ctx.name_metric(1, "residues_swept"); ctx.name_metric(2, "small_scope_operand_tuples");
  static q120_mat1col_product_baa_precomp* paa = q120_new_vec_mat1col_product_baa_precomp();
  static q120_mat1col_product_bbb_precomp* pbb = q120_new_vec_mat1col_product_bbb_precomp();
  static q120_mat1col_product_bbc_precomp* pbc = q120_new_vec_mat1col_product_bbc_precomp();
  PF tab[] = {{"q120_vec_mat1col_product_baa_ref", 0, (prod_f)q120_vec_mat1col_product_baa_ref}, {"q120_vec_mat1col_product_baa_avx2", 0, (prod_f)q120_vec_mat1col_product_baa_avx2},
              {"q120_vec_mat1col_product_bbb_ref", 1, (prod_f)q120_vec_mat1col_product_bbb_ref}, {"q120_vec_mat1col_product_bbb_avx2", 1, (prod_f)q120_vec_mat1col_product_bbb_avx2},
              {"q120_vec_mat1col_product_bbc_ref", 2, (prod_f)q120_vec_mat1col_product_bbc_ref}, {"q120_vec_mat1col_product_bbc_avx2", 2, (prod_f)q120_vec_mat1col_product_bbc_avx2},
              {"q120x2_vec_mat1col_product_bbc_ref", 3, (prod_f)q120x2_vec_mat1col_product_bbc_ref}, {"q120x2_vec_mat1col_product_bbc_avx2", 3, (prod_f)q120x2_vec_mat1col_product_bbc_avx2},
              {"q120x2_vec_mat2cols_product_bbc_ref", 4, (prod_f)q120x2_vec_mat2cols_product_bbc_ref}, {"q120x2_vec_mat2cols_product_bbc_avx2", 4, (prod_f)q120x2_vec_mat2cols_product_bbc_avx2}};
  const int nf = sizeof(tab) / sizeof(tab[0]);
  int nseeds = args.thorough() ? 4 : 1;
  ctx.parallel((uint64_t)nf * NFAM * nseeds, [&](uint64_t i) {
    const PF& pf = tab[i % nf];
    int fam = (int)((i / nf) % NFAM);
    int sd = (int)(i / nf / NFAM);
    if (sd > 0 && fam >= F_ALLMAX) return;  // deterministic families need no second seed
    Ctx& c = ctx;
    uint64_t save = c.args.seed; c.args.seed = save + 1000 * sd;
    void* pc = pf.kind == 0 ? (void*)paa : pf.kind == 1 ? (void*)pbb : (void*)pbc;
    run_product(c, pf, fam, pc, sd);
    c.args.seed = save;
  }, "products");
  ctx.parallel((uint64_t)nf * NFAM, [&](uint64_t i) {
    const PF& pf = tab[i % nf];
    if (pf.kind == 4) return;  // operands of different extents
    run_product(ctx, pf, (int)(i / nf), pf.kind == 0 ? (void*)paa : pf.kind == 1 ? (void*)pbb : (void*)pbc, 0, true);
  }, "products, one array passed as both operands");
  ctx.parallel((uint64_t)nf * 3, [&](uint64_t i) { const PF& pf = tab[i % nf]; run_small_scope(ctx, pf, pf.kind == 0 ? (void*)paa : pf.kind == 1 ? (void*)pbb : (void*)pbc, (int)(i / nf) + 1); }, "complete small scopes");
  ctx.parallel(1, [&](uint64_t) { run_conversions(ctx); }, "conversions");
  ctx.parallel(64, [&](uint64_t part) { run_residue_sweep(ctx, part); }, "c-layout conversions on every residue");
  ctx.assumptions = {"default 30-bit prime set", "c-layout operands that are not canonical pairs are judged against the defined value x_lo*y0 + x_hi*y1",
                     "ell in [0, 10000] (MAX_ELL)"};
  return ctx.finish("exploration",
                    "every ell in 0..10000 (grouped 100 per case id) x 10 product functions x 6 operand families (seeded canonical / lazy, all-maximal, alternating, single maximal, zero), the same with ONE array passed as both operands; "
                    "conversions on an int64 / lazy-lane alphabet incl. all pairs for the additions; centred lift on boundary and seeded 120-bit values in 3 lane representations; "
                    "block extract/save on every block index; non-trivial unless all operands are zero; distinct = distinct case ids",
                    true);
}
