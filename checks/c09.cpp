// C09 — rotation, automorphism and (X^p - 1) product are the ring maps for every p.
// Engine A, exhaustive in p: every N = 2^0..2^12 (quick) / 2^16 (thorough) x every residue p mod 2N
// (every odd residue for automorphisms) x 11 kernels, plus far-away representatives of residue
// classes, a complete data-independence scope (N <= 8, all vectors over {-1,0,1,2}) and the vector /
// big wrappers on a shape box with all p.  Oracle: the ring map from its definition.
#include "../harness/apiops.hpp"
extern "C" {
#include "coeffs/coeffs_arithmetic.h"
}
using namespace vf;

enum Kern { ZROT, ZROT_IN, RROT, RROT_IN, ZMX, RMX, RMX_IN, ZAUT, ZAUT_IN, RAUT, RAUT_IN, NKERN };
static const char* KN[] = {"znx_rotate_i64", "znx_rotate_inplace_i64", "rnx_rotate_f64", "rnx_rotate_inplace_f64", "znx_mul_xp_minus_one",
                           "rnx_mul_xp_minus_one", "rnx_mul_xp_minus_one_inplace", "znx_automorphism_i64", "znx_automorphism_inplace_i64",
                           "rnx_automorphism_f64", "rnx_automorphism_inplace_f64"};
static bool is_aut(int k) { return k >= ZAUT; }
static bool is_mx(int k) { return k == ZMX || k == RMX || k == RMX_IN; }
static bool is_dbl(int k) { return k == RROT || k == RROT_IN || k == RMX || k == RMX_IN || k == RAUT || k == RAUT_IN; }
static bool is_inplace(int k) { return k == ZROT_IN || k == RROT_IN || k == RMX_IN || k == ZAUT_IN || k == RAUT_IN; }

static void call_kernel(int k, uint64_t nn, int64_t p, void* res, const void* in) {
  switch (k) {
    case ZROT: znx_rotate_i64(nn, p, (int64_t*)res, (const int64_t*)in); break;
    case ZROT_IN: znx_rotate_inplace_i64(nn, p, (int64_t*)res); break;
    case RROT: rnx_rotate_f64(nn, p, (double*)res, (const double*)in); break;
    case RROT_IN: rnx_rotate_inplace_f64(nn, p, (double*)res); break;
    case ZMX: znx_mul_xp_minus_one(nn, p, (int64_t*)res, (const int64_t*)in); break;
    case RMX: rnx_mul_xp_minus_one(nn, p, (double*)res, (const double*)in); break;
    case RMX_IN: rnx_mul_xp_minus_one_inplace(nn, p, (double*)res); break;
    case ZAUT: znx_automorphism_i64(nn, p, (int64_t*)res, (const int64_t*)in); break;
    case ZAUT_IN: znx_automorphism_inplace_i64(nn, p, (int64_t*)res); break;
    case RAUT: rnx_automorphism_f64(nn, p, (double*)res, (const double*)in); break;
    case RAUT_IN: rnx_automorphism_inplace_f64(nn, p, (double*)res); break;
  }
}

// expected image of probe `v` under the map of kernel k with parameter p (exact integers)
static void expected(int k, uint64_t N, int64_t p, const std::vector<int64_t>& v, std::vector<int64_t>& e, std::vector<int64_t>& tmp) {
  e.resize(N);
  if (is_aut(k)) ref_automorphism(N, p, e.data(), v.data());
  else if (is_mx(k)) { tmp.resize(N); ref_rotate(N, p, tmp.data(), v.data()); for (uint64_t i = 0; i < N; ++i) e[i] = tmp[i] - v[i]; }
  else ref_rotate(N, p, e.data(), v.data());
}

struct Work { uint64_t N; int kern; uint64_t p0, p1; };  // residues [p0,p1)

static std::vector<int64_t> probe_for(int k, uint64_t N) {
  std::vector<int64_t> v(N);
  if (is_mx(k)) { int64_t x = 1; for (uint64_t j = 0; j < N; ++j) { v[j] = x; x = (x * 3) & ((INT64_C(1) << 40) - 1); } }
  else for (uint64_t j = 0; j < N; ++j) v[j] = (int64_t)j + 1;
  return v;
}

static void run_one(Ctx& ctx, int k, uint64_t N, int64_t p, const std::vector<int64_t>& v, GBuf& in, GBuf& out, std::vector<int64_t>& e, std::vector<int64_t>& tmp, const char* tag) {
  std::string id = sfmt("%s|N=%llu|p=%lld%s", KN[k], (unsigned long long)N, (long long)p, tag);
  if (!ctx.want(id)) return;
  ctx.begin_case(id);
  const bool d = is_dbl(k), ip = is_inplace(k);
  void* src = ip ? out.p : in.p;
  if (d) for (uint64_t j = 0; j < N; ++j) ((double*)src)[j] = (double)v[j]; else memcpy(src, v.data(), N * 8);
  if (!ip) prefill(out.p, N * 8, 1);
  call_kernel(k, N, p, out.p, in.p);
  expected(k, N, p, v, e, tmp);
  for (uint64_t j = 0; j < N; ++j) {
    bool ok = d ? (((double*)out.p)[j] == (double)e[j]) : (((int64_t*)out.p)[j] == e[j]);
    if (!ok) {
      ctx.violation(id, d ? sfmt("coefficient %llu is %.17g, the ring map gives %lld", (unsigned long long)j, ((double*)out.p)[j], (long long)e[j])
                          : sfmt("coefficient %llu is %lld, the ring map gives %lld", (unsigned long long)j, (long long)((int64_t*)out.p)[j], (long long)e[j]));
      break;
    }
  }
  if (!ip) { bool same = d ? true : memcmp(in.p, v.data(), N * 8) == 0; if (!same) ctx.violation(id, "input modified"); }
  if (!in.guards_ok() || !out.guards_ok()) ctx.violation(id, "write outside the nn coefficients");
  ctx.end_case(N > 1 || (p & 1));
}

static void run_work(Ctx& ctx, const Work& w) {
  const uint64_t N = w.N; const int k = w.kern;
  std::vector<int64_t> v = probe_for(k, N), e, tmp;
  std::vector<int64_t> vs = v; for (uint64_t j = 1; j < N; j += 3) vs[j] = 0;
  GBuf in(N * 8, 8), out(N * 8, 24);
  for (uint64_t r = w.p0; r < w.p1; ++r) {
    if (is_aut(k) && !(r & 1)) continue;
    run_one(ctx, k, N, (int64_t)r, v, in, out, e, tmp, "");
    run_one(ctx, k, N, (int64_t)r, vs, in, out, e, tmp, "|sparse");  // the same probe with every third coefficient zero (output prefilled with a non-zero pattern)
    // other representatives of the residue class
    bool all_classes = N <= 64;
    bool sel = all_classes || r == 0 || r == 1 || r == N - 1 || r == N || r == N + 1 || r == 2 * N - 1;
    if (sel) {
      const i128 M = (i128)2 * N;
      std::vector<i128> reps = {(i128)r - M, (i128)r + M, (i128)r + M * ((i128)1 << 40), (i128)r - M * ((i128)1 << 40)};
      const i128 top = ((i128)1 << 63) - 1;
      i128 hi = top - ((top - (i128)r) % M + M) % M;        // largest representative <= 2^63-1
      i128 lo = -top + (((i128)r + top) % M + M) % M;       // smallest representative >= -(2^63-1)
      reps.push_back(hi); reps.push_back(lo);
      for (i128 q : reps) if (q <= top && q >= -top) run_one(ctx, k, N, (int64_t)q, v, in, out, e, tmp, "|rep");
    }
  }
}

// sampled layer above the exhaustive bound: the statement holds for every N = 2^k, and the coefficient kernels take any nn - ring
// dimensions up to 2^22 (2^24 thorough) with a list of exponents chosen to expose index arithmetic of limited width (inverses, products
// j*p, masks): small odd / even p, the neighbours of N/2, N, 3N/2, 2N, exponents with long carry patterns, far representatives
static void run_sampled(Ctx& ctx, uint64_t N, int k) {
  std::vector<int64_t> v = probe_for(k, N), e, tmp;
  std::vector<int64_t> vs = v; for (uint64_t j = 1; j < N; j += 3) vs[j] = 0;
  GBuf in(N * 8, 8), out(N * 8, 24);
  const int64_t n = (int64_t)N;
  std::vector<int64_t> ps = {1, 3, 5, 7, 25, -3, -1, n - 1, n + 1, 2 * n - 1, 2 * n + 1, n / 2 + 1, n / 2 - 1, 3 * n / 2 + 1, 1234567, 0x155555, 0x0AAAAB, INT64_C(0x5555555555555555), INT64_C(0x2AAAAAAAAAAAAAAB),
                             INT64_C(0x7FFFFFFFFFFFFFFF), -INT64_C(0x7FFFFFFFFFFFFFFF), INT64_C(0x100000001), -(INT64_C(1) << 40) + 1};
  if (!is_aut(k)) for (int64_t q : {(int64_t)0, (int64_t)2, n, n / 2, 2 * n, 2 * n - 2, (int64_t)1234568, INT64_C(0x5555555555555554), -(INT64_C(1) << 40)}) ps.push_back(q);
  for (int64_t p : ps) {
    run_one(ctx, k, N, p, v, in, out, e, tmp, "|sampled");
    if ((p & 7) == 3 || p == n + 1) run_one(ctx, k, N, p, vs, in, out, e, tmp, "|sampled|sparse");
  }
}

// complete data-independence scope: N <= 8, all p, all vectors over {-1,0,1,2}
static void run_scope(Ctx& ctx, uint64_t N, int k) {
  std::vector<int64_t> v(N), e, tmp;
  GBuf in(N * 8, 8), out(N * 8, 24);
  uint64_t total = 1; for (uint64_t i = 0; i < N; ++i) total *= 4;
  for (uint64_t r = 0; r < 2 * N; ++r) {
    if (is_aut(k) && !(r & 1)) continue;
    std::string id = sfmt("scope|%s|N=%llu|p=%llu|all vectors over {-1,0,1,2}", KN[k], (unsigned long long)N, (unsigned long long)r);
    if (!ctx.want(id)) continue;
    ctx.begin_case(id);
    const bool d = is_dbl(k), ip = is_inplace(k);
    for (uint64_t code = 0; code < total; ++code) {
      uint64_t c = code; for (uint64_t j = 0; j < N; ++j) { v[j] = (int64_t)(c & 3) - 1; c >>= 2; }
      void* src = ip ? out.p : in.p;
      if (d) for (uint64_t j = 0; j < N; ++j) ((double*)src)[j] = (double)v[j]; else memcpy(src, v.data(), N * 8);
      call_kernel(k, N, (int64_t)r, out.p, in.p);
      expected(k, N, (int64_t)r, v, e, tmp);
      bool ok = true;
      for (uint64_t j = 0; j < N && ok; ++j) ok = d ? (((double*)out.p)[j] == (double)e[j]) : (((int64_t*)out.p)[j] == e[j]);
      if (!ok) { ctx.violation(id, sfmt("vector code %llu maps to a different polynomial than the ring map", (unsigned long long)code)); break; }
    }
    ctx.metric_add(0, total);
    ctx.end_case(true);
  }
}

// vector wrappers on a shape box, all p
static void run_wrappers(Ctx& ctx, uint64_t N, const CpuCfg& cfg, int mtype) {
  MODULE* mod = get_module(N, mtype ? NTT120 : FFT64, cfg);
  ExecResult r;
  for (int opi = 0; opi < NVECOPS; ++opi) {
    const VecOp& op = VECOPS[opi];
    if (!op.has_p || (mtype == 1 && op.fft64_only)) continue;
    for (int64_t p = -2; p < (int64_t)(2 * N + 2); ++p) {
      if (op.model == 'a' && !(p & 1)) continue;
      for (uint64_t rs = 0; rs <= 3; ++rs) for (uint64_t as = 0; as <= 3; ++as) for (uint64_t sl : {N, N + 3}) {
        for (int layout = 0; layout < 3; ++layout) {
          // 0: separate buffers; 1: in place (same pointer, same stride); 2: same pointer, a_sl = 2N (+3), res_sl = N (compaction:
          //    limb 0 in place, the others out of place - the per-limb choice of the wrappers)
          VecShape s; s.N = N; s.rs = rs; s.as = as; s.p = p;
          if (layout == 0) { s.rsl = sl; s.asl = (sl == N ? N + 3 : N); s.res_extra = 1; }
          else if (layout == 1) { s.rsl = s.asl = sl; s.alias = AL_RES_A; }
          else { s.rsl = N; s.asl = 2 * N + (sl == N ? 0 : 3); s.alias = AL_RES_A_COMPACT; }
          VecShape sc = canon_shape(op, s);
          if (!alias_ok(op, sc)) continue;
          ApiCase c = gen_vecop(mod, op, sc, mtype ? "ntt120" : "fft64", cfg.name);
          if (!ctx.want(c.id)) continue;
          ctx.begin_case(c.id);
          ExecOpts o; o.prefill = 2;
          execute(c, o, r);
          std::string err = judge_model(c, r);
          if (!err.empty()) ctx.violation(c.id, err);
          ctx.end_case(c.nontrivial);
        }
      }
    }
  }
}

int main(int argc, char** argv) {
  Args args = parse_args("C09", argc, argv, 300, 1800);
  Ctx ctx(args);
  const bool th = args.thorough();
  const unsigned maxlog = th ? 16 : 12;
  ctx.name_metric(0, "scope_vectors");
  std::vector<Work> work;
  for (int lg = (int)maxlog; lg >= 0; --lg) {
    uint64_t N = 1ull << lg;
    uint64_t chunk = N >= 4096 ? std::max<uint64_t>(1, (1ull << 22) / N) : 2 * N;  // ~4M coefficient moves per work item
    for (int k = 0; k < NKERN; ++k) {
      if (is_aut(k) && N < 2) continue;
      for (uint64_t p0 = 0; p0 < 2 * N; p0 += chunk) work.push_back({N, k, p0, std::min(2 * N, p0 + chunk)});
    }
  }
  ctx.parallel(work.size(), [&](uint64_t i) { run_work(ctx, work[i]); }, "kernels, all residues");
  struct S { uint64_t N; int k; };
  std::vector<S> sm;
  const unsigned samplog = th ? 24 : 22;
  for (unsigned lg = samplog; lg > maxlog; --lg) for (int k = 0; k < NKERN; ++k) sm.push_back({1ull << lg, k});
  ctx.parallel(sm.size(), [&](uint64_t i) { run_sampled(ctx, sm[i].N, sm[i].k); }, "kernels above the exhaustive bound, sampled exponents");
  std::vector<S> sc;
  for (uint64_t N : {1, 2, 4, 8}) for (int k = 0; k < NKERN; ++k) { if (is_aut(k) && N < 2) continue; sc.push_back({N, k}); }
  ctx.parallel(sc.size(), [&](uint64_t i) { run_scope(ctx, sc[sc.size() - 1 - i].N, sc[sc.size() - 1 - i].k); }, "data-independence scope");
  struct W { uint64_t N; CpuCfg cfg; int mt; };
  std::vector<W> ws;
  for (uint64_t N : {32, 16, 8, 4, 2}) for (auto& c : cfgs(th)) for (int mt = 0; mt < 2; ++mt) ws.push_back({N, c, mt});
  ctx.parallel(ws.size(), [&](uint64_t i) { run_wrappers(ctx, ws[i].N, ws[i].cfg, ws[i].mt); }, "vector wrappers");
  ctx.assumptions = {"p in (-2^63, 2^63) (INT64_MIN excluded by the property)", "the kernels contain only index arithmetic (no branch or address depends on coefficient values), so one injective probe per (N,p) determines the signed permutation; checked by the complete scope N<=8",
                     "rnx variants are exercised on integers exactly representable as doubles (the maps only move and negate)"};
  Json ex = Json::obj();
  ex.set("max_log2_N_exhaustive", (int)maxlog).set("max_log2_N_sampled", (int)samplog).set("kernels", (int)NKERN);
  return ctx.finish("exploration",
                    "every N = 2^0..2^maxlog x every residue p mod 2N (odd residues for automorphisms) x 11 kernels, plus 6 far representatives per residue class (all classes for N<=64, 6 classes otherwise), "
                    "N = 2^(maxlog+1)..2^22 (2^24 thorough) x 23-32 sampled exponents x 11 kernels, "
                    "complete scope N<=8 x all p x all vectors over {-1,0,1,2}, vector/big wrappers x all p x shapes; non-trivial unless N=1 and p even; distinct = distinct case ids",
                    true, ex);
}
