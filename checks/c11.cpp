// C11 — memory contract: declared extents and *_tmp_bytes scratch are never exceeded.
// Engine A under AddressSanitizer: every case of the entry-point and kernel tables runs with heap
// buffers of exactly the declared extent (scratch exactly *_tmp_bytes, opaque objects exactly
// bytes_of_*), four times with rotating pointer offsets (0/8/16/24 bytes per buffer) and three
// prefill patterns of outputs and scratch.  Oracles: no sanitizer report / signal (fork-isolated,
// attributed to the case), nothing outside the written extent changes, outputs independent of the
// prefill and of the offsets, every new_*/delete_* pair releases what it allocated.
#include "../harness/apitable.hpp"
#include "../harness/kernels.hpp"
#include "../harness/ctorops.hpp"
#include "../harness/lsm_explore.hpp"
#include "../harness/hugestride.hpp"
extern "C" {
#include "reim4/reim4_fftvec_public.h"
}
using namespace vf;

static void four_runs(Ctx& ctx, ApiCase& c, int noff) {
  if (!ctx.want(c.id)) return;
  ctx.begin_case(c.id);
  ExecResult r[8];
  std::string err;
  int nruns = std::max(noff, 4);
  for (int k = 0; k < nruns && err.empty(); ++k) {
    ExecOpts o;
    o.prefill = k % 3;
    for (int i = 0; i < 12; ++i) o.off[i] = 8 * ((i + k) % noff);
    execute(c, o, r[k]);
    err = judge_model(c, r[k]);
    if (err.empty() && k > 0) err = diff_outputs(c, r[0], r[k], sfmt("between prefill/offset run 0 and run %d (result depends on uninitialised memory or alignment)", k).c_str(), true);
  }
  if (!err.empty()) ctx.violation(c.id, err);
  ctx.end_case(c.nontrivial);
}

// ---- constructor / destructor balance ----
template <class N, class D> static void balance(Ctx& ctx, const std::string& id, N mk, D del) {
  if (!ctx.want(id)) return;
  ctx.begin_case(id);
  AllocTrack& at = alloc_track();
  at.reset();
  at.on = 1;
  auto* obj = mk();
  long after_new = at.live_blocks();
  if (obj) del(obj);
  at.on = 0;
  if (!obj) ctx.violation(id, "constructor returned NULL");
  else if (at.live_blocks() != 0) ctx.violation(id, sfmt("%ld of %ld blocks allocated by the constructor are still live after delete (%zu bytes leaked)", at.live_blocks(), after_new, at.live_bytes()));
  else if (at.unknown_frees) ctx.violation(id, "delete freed a pointer the constructor did not allocate");
  ctx.metric_add(0, (uint64_t)after_new);
  ctx.end_case(after_new > 0);
  at.reset();
}

static void run_balance(Ctx& ctx, uint64_t m) {
  const unsigned long long M = m;
  for (int cfgi = 0; cfgi < 2; ++cfgi) {
    const CpuCfg& cfg = cfgi ? CFG_GENERIC : CFG_NATIVE;
    set_cfg(cfg);
    const char* cn = cfg.name;
    if (m >= 2) {
      balance(ctx, sfmt("balance|new_module_info(FFT64)|%s|N=%llu", cn, M), [&] { return new_module_info(m, FFT64); }, [](MODULE* p) { delete_module_info(p); });
      balance(ctx, sfmt("balance|new_module_info(NTT120)|%s|N=%llu", cn, M), [&] { return new_module_info(m, NTT120); }, [](MODULE* p) { delete_module_info(p); });
    }
    for (uint32_t nb : {0u, 2u}) {
      balance(ctx, sfmt("balance|new_reim_fft_precomp|%s|m=%llu|bufs=%u", cn, M, nb), [&] { return new_reim_fft_precomp(m, nb); }, [](REIM_FFT_PRECOMP* p) { delete_reim_fft_precomp(p); });
      balance(ctx, sfmt("balance|new_reim_ifft_precomp|%s|m=%llu|bufs=%u", cn, M, nb), [&] { return new_reim_ifft_precomp(m, nb); }, [](REIM_IFFT_PRECOMP* p) { delete_reim_ifft_precomp(p); });
      balance(ctx, sfmt("balance|new_cplx_fft_precomp|%s|m=%llu|bufs=%u", cn, M, nb), [&] { return new_cplx_fft_precomp(m, nb); }, [](CPLX_FFT_PRECOMP* p) { free(p); });
      balance(ctx, sfmt("balance|new_cplx_ifft_precomp|%s|m=%llu|bufs=%u", cn, M, nb), [&] { return new_cplx_ifft_precomp(m, nb); }, [](CPLX_IFFT_PRECOMP* p) { free(p); });
    }
    balance(ctx, sfmt("balance|new_reim_fftvec_mul_precomp|%s|m=%llu", cn, M), [&] { return new_reim_fftvec_mul_precomp(m); }, [](REIM_FFTVEC_MUL_PRECOMP* p) { free(p); });
    balance(ctx, sfmt("balance|new_reim_fftvec_addmul_precomp|%s|m=%llu", cn, M), [&] { return new_reim_fftvec_addmul_precomp(m); }, [](REIM_FFTVEC_ADDMUL_PRECOMP* p) { free(p); });
    balance(ctx, sfmt("balance|new_cplx_fftvec_mul_precomp|%s|m=%llu", cn, M), [&] { return new_cplx_fftvec_mul_precomp(m); }, [](CPLX_FFTVEC_MUL_PRECOMP* p) { free(p); });
    balance(ctx, sfmt("balance|new_cplx_fftvec_addmul_precomp|%s|m=%llu", cn, M), [&] { return new_cplx_fftvec_addmul_precomp(m); }, [](CPLX_FFTVEC_ADDMUL_PRECOMP* p) { free(p); });
    balance(ctx, sfmt("balance|new_reim_from_znx64_precomp|%s|m=%llu", cn, M), [&] { return new_reim_from_znx64_precomp(m, 50); }, [](REIM_FROM_ZNX64_PRECOMP* p) { free(p); });
    balance(ctx, sfmt("balance|new_reim_to_znx64_precomp|%s|m=%llu", cn, M), [&] { return new_reim_to_znx64_precomp(m, 4.0, 63); }, [](REIM_TO_ZNX64_PRECOMP* p) { free(p); });
    balance(ctx, sfmt("balance|new_reim_to_tnx_precomp|%s|m=%llu", cn, M), [&] { return new_reim_to_tnx_precomp(m, 4.0, 18); }, [](REIM_TO_TNX_PRECOMP* p) { free(p); });
    balance(ctx, sfmt("balance|new_cplx_from_znx32_precomp|%s|m=%llu", cn, M), [&] { return new_cplx_from_znx32_precomp(m); }, [](CPLX_FROM_ZNX32_PRECOMP* p) { free(p); });
    balance(ctx, sfmt("balance|new_cplx_from_tnx32_precomp|%s|m=%llu", cn, M), [&] { return new_cplx_from_tnx32_precomp(m); }, [](CPLX_FROM_TNX32_PRECOMP* p) { free(p); });
    balance(ctx, sfmt("balance|new_cplx_to_tnx32_precomp|%s|m=%llu", cn, M), [&] { return new_cplx_to_tnx32_precomp(m, 4.0, 18); }, [](CPLX_TO_TNX32_PRECOMP* p) { free(p); });
    if (m >= 4) {
      balance(ctx, sfmt("balance|new_reim4_fftvec_mul_precomp|%s|m=%llu", cn, M), [&] { return new_reim4_fftvec_mul_precomp(m); }, [](REIM4_FFTVEC_MUL_PRECOMP* p) { free(p); });
      balance(ctx, sfmt("balance|new_reim4_fftvec_addmul_precomp|%s|m=%llu", cn, M), [&] { return new_reim4_fftvec_addmul_precomp(m); }, [](REIM4_FFTVEC_ADDMUL_PRECOMP* p) { free(p); });
      balance(ctx, sfmt("balance|new_reim4_from_cplx_precomp|%s|m=%llu", cn, M), [&] { return new_reim4_from_cplx_precomp(m); }, [](REIM4_FROM_CPLX_PRECOMP* p) { free(p); });
      balance(ctx, sfmt("balance|new_reim4_to_cplx_precomp|%s|m=%llu", cn, M), [&] { return new_reim4_to_cplx_precomp(m); }, [](REIM4_TO_CPLX_PRECOMP* p) { free(p); });
    }
    set_cfg(CFG_NATIVE);
  }
  balance(ctx, sfmt("balance|q120_new_ntt_bb_precomp|n=%llu", M), [&] { return q120_new_ntt_bb_precomp(m); }, [](q120_ntt_precomp* p) { q120_del_ntt_bb_precomp(p); });
  balance(ctx, sfmt("balance|q120_new_intt_bb_precomp|n=%llu", M), [&] { return q120_new_intt_bb_precomp(m); }, [](q120_ntt_precomp* p) { q120_del_intt_bb_precomp(p); });
  if (m == 1) {
    balance(ctx, "balance|q120_new_vec_mat1col_product_baa_precomp", [&] { return q120_new_vec_mat1col_product_baa_precomp(); }, [](q120_mat1col_product_baa_precomp* p) { q120_delete_vec_mat1col_product_baa_precomp(p); });
    balance(ctx, "balance|q120_new_vec_mat1col_product_bbb_precomp", [&] { return q120_new_vec_mat1col_product_bbb_precomp(); }, [](q120_mat1col_product_bbb_precomp* p) { q120_delete_vec_mat1col_product_bbb_precomp(p); });
    balance(ctx, "balance|q120_new_vec_mat1col_product_bbc_precomp", [&] { return q120_new_vec_mat1col_product_bbc_precomp(); }, [](q120_mat1col_product_bbc_precomp* p) { q120_delete_vec_mat1col_product_bbc_precomp(p); });
  }
  if (m >= 2 && m <= 64) {
    MODULE* mod = get_module(m, FFT64, CFG_NATIVE);
    for (uint64_t size : {0, 1, 3}) {
      balance(ctx, sfmt("balance|new_vec_znx_dft|N=%llu|size=%llu", M, (unsigned long long)size), [&] { return new_vec_znx_dft(mod, size); }, [](VEC_ZNX_DFT* p) { delete_vec_znx_dft(p); });
      balance(ctx, sfmt("balance|new_vec_znx_big|N=%llu|size=%llu", M, (unsigned long long)size), [&] { return new_vec_znx_big(mod, size); }, [](VEC_ZNX_BIG* p) { delete_vec_znx_big(p); });
      balance(ctx, sfmt("balance|new_vmp_pmat|N=%llu|%llux2", M, (unsigned long long)size), [&] { return new_vmp_pmat(mod, size, 2); }, [](VMP_PMAT* p) { delete_vmp_pmat(p); });
    }
    balance(ctx, sfmt("balance|new_svp_ppol|N=%llu", M), [&] { return new_svp_ppol(mod); }, [](SVP_PPOL* p) { delete_svp_ppol(p); });
  }
}

// buffers that live inside a transform table (new_*_precomp(m, num_buffers) + *_precomp_get_buffer): each one must be a
// usable, 2m-double region inside the table's allocation, disjoint from the twiddles and from the other buffers
static void run_precomp_buffers(Ctx& ctx, uint64_t m) {
  // malloc promises 16-byte alignment only: the table is built on blocks starting at 0, 16, 32 and 48 modulo 64 (the wrapped allocator
  // decides it; the end of the block stays the end of the underlying allocation, so an overrun is still seen by the sanitizer)
  for (int which = 0; which < 4; ++which) for (uint32_t nb : {1u, 2u, 3u}) for (int res64 : {0, 16, 32, 48}) {
    static const char* nm[] = {"reim_fft", "reim_ifft", "cplx_fft", "cplx_ifft"};
    std::string id = sfmt("precomp-buffers|new_%s_precomp|m=%llu|num_buffers=%u|malloc at %d mod 64", nm[which], (unsigned long long)m, nb, res64);
    if (!ctx.want(id)) continue;
    ctx.begin_case(id);
    alloc_track().residue = res64;
    void* pc = which == 0 ? (void*)new_reim_fft_precomp(m, nb) : which == 1 ? (void*)new_reim_ifft_precomp(m, nb) : which == 2 ? (void*)new_cplx_fft_precomp(m, nb) : (void*)new_cplx_ifft_precomp(m, nb);
    alloc_track().residue = -1;
    auto buf = [&](uint32_t i) -> double* {
      switch (which) { case 0: return reim_fft_precomp_get_buffer((REIM_FFT_PRECOMP*)pc, i); case 1: return reim_ifft_precomp_get_buffer((REIM_IFFT_PRECOMP*)pc, i);
                       case 2: return (double*)cplx_fft_precomp_get_buffer((CPLX_FFT_PRECOMP*)pc, i); default: return (double*)cplx_ifft_precomp_get_buffer((CPLX_IFFT_PRECOMP*)pc, i); } };
    auto run = [&](double* d) { switch (which) { case 0: reim_fft((REIM_FFT_PRECOMP*)pc, d); break; case 1: reim_ifft((REIM_IFFT_PRECOMP*)pc, d); break; case 2: cplx_fft((CPLX_FFT_PRECOMP*)pc, d); break; default: cplx_ifft((CPLX_IFFT_PRECOMP*)pc, d); } };
    // reference result on an ordinary buffer
    GBuf ref(16 * m, 8);
    for (uint64_t i = 0; i < 2 * m; ++i) ref.as<double>()[i] = kdouble(i + 3);
    std::vector<double> in(ref.as<double>(), ref.as<double>() + 2 * m);
    run(ref.as<double>());
    std::string err;
    // fill every buffer completely (ASan: an overrun of the table's allocation aborts), then transform inside each of them
    for (uint32_t i = 0; i < nb; ++i) { double* b = buf(i); if (((uintptr_t)b) % 32) err = sfmt("buffer %u is not 32-byte aligned", i); for (uint64_t k = 0; k < 2 * m; ++k) b[k] = in[k]; }
    for (uint32_t i = 0; i < nb && err.empty(); ++i) {
      run(buf(i));
      if (memcmp(buf(i), ref.p, 16 * m)) err = sfmt("transform inside buffer %u differs from the transform in an ordinary buffer (the buffer overlaps the twiddle table?)", i);
      for (uint32_t j = i + 1; j < nb && err.empty(); ++j) if (memcmp(buf(j), in.data(), 16 * m)) err = sfmt("using buffer %u changed buffer %u (they overlap)", i, j);
    }
    // the table still works after its buffers were overwritten
    if (err.empty()) { GBuf again(16 * m, 8); memcpy(again.p, in.data(), 16 * m); run(again.as<double>()); if (memcmp(again.p, ref.p, 16 * m)) err = "writing the buffers damaged the twiddle table"; }
    if (!err.empty()) ctx.violation(id, err);
    free(pc);
    ctx.end_case(true);
  }
}

int main(int argc, char** argv) {
  Args args = parse_args("C11", argc, argv, 420, 1800);
  Ctx ctx(args);
  BoxOpts o;
  o.cf = cfgs(args.thorough());
  if (args.thorough()) { o.Ns = {2, 4, 8, 16, 32, 64}; o.vmp_max_dim = 4; o.vmp_max_size = 5; o.all_strides = true; }
  const int noff = args.thorough() ? 8 : 4;
  std::vector<ApiGroup> groups = api_groups(o);
  std::stable_sort(groups.begin(), groups.end(), [](const ApiGroup& a, const ApiGroup& b) { return a.N > b.N; });
  ctx.name_metric(0, "blocks_allocated_by_constructors");
  ctx.parallel(groups.size(), [&](uint64_t gi) { run_group(groups[gi], o, [&](ApiCase& c) { four_runs(ctx, c, noff); }); }, "module entry points");
  BoxOpts ol = large_layer(args.thorough(), o.cf);
  std::vector<ApiGroup> lgroups = api_groups(ol);
  std::stable_sort(lgroups.begin(), lgroups.end(), [](const ApiGroup& a, const ApiGroup& b) { return a.N > b.N; });
  ctx.parallel(lgroups.size(), [&](uint64_t gi) { run_group(lgroups[gi], ol, [&](ApiCase& c) { four_runs(ctx, c, 4); }); }, "module entry points, large ring dimensions");
  BoxOpts ow = wide_layer(o.cf);
  std::vector<ApiGroup> wgroups = api_groups(ow);
  ctx.parallel(wgroups.size(), [&](uint64_t gi) { run_group(wgroups[gi], ow, [&](ApiCase& c) { four_runs(ctx, c, 2); }); }, "module entry points, wide shapes");
  if (!args.thorough()) {  // the thorough large layer contains N = 65536 already
    BoxOpts ot = top_layer();
    std::vector<ApiGroup> tgroups = api_groups(ot);
    ctx.parallel(tgroups.size(), [&](uint64_t gi) { run_group(tgroups[gi], ot, [&](ApiCase& c) { four_runs(ctx, c, 2); }); }, "module entry points, N = 65536");
  }
  // bulk outputs (16 MiB and more): "no alignment beyond 8 bytes" holds whatever the amount of data
  {
    struct BI { int op, mt, shape; };
    std::vector<BI> bi;
    for (int shape = 0; shape < (args.thorough() ? 3 : 1); ++shape)
      for (int op = 0; op < NVECOPS; ++op) for (int mt = 0; mt < 2; ++mt) if (!(mt == 1 && VECOPS[op].fft64_only)) bi.push_back({op, mt, shape});
    ctx.parallel(bi.size(), [&](uint64_t i) {
      ExecResult r;
      bulk_vec_cases(bi[i].op, bi[i].mt, bi[i].shape, [&](ApiCase& c) {
        if (!ctx.want(c.id)) return;
        ctx.begin_case(c.id);
        for (int off : {0, 8, 24}) {
          ExecOpts o; o.prefill = off == 8 ? 2 : 1; for (int k = 0; k < 12; ++k) o.off[k] = k == 0 ? off : (off ? 16 : 0);
          execute(c, o, r);
          std::string err = judge_model(c, r);
          if (!err.empty()) { ctx.violation(c.id, err + sfmt(" (output at %d modulo 64)", off)); break; }
        }
        ctx.end_case(true);
      });
    }, "bulk outputs (16 MiB and more)");
  }
  // strides are caller-chosen 64-bit values: limb offsets beyond 32-bit element / byte arithmetic.  The vector's extent is reserved
  // PROT_NONE, only the limbs are accessible: an access computed with a truncated offset faults or lands in a canary
  {
    struct HI { uint64_t N; CpuCfg cfg; int op; int mt; };
    std::vector<HI> hi;
    for (uint64_t N : {8, 256}) for (auto& c : o.cf) {
      hi.push_back({N, c, -1, 0});
      for (int op = 0; op < NVECOPS; ++op) for (int mt = 0; mt < 2; ++mt) if (!(mt == 1 && VECOPS[op].fft64_only)) hi.push_back({N, c, op, mt});
    }
    ctx.parallel(hi.size(), [&](uint64_t i) { if (hi[i].op < 0) huge_stride_transforms(ctx, hi[i].N, hi[i].cfg); else huge_stride_vecops(ctx, hi[i].N, hi[i].op, hi[i].mt, hi[i].cfg); }, "huge strides");
  }
  std::vector<KernelGroup> kg = kernel_groups(args.thorough());
  ctx.parallel(kg.size(), [&](uint64_t gi) { run_kernel_group(kg[gi], args.thorough(), [&](ApiCase& c, const KernelInfo&) { four_runs(ctx, c, noff); }); }, "kernels");
  std::vector<uint64_t> ms;
  for (uint64_t m = 1; m <= 65536; m *= 2) ms.push_back(m);
  ctx.parallel(ms.size(), [&](uint64_t i) { run_balance(ctx, ms[ms.size() - 1 - i]); }, "constructor balance");
  ctx.parallel(ms.size(), [&](uint64_t i) { run_precomp_buffers(ctx, ms[ms.size() - 1 - i]); }, "buffers inside transform tables");
  // no result depends on uninitialised memory: that includes the heap memory a constructor obtains - every constructor x size,
  // with freshly allocated memory reading as 0x00, 0xFF and 0xA5 (each in its own process, under ASan as well)
  std::vector<CtorOp> cops = ctor_ops(true);
  ctx.parallel(cops.size(), [&](uint64_t k) {
    run_ctor_env(cops, k, k + 1, [&](const std::string& id) { return ctx.want(id); },
                 [&](const std::string& id, const std::string& msg) { ctx.violation(id, msg); },
                 [&](const std::string& id, bool begin) { if (begin) ctx.begin_case(id); else ctx.end_case(true); });
  }, "constructors x content of fresh heap memory");
  // the *_simple functions keep tables between calls: every ordered pair of calls of one function (other dimension, divisor,
  // bound) with exact-size buffers - a table reused for the wrong dimension reads or writes outside the declared extents
  {
    std::vector<LsmOp> so;
    add_simple_ops(so);
    struct Pair { int a, b; };
    std::vector<Pair> pairs;
    for (size_t a = 0; a < so.size(); ++a) for (size_t b = 0; b < so.size(); ++b)
      if (so[a].family == so[b].family && so[a].name.find("4096") == std::string::npos && so[b].name.find("4096") == std::string::npos) pairs.push_back({(int)a, (int)b});
    uint64_t* sh = (uint64_t*)mmap(0, 4096, PROT_READ | PROT_WRITE, MAP_SHARED | MAP_ANONYMOUS, -1, 0);
    const size_t chunk = 16;
    ctx.parallel((pairs.size() + chunk - 1) / chunk, [&](uint64_t ci) {
      for (size_t k = ci * chunk; k < std::min(pairs.size(), (ci + 1) * chunk); ++k) {
        const LsmOp& A = so[pairs[k].a]; const LsmOp& B = so[pairs[k].b];
        std::string id = "simple-sequence|" + A.name + " ; " + B.name;
        if (!ctx.want(id)) continue;
        ctx.begin_case(id);
        uint64_t* slot = sh + 4 * (ci % 64);
        slot[0] = slot[1] = slot[2] = 0;
        fflush(stdout);
        pid_t p = fork();
        if (p == 0) { A.run(); slot[0] = B.run(); slot[1] = B.explicit_run ? B.explicit_run() : slot[0]; slot[2] = 1; _exit(0); }
        int st; waitpid(p, &st, 0);
        if (!WIFEXITED(st) || WEXITSTATUS(st) != 0 || !slot[2]) ctx.violation(id, "the second call crashes or is stopped by the sanitizer (access outside a declared extent)");
        else if (slot[0] != slot[1]) ctx.violation(id, "the second call does not return what freshly built tables return (it used the table of the first call)");
        ctx.end_case(true);
      }
    }, "*_simple call sequences");
  }
  ctx.assumptions = {"library and harness built with -fsanitize=address; every buffer is a heap block of exactly the declared extent (right red zone at its end, poisoned slack on its left)",
                     "declared extents are those of DESIGN.md appendix A; NTT120 vectors are 32*N (DFT) / 16*N (big) bytes per limb as in the repository's tests",
                     "NOT_IMPLEMENTED() stubs (reim_from_znx32*, reim_from_tnx32*, reim_to_tnx32*) abort by design and are excluded",
                     "kernels are called only from their recorded minimum size upwards (unroll width / dispatch domain)"};
  return ctx.finish("fault_enumeration",
                    "entry-point table and exported-kernel table over their shape boxes, each case executed 4 (quick) / 8 (thorough) times with rotating per-buffer offsets "
                    "(multiples of 8 bytes) and 3 prefill patterns; every strided entry point also with strides 2^28+N+1, 2^29+N, 2^31+N+3, 2^32+N+1 (sparse PROT_NONE reservations); plus every constructor/destructor pair at every m = 1..65536 and every constructor x size x 3 contents of freshly allocated heap memory; non-trivial when the case writes something "
                    "(res_size>0 ...) or allocates; distinct = distinct case ids",
                    true);
}
