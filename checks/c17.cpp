// C17 — block layouts and complex-vector kernels are faithful and mutually inverse.
// Engine A: every m = 4..65536 x EVERY block index x {single, contiguous, strided} x ref/avx for
// extract/save (exact copies, save o extract and extract o save identities, nothing else written);
// cplx <-> reim4 conversion round trip for every m (precomp API, *_simple, ref and fma); dot products
// for every row count; windowed convolutions over a complete small box; pointwise mul/addmul on reim,
// reim4 and interleaved complex for every m.  Floating-point oracle: binary128 complex arithmetic
// with the standard a-priori bound gamma_k * sum|terms|.
#include "../harness/fporacle.hpp"
using namespace vf;

// ---- extract / save -----------------------------------------------------------------------------
static void part_blocks(Ctx& ctx, uint64_t m, uint64_t b0, uint64_t b1) {
  const uint64_t maxrows = 17;
  std::vector<uint64_t> sls = {2 * m, 2 * m + 4, 3 * m, 2 * m + 1, 2 * m + 2, 2 * m + 6, 3 * m + 5};  // multiples of 4 doubles and every residue modulo 4
  GBuf src(((maxrows - 1) * (3 * m + 5) + 2 * m) * 8, 8), dst(64 * maxrows, 16), vec(2 * m * 8, 24);
  // index-encoding doubles: value = position + 1
  for (uint64_t i = 0; i < src.bytes / 8; ++i) src.as<double>()[i] = (double)(i + 1);
  std::vector<uint8_t> ssnap(src.p, src.p + src.bytes);
  for (uint64_t blk = b0; blk < b1; ++blk) {
    std::string id = sfmt("blocks|m=%llu|blk=%llu|extract(single, contiguous, strided) + save, ref and avx", (unsigned long long)m, (unsigned long long)blk);
    if (!ctx.want(id)) continue;
    ctx.begin_case(id);
    std::string err;
    for (int av = 0; av < 2 && err.empty(); ++av) {
      // single
      prefill(dst.p, dst.bytes, 2);
      if (av) reim4_extract_1blk_from_reim_avx(m, blk, dst.as<double>(), src.as<double>()); else reim4_extract_1blk_from_reim_ref(m, blk, dst.as<double>(), src.as<double>());
      for (int j = 0; j < 4; ++j) if (dst.as<double>()[j] != (double)(4 * blk + j + 1) || dst.as<double>()[4 + j] != (double)(m + 4 * blk + j + 1)) err = sfmt("extract_1blk_from_reim_%s: slot %d is not evaluation %llu", av ? "avx" : "ref", j, (unsigned long long)(4 * blk + j));
      { GBuf ref(64 * maxrows, 16); prefill(ref.p, ref.bytes, 2); if (memcmp(dst.p + 64, ref.p + 64, 64 * (maxrows - 1))) err = "extract_1blk_from_reim wrote more than 8 doubles"; }
      // save: inverse, writes exactly the block
      prefill(vec.p, vec.bytes, 1);
      std::vector<uint8_t> v0(vec.p, vec.p + vec.bytes);
      if (av) reim4_save_1blk_to_reim_avx(m, blk, vec.as<double>(), dst.as<double>()); else reim4_save_1blk_to_reim_ref(m, blk, vec.as<double>(), dst.as<double>());
      for (uint64_t i = 0; i < 2 * m && err.empty(); ++i) {
        bool in_blk = (i >= 4 * blk && i < 4 * blk + 4) || (i >= m + 4 * blk && i < m + 4 * blk + 4);
        if (in_blk) { if (vec.as<double>()[i] != src.as<double>()[i]) err = sfmt("save_1blk_to_reim_%s o extract is not the identity at position %llu", av ? "avx" : "ref", (unsigned long long)i); }
        else if (memcmp(vec.p + 8 * i, v0.data() + 8 * i, 8)) err = sfmt("save_1blk_to_reim_%s wrote position %llu outside block %llu", av ? "avx" : "ref", (unsigned long long)i, (unsigned long long)blk);
      }
      // extract o save: take the block back out of vec
      if (err.empty()) {
        GBuf d2(64, 8);
        if (av) reim4_extract_1blk_from_reim_avx(m, blk, d2.as<double>(), vec.as<double>()); else reim4_extract_1blk_from_reim_ref(m, blk, d2.as<double>(), vec.as<double>());
        if (memcmp(d2.p, dst.p, 64)) err = "extract o save is not the identity";
      }
      // contiguous and strided, nrows 0..4
      for (uint64_t nrows : std::vector<uint64_t>{0, 1, 2, 3, 4, 7, 8, 17}) { if (!err.empty()) break;
        for (uint64_t sl : std::vector<uint64_t>{0, sls[0], sls[1], sls[2], sls[3], sls[4], sls[5], sls[6]}) {
          uint64_t esl = sl ? sl : 2 * m;
          prefill(dst.p, dst.bytes, 2);
          if (sl == 0) { if (av) reim4_extract_1blk_from_contiguous_reim_avx(m, nrows, blk, dst.as<double>(), src.as<double>()); else reim4_extract_1blk_from_contiguous_reim_ref(m, nrows, blk, dst.as<double>(), src.as<double>()); }
          else { if (av) reim4_extract_1blk_from_contiguous_reim_sl_avx(m, sl, nrows, blk, dst.as<double>(), src.as<double>()); else reim4_extract_1blk_from_contiguous_reim_sl_ref(m, sl, nrows, blk, dst.as<double>(), src.as<double>()); }
          for (uint64_t r = 0; r < nrows; ++r) for (int j = 0; j < 4; ++j)
            if (dst.as<double>()[8 * r + j] != (double)(r * esl + 4 * blk + j + 1) || dst.as<double>()[8 * r + 4 + j] != (double)(r * esl + m + 4 * blk + j + 1))
              err = sfmt("extract_1blk_from_contiguous_reim%s_%s nrows=%llu sl=%llu: row %llu slot %d wrong", sl ? "_sl" : "", av ? "avx" : "ref", (unsigned long long)nrows, (unsigned long long)sl, (unsigned long long)r, j);
          GBuf ref(64 * maxrows, 16); prefill(ref.p, ref.bytes, 2);
          if (nrows < maxrows && memcmp(dst.p + 64 * nrows, ref.p + 64 * nrows, 64 * (maxrows - nrows))) err = sfmt("extract_1blk_from_contiguous_reim%s wrote beyond nrows blocks", sl ? "_sl" : "");
        }
      }
    }
    if (err.empty() && memcmp(src.p, ssnap.data(), src.bytes)) err = "source vector modified";
    if (err.empty() && (!src.guards_ok() || !dst.guards_ok() || !vec.guards_ok())) err = "write outside a declared extent";
    if (!err.empty()) ctx.violation(id, err);
    ctx.end_case(true);
  }
}

// ---- cplx <-> reim4 ------------------------------------------------------------------------------
static void part_cplx(Ctx& ctx, uint64_t m, const CpuCfg& cfg) {
  std::string id = sfmt("cplx<->reim4|%s|m=%llu|precomp API, *_simple, ref, fma", cfg.name, (unsigned long long)m);
  if (!ctx.want(id)) return;
  ctx.begin_case(id);
  set_cfg(cfg);
  GBuf a(2 * m * 8, 8), r(2 * m * 8 + 64, 16), back(2 * m * 8 + 64, 24);
  for (uint64_t i = 0; i < 2 * m; ++i) a.as<double>()[i] = (double)(i + 1);
  std::string err;
  REIM4_FROM_CPLX_PRECOMP* pf = new_reim4_from_cplx_precomp(m);
  REIM4_TO_CPLX_PRECOMP* pt = new_reim4_to_cplx_precomp(m);
  for (int way = 0; way < 4 && err.empty(); ++way) {
    prefill(r.p, r.bytes, 2); prefill(back.p, back.bytes, 2);
    REIM4_FROM_CPLX_PRECOMP f2; f2.m = m; f2.function = 0; REIM4_TO_CPLX_PRECOMP t2; t2.m = m; t2.function = 0;
    switch (way) {
      case 0: reim4_from_cplx(pf, r.as<double>(), a.p); reim4_to_cplx(pt, back.p, r.as<double>()); break;
      case 1: reim4_from_cplx_simple(m, r.as<double>(), a.p); reim4_to_cplx_simple(m, back.p, r.as<double>()); break;
      case 2: reim4_from_cplx_ref(&f2, r.as<double>(), a.p); reim4_to_cplx_ref(&t2, back.p, r.as<double>()); break;
      case 3: reim4_from_cplx_fma(&f2, r.as<double>(), a.p); reim4_to_cplx_fma(&t2, back.p, r.as<double>()); break;
    }
    static const char* wn[] = {"precomp API", "*_simple", "ref kernels", "fma kernels"};
    for (uint64_t i = 0; i < 2 * m; ++i) if (back.as<double>()[i] != a.as<double>()[i]) { err = sfmt("%s: to_cplx(from_cplx(x)) differs from x at double %llu (complex number %llu of %llu)", wn[way], (unsigned long long)i, (unsigned long long)(i / 2), (unsigned long long)m); break; }
    // the reim4 vector must contain every input value exactly once (a permutation: all m numbers converted)
    if (err.empty()) { std::vector<double> s(r.as<double>(), r.as<double>() + 2 * m); std::sort(s.begin(), s.end()); for (uint64_t i = 0; i < 2 * m; ++i) if (s[i] != (double)(i + 1)) { err = sfmt("%s: from_cplx did not convert all %llu numbers", wn[way], (unsigned long long)m); break; } }
    GBuf ref(64, 0); prefill(ref.p, 64, 2);
    if (err.empty() && (memcmp(r.p + 16 * m, ref.p, 64) || memcmp(back.p + 16 * m, ref.p, 64))) err = sfmt("%s: destination written beyond 2m doubles", wn[way]);
  }
  free(pf); free(pt);
  set_cfg(CFG_NATIVE);
  if (!a.guards_ok() || !r.guards_ok() || !back.guards_ok()) err = "write outside a declared extent";
  if (!err.empty()) ctx.violation(id, err);
  ctx.end_case(true);
}

static void part_dot(Ctx& ctx, uint64_t nrows, int range) {
  std::string id = sfmt("reim4 dot products|nrows=%llu|values=%s", (unsigned long long)nrows, range == 2 ? "structured-rows" : range ? "special" : "dense");
  if (!ctx.want(id)) return;
  ctx.begin_case(id);
  GBuf u(64 * nrows, 8), v(128 * nrows, 16), d(128, 24);
  for (uint64_t i = 0; i < 8 * nrows; ++i) u.as<double>()[i] = val(i + 7 * nrows, range == 2 ? 0 : range);
  for (uint64_t i = 0; i < 16 * nrows; ++i) v.as<double>()[i] = val(i + 1000 + nrows, range == 2 ? 0 : range);
  if (range == 2) {
    // structured rows of u (a value-keyed shortcut - "this row contributes nothing" - must be right on them): purely real, purely
    // imaginary, the same small integer in every slot, powers of two, zero real parts with SOME zero imaginary parts, all zero
    for (uint64_t r = 0; r < nrows; ++r) {
      double* w = u.as<double>() + 8 * r;
      switch ((r + nrows) % 7) {
        case 0: for (int k = 0; k < 4; ++k) w[4 + k] = 0.0; break;
        case 1: for (int k = 0; k < 4; ++k) w[k] = 0.0; break;
        case 2: for (int k = 0; k < 4; ++k) { w[k] = 2.0; w[4 + k] = 1.0; } break;
        case 3: for (int k = 0; k < 4; ++k) { w[k] = ldexp(1.0, 3 * k - 4); w[4 + k] = -ldexp(1.0, 7 - 5 * k); } break;
        case 4: { const double im[4] = {0.0, 1.25, -2.5, 3.0}; for (int k = 0; k < 4; ++k) { w[k] = 0.0; w[4 + k] = im[k]; } break; }
        case 5: for (int k = 0; k < 8; ++k) w[k] = (k & 1) ? -0.0 : 0.0; break;
        default: break;  // dense
      }
    }
  }
  std::string err;
  for (int av = 0; av < 2 && err.empty(); ++av) {
    // one column: v holds nrows blocks of 8
    q128 acc[16], ab[16];
    for (int i = 0; i < 16; ++i) acc[i] = ab[i] = 0;
    for (uint64_t r = 0; r < nrows; ++r) r4_addmul_q(acc, ab, u.as<double>() + 8 * r, v.as<double>() + 8 * r);
    prefill(d.p, 128, 2);
    if (av) reim4_vec_mat1col_product_avx2(nrows, d.as<double>(), u.as<double>(), v.as<double>()); else reim4_vec_mat1col_product_ref(nrows, d.as<double>(), u.as<double>(), v.as<double>());
    within(d.as<double>(), acc, ab, 8, 2 * (int)nrows + 2, err, av ? "reim4_vec_mat1col_product_avx2" : "reim4_vec_mat1col_product_ref");
    { GBuf ref(128, 24); prefill(ref.p, 128, 2); if (err.empty() && memcmp(d.p + 64, ref.p + 64, 64)) err = "mat1col wrote more than 8 doubles"; }
    // two columns: v holds nrows blocks of 16 (col 0 then col 1)
    for (int i = 0; i < 16; ++i) acc[i] = ab[i] = 0;
    for (uint64_t r = 0; r < nrows; ++r) { r4_addmul_q(acc, ab, u.as<double>() + 8 * r, v.as<double>() + 16 * r); r4_addmul_q(acc + 8, ab + 8, u.as<double>() + 8 * r, v.as<double>() + 16 * r + 8); }
    if (av) reim4_vec_mat2cols_product_avx2(nrows, d.as<double>(), u.as<double>(), v.as<double>()); else reim4_vec_mat2cols_product_ref(nrows, d.as<double>(), u.as<double>(), v.as<double>());
    if (err.empty()) within(d.as<double>(), acc, ab, 16, 2 * (int)nrows + 2, err, av ? "reim4_vec_mat2cols_product_avx2" : "reim4_vec_mat2cols_product_ref");
  }
  if (!u.guards_ok() || !v.guards_ok() || !d.guards_ok()) err = "write outside a declared extent";
  if (!err.empty()) ctx.violation(id, err);
  ctx.end_case(true);
}
static void part_conv(Ctx& ctx) {
  GBuf a(64 * 4, 8), b(64 * 4, 16), d(64 * 6, 24);
  for (uint64_t i = 0; i < 32; ++i) { a.as<double>()[i] = val(i + 3, 0); b.as<double>()[i] = val(i + 500, 0); }
  auto coeff = [&](uint64_t k, uint64_t sa, uint64_t sb, q128* acc, q128* ab) {
    for (int i = 0; i < 8; ++i) acc[i] = ab[i] = 0;
    for (uint64_t i = 0; i < sa; ++i) for (uint64_t j = 0; j < sb; ++j) if (i + j == k) r4_addmul_q(acc, ab, a.as<double>() + 8 * i, b.as<double>() + 8 * j);
  };
  for (uint64_t sa = 0; sa <= 4; ++sa) for (uint64_t sb = 0; sb <= 4; ++sb) {
    std::string id = sfmt("reim4 convolution|sizea=%llu|sizeb=%llu|all k, offsets and sizes in 0..4(+)", (unsigned long long)sa, (unsigned long long)sb);
    if (!ctx.want(id)) continue;
    ctx.begin_case(id);
    std::string err;
    q128 acc[8], ab[8];
    for (uint64_t k = 0; k <= 9 && err.empty(); ++k) {
      coeff(k, sa, sb, acc, ab);
      prefill(d.p, d.bytes, 2);
      reim4_convolution_1coeff_ref(k, d.as<double>(), a.as<double>(), sa, b.as<double>(), sb);
      within(d.as<double>(), acc, ab, 8, 12, err, "reim4_convolution_1coeff_ref");
      reim4_convolution_2coeff_ref(k, d.as<double>(), a.as<double>(), sa, b.as<double>(), sb);
      if (err.empty()) within(d.as<double>(), acc, ab, 8, 12, err, "reim4_convolution_2coeff_ref (k)");
      coeff(k + 1, sa, sb, acc, ab);
      if (err.empty()) within(d.as<double>() + 8, acc, ab, 8, 12, err, "reim4_convolution_2coeff_ref (k+1)");
    }
    for (uint64_t off = 0; off <= 4 && err.empty(); ++off) for (uint64_t size = 0; size <= 4 && err.empty(); ++size) {
      prefill(d.p, d.bytes, 2);
      reim4_convolution_ref(d.as<double>(), size, off, a.as<double>(), sa, b.as<double>(), sb);
      for (uint64_t t = 0; t < size && err.empty(); ++t) { coeff(off + t, sa, sb, acc, ab); within(d.as<double>() + 8 * t, acc, ab, 8, 12, err, "reim4_convolution_ref"); }
      GBuf ref(64 * 6, 24); prefill(ref.p, ref.bytes, 2);
      if (err.empty() && memcmp(d.p + 64 * size, ref.p + 64 * size, 64 * (6 - size))) err = "reim4_convolution_ref wrote beyond `size` blocks";
    }
    if (!a.guards_ok() || !b.guards_ok() || !d.guards_ok()) err = "write outside a declared extent";
    if (!err.empty()) ctx.violation(id, err);
    ctx.end_case(sa > 0 && sb > 0);
  }
}

static void part_pointwise(Ctx& ctx, const PW& k, uint64_t m, int range) {
  std::string id = sfmt("pointwise|%s|m=%llu|values=%s", k.name, (unsigned long long)m, range == 2 ? "extreme-combinations" : range ? "special" : "dense");
  if (!ctx.want(id)) return;
  ctx.begin_case(id);
  GBuf r(2 * m * 8, 8), a(2 * m * 8, 16), b(2 * m * 8, 24);
  for (uint64_t i = 0; i < 2 * m; ++i) { a.as<double>()[i] = val(i + m, range); b.as<double>()[i] = val(i + 3 * m + 11, range); r.as<double>()[i] = k.addmul ? val(i + 5 * m + 1, 0) : 0; }
  if (range == 2) { for (uint64_t i = 0; i < 2 * m; ++i) { a.as<double>()[i] = val(i + m, 0); b.as<double>()[i] = val(i + 3 * m + 11, 0); } extreme_triples(k.layout, m, r.as<double>(), a.as<double>(), b.as<double>()); }
  if (!k.addmul) prefill(r.p, r.bytes, 2);
  std::vector<double> r0(r.as<double>(), r.as<double>() + 2 * m);
  std::vector<uint8_t> as(a.p, a.p + a.bytes), bs(b.p, b.p + b.bytes);
  PCm pc{0, (int64_t)m};
  k.f(&pc, r.p, a.p, b.p);
  std::string err = judge_pointwise(k, m, r.as<double>(), r0.data(), a.as<double>(), b.as<double>());
  if (err.empty() && (memcmp(a.p, as.data(), a.bytes) || memcmp(b.p, bs.data(), b.bytes))) err = "an operand was modified";
  if (err.empty() && (!r.guards_ok() || !a.guards_ok() || !b.guards_ok())) err = "write outside the 2m doubles";
  // the product is also what the kernel must deliver when the result vector IS one of the operands (r == a is how the library itself
  // calls the mul kernels; r == b and r == a == b are the same call by commutativity): judged against the ORIGINAL operand values
  if (!k.addmul && range != 2) for (int al = 1; al <= 3 && err.empty(); ++al) {
    GBuf r2(2 * m * 8, 8 * al);
    const double* A0 = (const double*)as.data(); const double* B0 = al == 3 ? A0 : (const double*)bs.data();
    void* pa = (al == 1 || al == 3) ? r2.p : a.p; void* pb = (al == 2 || al == 3) ? r2.p : b.p;
    memcpy(a.p, as.data(), a.bytes); memcpy(b.p, bs.data(), b.bytes);
    memcpy(r2.p, al == 2 ? bs.data() : as.data(), r2.bytes);
    k.f(&pc, r2.p, pa, pb);
    err = judge_pointwise(k, m, r2.as<double>(), r0.data(), A0, B0);
    if (!err.empty()) err = std::string(al == 1 ? "r == a: " : al == 2 ? "r == b: " : "r == a == b: ") + err;
    if (err.empty() && !r2.guards_ok()) err = "write outside the 2m doubles (in place)";
  }
  if (!err.empty()) ctx.violation(id, err);
  ctx.end_case(true);
}

int main(int argc, char** argv) {
  Args args = parse_args("C17", argc, argv, 420, 1800);
  Ctx ctx(args);
  const bool th = args.thorough();
  std::vector<PW> pw = pointwise_kernels();
  const int npw = (int)pw.size();
  struct It { int part; uint64_t m, b0, b1; int k; CpuCfg cfg; };
  std::vector<It> items;
  const uint64_t mmax = th ? 65536 : 4096;
  for (uint64_t m = mmax; m >= 4; m /= 2) { uint64_t nb = m / 4, step = std::max<uint64_t>(1, std::min<uint64_t>(nb, 64)); for (uint64_t b = 0; b < nb; b += step) items.push_back({0, m, b, std::min(nb, b + step), 0, CFG_NATIVE}); }
  for (uint64_t m = 65536; m >= 4; m /= 2) for (auto& c : cfgs(th)) items.push_back({1, m, 0, 0, 0, c});
  for (uint64_t nr = 0; nr <= (th ? 64u : 16u); ++nr) for (int rg = 0; rg < 3; ++rg) items.push_back({2, nr, 0, 0, rg, CFG_NATIVE});
  items.push_back({3, 0, 0, 0, 0, CFG_NATIVE});
  for (int k = 0; k < npw; ++k) for (uint64_t m = 4096; m >= pw[k].minm; m /= 2) { for (int rg = 0; rg < 3; ++rg) items.push_back({4, m, 0, 0, k * 3 + rg, CFG_NATIVE}); if (m == 1) break; }
  ctx.parallel(items.size(), [&](uint64_t i) {
    const It& it = items[i];
    switch (it.part) {
      case 0: part_blocks(ctx, it.m, it.b0, it.b1); break;
      case 1: part_cplx(ctx, it.m, it.cfg); break;
      case 2: part_dot(ctx, it.m, it.k); break;
      case 3: part_conv(ctx); break;
      case 4: part_pointwise(ctx, pw[it.k / 3], it.m, it.k % 3); break;
    }
  });
  ctx.assumptions = {"a reim4 block holds the four complex numbers 4b..4b+3 (real parts then imaginary parts); inside the cplx<->reim4 conversion the library orders them 0,2,1,3 - the property only demands that the round trip is the identity and that all m numbers are converted",
                     "floating-point kernels are judged against the exact binary128 result with the bound gamma_k*sum|terms| (k = number of rounded operations + 2), valid for any summation order with or without FMA",
                     "each kernel is called from its minimum size (unroll width) upwards"};
  return ctx.finish("exploration",
                    "every m = 4..mmax x every block index x {single, contiguous nrows in {0..4,7,8,17}, strided x 3 strides} x ref/avx; cplx<->reim4 for every m = 4..65536 x 4 ways x cfg; dot products nrows 0..16 (64 thorough) x 2 value sets x ref/avx2; "
                    "convolutions (sizea,sizeb) in {0..4}^2 x k 0..9 x (offset,size) in {0..4}^2; 14 pointwise kernels x every m up to 4096 x 2 value sets (incl. signed zeros, 2^+-300); distinct = distinct case ids",
                    true);
}
