// C13 — supported in-place calls give the same result as out-of-place calls.
// Engine A: enumeration of aliasing patterns x shapes; oracle = the same call with a separate output
// (bit for bit) and, where an exact model exists, the model image as well.
#include "../harness/apiops.hpp"
extern "C" {
#include "reim/reim_fft_internal.h"
#include "reim/reim_fft_private.h"
#include "reim4/reim4_fftvec_internal.h"
#include "reim4/reim4_fftvec_private.h"
#include "cplx/cplx_fft_internal.h"
#include "cplx/cplx_fft_private.h"
}
using namespace vf;

struct Item { int kind; uint64_t N; int op; int mtype; CpuCfg cfg; bool wide = false; };

// runs the aliased case and its out-of-place counterpart and compares
static void alias_pair(Ctx& ctx, const ApiCase& aliased, const ApiCase& plain, bool model) {
  if (!ctx.want(aliased.id)) return;
  ctx.begin_case(aliased.id);
  ExecResult ra, rp;
  ExecOpts o; o.prefill = 2;
  execute(aliased, o, ra);
  execute(plain, o, rp);
  std::string err;
  if (model) err = judge_model(aliased, ra);
  if (err.empty()) {
    // compare the written part of the output of both runs
    for (size_t i = 0; i < aliased.bufs.size() && err.empty(); ++i) {
      const Buf& b = aliased.bufs[i];
      if (b.role != R_OUT && b.role != R_INOUT) continue;
      if (root_of(aliased, (int)i) != (int)i) continue;  // a source that is overwritten by documentation (idft_tmp_a) and shares the output's storage
      size_t n = std::min(b.bytes, plain.bufs[i].bytes);
      for (size_t k = 0; k < n; ++k)
        if (b.mask[k] != 0 && ra.after[i][k] != rp.after[i][k]) {
          err = sfmt("in-place result differs from out-of-place result: output '%s' element %zu: %s vs %s", b.name.c_str(), k / 8,
                     hexbytes(&ra.after[i][k / 8 * 8], 8).c_str(), hexbytes(&rp.after[i][k / 8 * 8], 8).c_str());
          break;
        }
    }
    if (err.empty() && !ra.guards_ok) err = "guard zone overwritten by the in-place call";
    if (err.empty()) {
      std::string e2 = judge_model(aliased, ra, false, true);  // inputs outside the aliased output unchanged
      if (!e2.empty()) err = e2;
    }
  }
  if (!err.empty()) ctx.violation(aliased.id, err);
  ctx.end_case(aliased.nontrivial);
}

static void run_vec(Ctx& ctx, const Item& it, bool thorough) {
  const VecOp& op = VECOPS[it.op];
  if (op.nin == 0) return;
  const uint64_t N = it.N;
  MODULE* mod = get_module(N, it.mtype == 0 ? FFT64 : NTT120, it.cfg);
  const char* mt = it.mtype == 0 ? "fft64" : "ntt120";
  std::vector<int64_t> ps = {0};
  if (op.has_p) {
    ps.clear();
    if (it.wide) ps = {op.model == 'r' ? (int64_t)(2 * N) : (int64_t)N + 1, 3};
    else if (N <= 32) { for (int64_t p = 0; p < (int64_t)(2 * N); ++p) if (op.model == 'r' || (p & 1)) ps.push_back(p); ps.push_back(-3); ps.push_back((int64_t)(6 * N + 1)); }
    else ps = {1, (int64_t)N - 1, (int64_t)N + 1, (int64_t)(2 * N - 1), 5, -3};
  }
  std::vector<int> aliases = op.nin == 1 ? std::vector<int>{AL_RES_A, AL_RES_A_COMPACT} : std::vector<int>{AL_RES_A, AL_RES_B, AL_RES_A_B, AL_RES_A_COMPACT};
  std::vector<uint64_t> strides = {N, N + 3};
  const std::vector<uint64_t> SZV = it.wide ? std::vector<uint64_t>{1, 65, 129, 257} : N >= 2048 ? std::vector<uint64_t>{0, 1, 3} : std::vector<uint64_t>{0, 1, 2, 3, 7};  // thinner size box in the large-N layer; wide layer: many limbs at small N
  std::set<std::string> seen;
  for (int al : aliases)
    for (uint64_t rs : SZV) for (uint64_t as : SZV) for (uint64_t bs : (op.nin >= 2 ? SZV : std::vector<uint64_t>{0}))
      for (uint64_t sl : strides) for (uint64_t osl : strides) for (int64_t p : ps) {
        VecShape s; s.N = N; s.rs = rs; s.as = as; s.bs = bs; s.p = p; s.alias = al;
        // aliased operands share `sl`; the other operand uses `osl`
        s.rsl = sl;
        s.asl = (al == AL_RES_A || al == AL_RES_A_B) ? sl : osl;
        if (al == AL_RES_A_COMPACT) { s.rsl = N; s.asl = 2 * N + (sl == N ? 0 : 3); }
        s.bsl = (al == AL_RES_B || al == AL_RES_A_B) ? sl : osl;
        if (op.nin < 2 && osl != strides[0]) continue;
        if (al == AL_RES_A_B && osl != strides[0]) continue;
        VecShape sc = canon_shape(op, s);
        if (!alias_ok(op, sc)) continue;
        if (!seen.insert(vecshape_id(op, sc, mt, it.cfg.name)).second) continue;  // duplicates after canonicalisation
        ApiCase ca = gen_vecop(mod, op, sc, mt, it.cfg.name);
        VecShape sp = sc; sp.alias = (al == AL_RES_A_B) ? AL_A_B : AL_NONE;
        ApiCase cp = gen_vecop(mod, op, sp, mt, it.cfg.name);
        alias_pair(ctx, ca, cp, true);
      }
}

static void run_norm(Ctx& ctx, const Item& it) {
  const uint64_t N = it.N;
  MODULE* mod = get_module(N, FFT64, it.cfg);
  for (int variant = 0; variant < 3; ++variant)
    for (uint64_t k : (N >= 2048 ? std::vector<uint64_t>{2, 19, 62} : std::vector<uint64_t>{1, 2, 7, 19, 31, 52, 62}))
      for (uint64_t rs : (N >= 2048 ? std::vector<uint64_t>{1, 3} : std::vector<uint64_t>{0, 1, 2, 3, 9})) for (uint64_t as : (N >= 2048 ? std::vector<uint64_t>{1, 3} : std::vector<uint64_t>{0, 1, 2, 3, 9}))
        for (uint64_t sl : {N, N + 3}) for (int ds = 0; ds < 2; ++ds) {
          NormShape s; s.N = N; s.k = k; s.rs = rs; s.as = as; s.variant = variant; s.dataset = ds; s.alias = 1;
          s.rsl = s.asl = (variant == 0 ? sl : N);
          if (variant != 0 && sl != N) continue;
          if (variant == 2) { s.begin = 0; s.end = as; s.step = 1; }
          NormShape sp = s; sp.alias = 0;
          alias_pair(ctx, gen_normalize(mod, s, it.cfg.name), gen_normalize(mod, sp, it.cfg.name), true);
          if (rs <= 1) {  // a one-limb (or empty) result over limb 0 of its own source: its stride addresses nothing, so any stride / any step is the same in-place call
            NormShape v = s; v.rsl = N + 5;
            if (variant == 0) v.asl = sl == N ? 2 * N : N;
            if (variant == 2) { v.step = 2; v.end = as; }
            NormShape vp = v; vp.alias = 0;
            alias_pair(ctx, gen_normalize(mod, v, it.cfg.name), gen_normalize(mod, vp, it.cfg.name), true);
          }
        }
}

static void run_idft(Ctx& ctx, const Item& it) {
  const uint64_t N = it.N;
  MODULE_TYPE t = it.mtype == 0 ? FFT64 : NTT120;
  MODULE* mod = get_module(N, t, it.cfg);
  for (uint64_t rs : {0, 1, 2, 3, 7}) for (uint64_t as : {0, 1, 2, 3, 7}) {
    for (int variant = 1; variant <= 2; ++variant) {  // vec_znx_idft and vec_znx_idft_tmp_a, each writing over its own input
      DftShape s; s.N = N; s.rs = rs; s.as = as; s.variant = variant; s.alias = 1;
      DftShape sp = s; sp.alias = 0;
      alias_pair(ctx, gen_dft(mod, t, s, it.cfg.name), gen_dft(mod, t, sp, it.cfg.name), true);
      if (t == FFT64) {  // coefficients of magnitude 2^50 (the wide conversion kernel): in place must equal out of place
        s.big = sp.big = 1;
        alias_pair(ctx, gen_dft(mod, t, s, it.cfg.name), gen_dft(mod, t, sp, it.cfg.name), true);
        s.big = sp.big = 0;
      }
    }
  }
}

// pointwise products with r == a, r == b, r == a == b
struct PC { void* f; int64_t m; };
typedef void (*pw_f)(const void*, void*, const void*, const void*);
struct PW { const char* name; pw_f f; uint64_t minm; bool addmul; };
static void run_pointwise(Ctx& ctx, uint64_t maxm) {
  PW tab[] = {
      {"reim_fftvec_mul_ref", (pw_f)reim_fftvec_mul_ref, 1, false}, {"reim_fftvec_mul_fma", (pw_f)reim_fftvec_mul_fma, 4, false},
      {"reim_fftvec_addmul_ref", (pw_f)reim_fftvec_addmul_ref, 1, true}, {"reim_fftvec_addmul_fma", (pw_f)reim_fftvec_addmul_fma, 4, true},
      {"reim4_fftvec_mul_ref", (pw_f)reim4_fftvec_mul_ref, 4, false}, {"reim4_fftvec_mul_fma", (pw_f)reim4_fftvec_mul_fma, 4, false},
      {"reim4_fftvec_addmul_ref", (pw_f)reim4_fftvec_addmul_ref, 4, true}, {"reim4_fftvec_addmul_fma", (pw_f)reim4_fftvec_addmul_fma, 4, true},
      {"cplx_fftvec_mul_ref", (pw_f)cplx_fftvec_mul_ref, 1, false}, {"cplx_fftvec_mul_fma", (pw_f)cplx_fftvec_mul_fma, 8, false},
      {"cplx_fftvec_addmul_ref", (pw_f)cplx_fftvec_addmul_ref, 1, true}, {"cplx_fftvec_addmul_fma", (pw_f)cplx_fftvec_addmul_fma, 4, true},
      {"cplx_fftvec_addmul_sse", (pw_f)cplx_fftvec_addmul_sse, 2, true}, {"cplx_fftvec_addmul_avx512", (pw_f)cplx_fftvec_addmul_avx512, 8, true},
  };
  static const double special[] = {0.0, -0.0, 1.0, -1.0, 0x1p300, -0x1p-300, 3.5, 1e-5};
  for (auto& k : tab)
    for (uint64_t m = k.minm; m <= maxm; m *= 2)
      for (int al = 1; al <= 3; ++al) {
        std::string id = sfmt("pointwise|%s|m=%llu|alias=%d", k.name, (unsigned long long)m, al);
        if (!ctx.want(id)) continue;
        ctx.begin_case(id);
        size_t n = 2 * m;
        GBuf r0(n * 8, 8), a0(n * 8, 16), b0(n * 8, 24), r1(n * 8, 8), b1(n * 8, 24), a1(n * 8, 16);
        Rng rng(ctx.args.seed * 1000 + m);
        for (size_t i = 0; i < n; ++i) {
          double x = (i % 5 == 0) ? special[(i / 5) % 8] : (rng.unit() - 0.5) * 1024;
          double y = (i % 7 == 0) ? special[(i / 7 + 3) % 8] : (rng.unit() - 0.5) * 1024;
          a0.as<double>()[i] = x; b0.as<double>()[i] = y;
        }
        if (al == 3) memcpy(b0.p, a0.p, n * 8);  // r == a == b: a and b are the same data
        // out-of-place: r0 starts as the content the aliased run will see in r
        const double* rin = (al == 2) ? b0.as<double>() : a0.as<double>();
        memcpy(r0.p, rin, n * 8);
        PC pc{0, (int64_t)m};
        k.f(&pc, r0.p, a0.p, al == 3 ? a0.p : b0.p);
        // in-place
        memcpy(a1.p, a0.p, n * 8); memcpy(b1.p, b0.p, n * 8);
        void* rp = (al == 2) ? (void*)b1.p : (void*)a1.p;
        const void* ap = (al == 2) ? (void*)a1.p : rp;
        const void* bp = (al == 1) ? (void*)b1.p : rp;
        k.f(&pc, rp, ap, bp);
        if (memcmp(rp, r0.p, n * 8) != 0) {
          size_t i = 0; while (memcmp((double*)rp + i, r0.as<double>() + i, 8) == 0) ++i;
          ctx.violation(id, sfmt("in-place result differs from out-of-place result at double %zu: %a vs %a", i, ((double*)rp)[i], r0.as<double>()[i]));
        }
        if (al == 1 && memcmp(b1.p, b0.p, n * 8)) ctx.violation(id, "operand b modified");
        if (al == 2 && memcmp(a1.p, a0.p, n * 8)) ctx.violation(id, "operand a modified");
        if (!a1.guards_ok() || !b1.guards_ok() || !r0.guards_ok()) ctx.violation(id, "write outside the 2m doubles");
        ctx.end_case(true);
      }
}

int main(int argc, char** argv) {
  Args args = parse_args("C13", argc, argv, 240, 1500);
  Ctx ctx(args);
  std::vector<Item> items;
  std::vector<uint64_t> Ns = {2, 4, 8, 16, 32};
  if (args.thorough()) for (uint64_t n : {64, 256, 1024, 4096}) Ns.push_back(n);
  else for (uint64_t n : {2048, 16384, 65536}) Ns.push_back(n);  // sparse large-N layer of the quick tier
  auto cf = cfgs(args.thorough());
  for (uint64_t N : Ns) for (auto& c : cf) {
    for (int op = 0; op < NVECOPS; ++op) for (int mt = 0; mt < 2; ++mt) {
      if (mt == 1 && VECOPS[op].fft64_only) continue;
      items.push_back({0, N, op, mt, c});
    }
    items.push_back({1, N, 0, 0, c});
    items.push_back({2, N, 0, 0, c});
    if (c.avx2) items.push_back({2, N, 0, 1, c});  // NTT120 dft/idft exist only with avx2
  }
  for (uint64_t N : {4, 16}) for (auto& c : cf) for (int op = 0; op < NVECOPS; ++op) for (int mt = 0; mt < 2; ++mt) {
    if (mt == 1 && VECOPS[op].fft64_only) continue;
    Item w{0, N, op, mt, c}; w.wide = true; items.push_back(w);
  }
  std::stable_sort(items.begin(), items.end(), [](const Item& a, const Item& b) { return a.N > b.N; });
  bool th = args.thorough();
  ctx.parallel(items.size(), [&](uint64_t i) {
    const Item& it = items[i];
    if (it.kind == 0) run_vec(ctx, it, th); else if (it.kind == 1) run_norm(ctx, it); else run_idft(ctx, it);
  }, "module entry points");
  ctx.parallel(1, [&](uint64_t) { run_pointwise(ctx, th ? 4096 : 256); }, "pointwise");
  ctx.assumptions = {"aliasing means the very same pointer and the same stride (partial overlaps are out of scope)",
                     "NTT120 dft/idft exist only when avx2 is reported (module_api.c leaves them NULL otherwise)",
                     "sub-range normalisation is aliased only for begin=0, step=1 (other ranges read limbs the output has already overwritten: not a same-pointer-same-stride call)"};
  return ctx.finish("exploration",
                    "aliasing patterns (res==a, res==b, res==a==b) x op x N x module type x cfg x (res,a,b sizes) in {0..3}^3 x strides x all p (N<=32); "
                    "normalisation (3 forms) x k-set x sizes; idft over its own input (FFT64, NTT120); 14 pointwise kernels x m; "
                    "non-trivial when res_size > 0; distinct = distinct case ids",
                    true);
}
