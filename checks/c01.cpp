// C01 — FFT64 negacyclic product is exact within the documented precision budget.
// Engine A: N x path (small single product; svp prepare+apply+idft; same with idft_tmp_a; same with idft in place) x cfg x
// shapes x operand-pattern pairs in three magnitude regimes, all generated inside the documented
// domain (|coeff| < 2^50, min(|a|_1 |b|_inf, |a|_inf |b|_1) < 2^52), plus complete small scopes.
// Oracle: exact __int128 negacyclic product; accept iff |res - exact| <= E + 1/2 with
// E = 8 log2(N) 2^-53 (|a|_1 |b|_2 + |a|_2 |b|_1) computed in binary128 from the exact norms.
#include "../harness/giant.hpp"
#include <quadmath.h>
#include "../harness/apiops.hpp"
using namespace vf;
typedef __float128 q128;

static const int NPAT = 12;
static const char* PN[NPAT] = {"const", "alternating", "cos-sign j=0", "cos-sign j=1", "cos-sign j=N/4", "cos-sign j=N/2-1", "X^0", "X^(N/2)", "X^(N-1)", "two-magnitude ramp", "seeded A", "seeded B"};
static void pattern(int p, uint64_t N, int64_t M, uint64_t seed, std::vector<int64_t>& v) {
  v.assign(N, 0);
  Rng r(seed * 977 + p * 13 + N);
  for (uint64_t k = 0; k < N; ++k) {
    switch (p) {
      case 0: v[k] = M; break;
      case 1: v[k] = (k & 1) ? -M : M; break;
      case 2: case 3: case 4: case 5: {
        uint64_t j = p == 2 ? 0 : p == 3 ? 1 : p == 4 ? N / 4 : N / 2 - 1;
        if (N < 4 && p >= 4) j = 0;
        double c = cos(M_PI * (double)((2 * j + 1) * k % (2 * N)) / (double)N);
        v[k] = c >= 0 ? M : -M; break;
      }
      case 6: v[k] = k == 0 ? M : 0; break;
      case 7: v[k] = k == N / 2 ? M : 0; break;
      case 8: v[k] = k == N - 1 ? M : 0; break;
      case 9: v[k] = k < N / 2 ? M : (M > 64 ? M >> 6 : 1) * ((k & 1) ? -1 : 1); break;
      default: v[k] = M > 0 ? r.sym(M) : 0; break;
    }
  }
}
struct Norms { q128 l1, l2, linf; };
static Norms norms(const std::vector<int64_t>& v) {
  Norms n{0, 0, 0};
  q128 s2 = 0;
  for (int64_t x : v) { q128 a = x < 0 ? -(q128)x : (q128)x; n.l1 += a; s2 += a * a; if (a > n.linf) n.linf = a; }
  n.l2 = sqrtq(s2);
  return n;
}
static bool in_domain(const Norms& a, const Norms& b) {
  const q128 c50 = 0x1p50Q, c52 = 0x1p52Q;
  if (!(a.linf < c50) || !(b.linf < c50)) return false;
  q128 m1 = a.l1 * b.linf, m2 = a.linf * b.l1;
  return (m1 < m2 ? m1 : m2) < c52;
}
static q128 err_budget(uint64_t N, const Norms& a, const Norms& b) { return 8 * (q128)ilog2(N) * 0x1p-53Q * (a.l1 * b.l2 + a.l2 * b.l1); }

// exact product, sparse-aware (first factor = the one with fewer non-zeros)
static void exact_product(uint64_t N, const std::vector<int64_t>& a, const std::vector<int64_t>& b, std::vector<i128>& c) {
  c.resize(N);
  size_t za = 0, zb = 0;
  for (auto x : a) za += x != 0; for (auto x : b) zb += x != 0;
  if (za <= zb) negacyclic_mul_i64(N, c.data(), a.data(), b.data()); else negacyclic_mul_i64(N, c.data(), b.data(), a.data());
}

static bool judge(Ctx& ctx, const std::string& id, const char* path, uint64_t N, const int64_t* got, const std::vector<i128>& ex, q128 E) {
  for (uint64_t k = 0; k < N; ++k) {
    q128 d = fabsq((q128)got[k] - (q128)ex[k]);  // both < 2^63: exact in binary128
    ctx.metric_max(0, (double)(d / (E + 0.5Q)));
    if (!(d <= E + 0.5Q)) { ctx.violation(id, sfmt("%s: coefficient %llu is %lld, exact %s, |difference| %.6g exceeds E + 1/2 = %.6g", path, (unsigned long long)k, (long long)got[k], i128_str(ex[k]).c_str(), (double)d, (double)(E + 0.5Q))); return false; }
  }
  return true;
}

// runs the three paths on (a, p) for given shapes
static void run_pair(Ctx& ctx, MODULE* mod, uint64_t N, const std::string& id, const std::vector<int64_t>& a0, const std::vector<int64_t>& p, bool full_shapes) {
  if (!ctx.want(id)) return;
  ctx.begin_case(id);
  Norms na = norms(a0), np = norms(p);
  q128 E = err_budget(N, na, np);
  if (E < 0.5Q) ctx.metric_add(1);
  std::vector<i128> ex;
  exact_product(N, a0, p, ex);
  // path 0: small single product
  {
    GBuf r(N * 8, 8), a(N * 8, 16), b(N * 8, 24), t(znx_small_single_product_tmp_bytes(mod), 0);
    memcpy(a.p, a0.data(), N * 8); memcpy(b.p, p.data(), N * 8); prefill(r.p, N * 8, 1); prefill(t.p, t.bytes, 2);
    znx_small_single_product(mod, r.as<int64_t>(), a.as<int64_t>(), b.as<int64_t>(), t.p);
    judge(ctx, id, "znx_small_single_product", N, r.as<int64_t>(), ex, E);
    if (memcmp(a.p, a0.data(), N * 8) || memcmp(b.p, p.data(), N * 8)) ctx.violation(id, "znx_small_single_product modified an operand");
    if (!r.guards_ok() || !a.guards_ok() || !b.guards_ok() || !t.guards_ok()) ctx.violation(id, "znx_small_single_product wrote outside a declared extent");
    if (a0 == p) {  // a square: the same pointer passed for both operands
      prefill(r.p, N * 8, 2); prefill(t.p, t.bytes, 1);
      znx_small_single_product(mod, r.as<int64_t>(), a.as<int64_t>(), a.as<int64_t>(), t.p);
      judge(ctx, id, "znx_small_single_product(a, a) with one pointer for both operands", N, r.as<int64_t>(), ex, E);
      if (memcmp(a.p, a0.data(), N * 8)) ctx.violation(id, "znx_small_single_product(a, a) modified its operand");
    }
  }
  // paths 1, 2: svp prepare + apply + idft / idft_tmp_a; limb i of the vector is a0 rotated by i (same norms)
  std::vector<std::pair<uint64_t, uint64_t>> shapes = {{1, 1}};
  if (full_shapes) { shapes.clear(); for (uint64_t rs = 0; rs <= 3; ++rs) for (uint64_t as = 0; as <= 3; ++as) shapes.push_back({rs, as}); }
  else { shapes.push_back({2, 1}); shapes.push_back({1, 2}); }
  GBuf ppol(bytes_of_svp_ppol(mod), 8), pol(N * 8, 16);
  memcpy(pol.p, p.data(), N * 8);
  prefill(ppol.p, ppol.bytes, 2);
  svp_prepare(mod, (SVP_PPOL*)ppol.p, pol.as<int64_t>());
  std::vector<std::vector<i128>> exl(3);
  std::vector<std::vector<int64_t>> limbs(3);
  for (uint64_t i = 0; i < 3; ++i) {
    limbs[i].resize(N);
    for (uint64_t k = 0; k < N; ++k) { uint64_t t = (k + i) % N; limbs[i][t] = (k + i >= N) ? -a0[k] : a0[k]; }  // a0 * X^i
    if (i == 0) exl[0] = ex;
  }
  for (auto& sh : shapes) for (uint64_t asl : (full_shapes ? std::vector<uint64_t>{N, N + 3} : std::vector<uint64_t>{N + 3})) for (int variant = 0; variant < 3; ++variant) {
    uint64_t rs = sh.first, as = sh.second;
    if (variant == 2) {
      // inverse DFT written over its own input: the DFT vector has a_size rows, the result res_size rows, one buffer
      GBuf a(limbvec_elems(N, as, asl) * 8, 24), buf(bytes_of_vec_znx_dft(mod, std::max(rs, as)), 16), t(vec_znx_idft_tmp_bytes(mod), 0);
      prefill(a.p, a.bytes, 1); prefill(buf.p, buf.bytes, 2);
      for (uint64_t i = 0; i < as; ++i) memcpy(a.as<int64_t>() + i * asl, limbs[i].data(), N * 8);
      svp_apply_dft(mod, (VEC_ZNX_DFT*)buf.p, as, (SVP_PPOL*)ppol.p, a.as<int64_t>(), as, asl);
      vec_znx_idft(mod, (VEC_ZNX_BIG*)buf.p, rs, (VEC_ZNX_DFT*)buf.p, as, t.p);
      const char* pn = "svp_prepare + svp_apply_dft + vec_znx_idft in place";
      for (uint64_t i = 0; i < rs; ++i) {
        if (i < as) { if (exl[i].empty()) exact_product(N, limbs[i], p, exl[i]); if (!judge(ctx, id, pn, N, buf.as<int64_t>() + i * N, exl[i], E)) break; }
        else for (uint64_t k = 0; k < N; ++k) if (buf.as<int64_t>()[i * N + k] != 0) { ctx.violation(id, sfmt("%s: output row %llu (>= a_size=%llu) is not exactly zero", pn, (unsigned long long)i, (unsigned long long)as)); i = rs; break; }
      }
      if (!a.guards_ok() || !buf.guards_ok()) ctx.violation(id, std::string(pn) + " wrote outside a declared extent");
      continue;
    }
    GBuf a(limbvec_elems(N, as, asl) * 8, 24), dft(bytes_of_vec_znx_dft(mod, rs), 16), big(bytes_of_vec_znx_big(mod, rs), 8);
    prefill(a.p, a.bytes, 1); prefill(dft.p, dft.bytes, 2); prefill(big.p, big.bytes, 1);
    for (uint64_t i = 0; i < as; ++i) memcpy(a.as<int64_t>() + i * asl, limbs[i].data(), N * 8);
    svp_apply_dft(mod, (VEC_ZNX_DFT*)dft.p, rs, (SVP_PPOL*)ppol.p, a.as<int64_t>(), as, asl);
    if (variant == 0) { GBuf t(vec_znx_idft_tmp_bytes(mod), 0); vec_znx_idft(mod, (VEC_ZNX_BIG*)big.p, rs, (VEC_ZNX_DFT*)dft.p, rs, t.p); }
    else vec_znx_idft_tmp_a(mod, (VEC_ZNX_BIG*)big.p, rs, (VEC_ZNX_DFT*)dft.p, rs);
    const char* pn = variant ? "svp_prepare + svp_apply_dft + vec_znx_idft_tmp_a" : "svp_prepare + svp_apply_dft + vec_znx_idft";
    for (uint64_t i = 0; i < rs; ++i) {
      if (i < as) {
        if (exl[i].empty()) exact_product(N, limbs[i], p, exl[i]);
        if (!judge(ctx, id, pn, N, big.as<int64_t>() + i * N, exl[i], E)) break;
      } else {
        for (uint64_t k = 0; k < N; ++k) if (big.as<int64_t>()[i * N + k] != 0) { ctx.violation(id, sfmt("%s: output row %llu (>= a_size=%llu) is not exactly zero", pn, (unsigned long long)i, (unsigned long long)as)); i = rs; break; }
      }
    }
    if (!a.guards_ok() || !dft.guards_ok() || !big.guards_ok()) ctx.violation(id, std::string(pn) + " wrote outside a declared extent");
  }
  // sparse limb vectors with zero stride padding (one column of a row-major matrix of polynomials): limbs a0, 0, a0 X, 0 at strides
  // N+1, 2N and 3N+1 - a shortcut for "empty" limbs must look at the right coefficients
  for (uint64_t asl : {N + 1, 2 * N, 3 * N + 1}) for (uint64_t as : {2, 3, 4}) {
    const uint64_t rs = as;
    GBuf a(limbvec_elems(N, as, asl) * 8, 24), dft(bytes_of_vec_znx_dft(mod, rs), 16), big(bytes_of_vec_znx_big(mod, rs), 8);
    memset(a.p, 0, a.bytes); prefill(dft.p, dft.bytes, 2); prefill(big.p, big.bytes, 1);
    for (uint64_t i = 0; i < as; i += 2) memcpy(a.as<int64_t>() + i * asl, limbs[i / 2].data(), N * 8);   // odd limbs stay zero
    svp_apply_dft(mod, (VEC_ZNX_DFT*)dft.p, rs, (SVP_PPOL*)ppol.p, a.as<int64_t>(), as, asl);
    vec_znx_idft_tmp_a(mod, (VEC_ZNX_BIG*)big.p, rs, (VEC_ZNX_DFT*)dft.p, rs);
    const char* pn = "svp_apply_dft on a sparse limb vector with zero padding + vec_znx_idft_tmp_a";
    for (uint64_t i = 0; i < rs; ++i) {
      if (i % 2 == 0) { if (exl[i / 2].empty()) exact_product(N, limbs[i / 2], p, exl[i / 2]); if (!judge(ctx, id, pn, N, big.as<int64_t>() + i * N, exl[i / 2], E)) break; }
      else for (uint64_t k = 0; k < N; ++k) if (big.as<int64_t>()[i * N + k] != 0) { ctx.violation(id, sfmt("%s: the product with the zero limb %llu is not zero", pn, (unsigned long long)i)); i = rs; break; }
    }
    if (!a.guards_ok() || !dft.guards_ok() || !big.guards_ok()) ctx.violation(id, std::string(pn) + " wrote outside a declared extent");
  }
  if (!ppol.guards_ok() || !pol.guards_ok()) ctx.violation(id, "svp_prepare wrote outside a declared extent");
  ctx.end_case(true);
}

static void run_N(Ctx& ctx, uint64_t N, const CpuCfg& cfg, int pa0, int pa1, bool big) {
  MODULE* mod = get_module(N, FFT64, cfg);
  std::vector<int64_t> a, b;
  const bool full = N <= 64;
  for (int pa = pa0; pa < pa1; ++pa) for (int pb = 0; pb < NPAT; ++pb) for (int regime = 0; regime < 3; ++regime) {
    if (big && pb != 0 && pb != 3 && pb != 7 && pb != 10) continue;  // large N: four partner patterns (the exact oracle is quadratic)
    int64_t Ma, Mb;
    if (regime == 0) { Ma = (INT64_C(1) << 50) - 1; Mb = Ma; }
    else if (regime == 1) { Ma = Mb = (int64_t)(67108864.0 / sqrt((double)N)) - 1; }
    else { double l = ilog2(N) ? (double)ilog2(N) : 1.0; Ma = Mb = std::max<int64_t>(1, (int64_t)sqrt(0x1p53 / (40.0 * l * pow((double)N, 1.5)))); }
    pattern(pa, N, Ma, ctx.args.seed, a);
    // regime 0: the other operand as large as the 2^52 budget allows
    bool ok = false;
    for (; Mb >= 1; Mb = (regime == 0 ? Mb >> 1 : 0)) { pattern(pb, N, Mb, ctx.args.seed + 7, b); if (in_domain(norms(a), norms(b))) { ok = true; break; } if (regime != 0) break; }
    if (!ok) { ctx.metric_add(2); continue; }
    std::string id = sfmt("product|%s|N=%llu|a=%s (M=%lld)|b=%s (M=%lld)", cfg.name, (unsigned long long)N, PN[pa], (long long)Ma, PN[pb], (long long)Mb);
    run_pair(ctx, mod, N, id, a, b, full);
    // the zero polynomial as one factor (E = 0: the product must be exactly zero in every path), both orders
    if (pb == 0 && regime == 1) {
      std::vector<int64_t> z(N, 0);
      run_pair(ctx, mod, N, sfmt("product|%s|N=%llu|a=%s (M=%lld)|b=0", cfg.name, (unsigned long long)N, PN[pa], (long long)Ma), a, z, full);
      run_pair(ctx, mod, N, sfmt("product|%s|N=%llu|a=0|b=%s (M=%lld)", cfg.name, (unsigned long long)N, PN[pa], (long long)Ma), z, a, full);
    }
  }
}

// complete small scopes
static void run_scope(Ctx& ctx, uint64_t N, int64_t R, const CpuCfg& cfg, uint64_t part, uint64_t nparts) {
  MODULE* mod = get_module(N, FFT64, cfg);
  const uint64_t base = 2 * R + 1;
  uint64_t total = 1; for (uint64_t i = 0; i < 2 * N; ++i) total *= base;
  uint64_t lo = total / nparts * part, hi = part + 1 == nparts ? total : total / nparts * (part + 1);
  std::string id = sfmt("scope|%s|N=%llu|all coefficient vectors in [-%lld,%lld]|pairs %llu..%llu", cfg.name, (unsigned long long)N, (long long)R, (long long)R, (unsigned long long)lo, (unsigned long long)(hi - 1));
  if (!ctx.want(id)) return;
  ctx.begin_case(id);
  GBuf r(N * 8, 8), a(N * 8, 16), b(N * 8, 24), t(znx_small_single_product_tmp_bytes(mod), 0);
  std::vector<i128> ex(N);
  for (uint64_t code = lo; code < hi; ++code) {
    uint64_t c = code;
    for (uint64_t i = 0; i < N; ++i) { a.as<int64_t>()[i] = (int64_t)(c % base) - R; c /= base; }
    for (uint64_t i = 0; i < N; ++i) { b.as<int64_t>()[i] = (int64_t)(c % base) - R; c /= base; }
    znx_small_single_product(mod, r.as<int64_t>(), a.as<int64_t>(), b.as<int64_t>(), t.p);
    negacyclic_mul_i64(N, ex.data(), a.as<int64_t>(), b.as<int64_t>());
    bool ok = true;
    for (uint64_t k = 0; k < N; ++k) if ((i128)r.as<int64_t>()[k] != ex[k]) ok = false;
    if (!ok) { ctx.violation(id, sfmt("pair code %llu: the product is not the exact integer product", (unsigned long long)code)); break; }
    if (memcmp(a.p, b.p, N * 8) == 0) {  // squares also through one pointer
      znx_small_single_product(mod, r.as<int64_t>(), a.as<int64_t>(), a.as<int64_t>(), t.p);
      for (uint64_t k = 0; k < N; ++k) if ((i128)r.as<int64_t>()[k] != ex[k]) ok = false;
      if (!ok) { ctx.violation(id, sfmt("pair code %llu: the square computed with one pointer for both operands is not the exact integer product", (unsigned long long)code)); break; }
    }
  }
  ctx.metric_add(3, hi - lo);
  ctx.end_case(true);
}

int main(int argc, char** argv) {
  Args args = parse_args("C01", argc, argv, 420, 1800);
  Ctx ctx(args);
  const bool th = args.thorough();
  ctx.name_metric(0, "worst_error_over_E_plus_half"); ctx.name_metric(1, "pairs_in_exactness_regime"); ctx.name_metric(2, "pairs_outside_domain_skipped"); ctx.name_metric(3, "scope_pairs");
  struct It { int kind; uint64_t N; CpuCfg cfg; int a, b; int R; };
  std::vector<It> items;
  auto cf = cfgs(th);
  std::vector<uint64_t> Ns = {4096, 1024, 256, 64, 32, 16, 8, 4, 2};
  if (th) for (uint64_t N : {65536, 32768, 16384, 8192}) for (auto& c : cfgs(false)) for (int pa = 0; pa < NPAT; pa += 2) items.push_back({2, N, c, pa, pa + 1, 0});  // 6 x 12 x 3 pairs
  if (!th) for (uint64_t N : {65536, 16384}) for (int pa = 0; pa < NPAT; pa += 4) items.push_back({2, N, CFG_NATIVE, pa, pa + 1, 0});  // sparse large-N layer of the quick tier
  for (uint64_t N : Ns) for (auto& c : cf) for (int pa = 0; pa < NPAT; ++pa) items.push_back({0, N, c, pa, pa + 1, 0});
  for (auto& c : cf) { for (int p = 0; p < 16; ++p) items.push_back({1, 4, c, p, 16, 2}); items.push_back({1, 2, c, 0, 1, 3}); }
  if (th) for (auto& c : cfgs(false)) { for (int p = 0; p < 64; ++p) items.push_back({1, 4, c, p, 64, 3}); for (int p = 0; p < 256; ++p) items.push_back({1, 8, c, p, 256, 1}); }  // complete scopes N=4 [-3,3], N=8 [-1,1]
  ctx.parallel(items.size(), [&](uint64_t i) {
    const It& it = items[i];
    if (it.kind == 1) run_scope(ctx, it.N, it.R, it.cfg, it.a, it.b);
    else run_N(ctx, it.N, it.cfg, it.a, it.b, it.kind == 2);
  });
  // thorough: DFT / big vectors beyond 4 GiB (8193 limbs at N = 65536): the transform pair must return small integers exactly on every limb
  if ((th || getenv("VERIF_GIANT")) && giant_memory_ok()) ctx.parallel(2, [&](uint64_t i) { giant_dft_roundtrip(ctx, FFT64, (int)i); }, "giant vectors (> 4 GiB)");
  ctx.assumptions = {"only operand pairs inside the documented domain are generated (the generator evaluates the norms exactly); pairs outside are skipped and counted",
                     "E is evaluated in binary128 from the exact norms; equality is therefore demanded whenever E < 1/2",
                     "'every input in the budget' is decided on the pattern alphabet and the complete small scopes; the FFT's worst case over all real vectors is not enumerable"};
  return ctx.finish("exploration",
                    "N x cfg x 12x12 operand patterns (constant, alternating, root-resonant sign patterns, monomials, ramp, seeded) x 3 magnitude regimes (2^50-1 limit with the largest admissible partner; both near 2^26/sqrt(N); E just below 1/2) x 3 paths x svp shapes "
                    "((res,a) in {0..3}^2 x 2 strides for N<=64); complete scopes N=2 [-3,3] and N=4 [-2,2] (all 392k pairs; thorough adds N=4 [-3,3] and N=8 [-1,1], 48.8M pairs); thorough (when 20 GiB are available): vec_znx_dft + both inverse DFTs on vectors of more than 4 GiB; distinct = distinct case ids",
                    true);
}
