// C16 — pipelines of API calls compute the corresponding expression in Z[X]/(X^N+1).
// Breadth-first search over the real API with an exact interpreter as reference model.
// State  : a pool of typed slots - three int64 vectors (2 limbs), two big vectors, two DFT vectors,
//          one prepared scalar, one 2x2 prepared matrix - holding real library objects; the model
//          holds per slot the exact polynomial vector (__int128) or "undefined", and for opaque
//          DFT / prepared slots also the expression that produced them (states are merged only when
//          values AND producing expressions coincide).
// Trans. : ~30 op instances of the public API; an op is enabled when its inputs are defined and the
//          exact result stays inside the precision budget of its representation (pruned, not judged).
// Search : the parent enumerates the model state graph breadth first (dedup on the model state);
//          every transition (history, op) is then replayed on fresh real objects by the workers.
// Invar. : after the transition every integer slot equals the interpreter bit for bit, and every
//          defined DFT slot read out through vec_znx_idft_tmp_a equals its model polynomials.
#include <quadmath.h>
#include "../harness/apiops.hpp"
using namespace vf;
typedef __float128 q128;

enum { V0, V1, V2, B0, B1, D0, D1, PP, MM, M4, NSLOT };
static const char* SN[NSLOT] = {"V0", "V1", "V2", "B0", "B1", "D0", "D1", "P", "M", "M4"};
static const int NL[NSLOT] = {2, 2, 2, 3, 3, 3, 3, 1, 4, 8};  // number of polynomials per slot (big / DFT vectors have 3 limbs, int64 vectors 2)

struct MSlot { bool def = false; std::vector<Poly> v; std::string expr; };
struct MState { uint64_t N; MSlot s[NSLOT]; };

static q128 l1(const Poly& p) { q128 s = 0; for (i128 x : p) s += x < 0 ? -(q128)x : (q128)x; return s; }
static q128 l2(const Poly& p) { q128 s = 0; for (i128 x : p) s += (q128)x * (q128)x; return sqrtq(s); }
static i128 linf(const Poly& p) { i128 m = 0; for (i128 x : p) { i128 a = x < 0 ? -x : x; if (a > m) m = a; } return m; }
// an int64 limb vector holds every value of [-2^63, 2^63)
static bool int_ok(const std::vector<Poly>& v) { for (auto& p : v) for (i128 x : p) if (x < -((i128)1 << 63) || x >= ((i128)1 << 63)) return false; return true; }

struct Budget { bool ntt; uint64_t N;
  bool dft_ok(const std::vector<Poly>& v) const { if (ntt) { for (auto& p : v) if (linf(p) > ((i128)1 << 110)) return false; return true; } for (auto& p : v) if (l1(p) > 0x1p44Q) return false; return true; }
  bool big_ok(const std::vector<Poly>& v) const { i128 lim = ntt ? ((i128)1 << 110) : ((i128)1 << 50); for (auto& p : v) if (linf(p) > lim) return false; return true; }
  // exactness of a product sum_i a_i * m_i in FFT64 (C01 budget summed over the rows)
  bool prod_ok(const std::vector<const Poly*>& a, const std::vector<const Poly*>& m) const {
    if (ntt) return true;
    q128 E = 0;
    for (size_t i = 0; i < a.size(); ++i) E += 8 * (q128)(ilog2(N) ? ilog2(N) : 1) * 0x1p-53Q * (l1(*a[i]) * l2(*m[i]) + l2(*a[i]) * l1(*m[i]));
    return E < 0.25Q;
  }
};

static Poly pzero(uint64_t N) { return Poly(N, 0); }
static void key_of(const MState& m, uint64_t& h1, uint64_t& h2) {
  h1 = 0xcbf29ce484222325ull; h2 = 0x84222325cbf29ce4ull;
  for (int i = 0; i < NSLOT; ++i) {
    uint8_t d = m.s[i].def; h1 = fnv(&d, 1, h1); h2 = fnv(&d, 1, h2 ^ 0x55);
    if (!d) continue;
    for (auto& p : m.s[i].v) { h1 = fnv(p.data(), p.size() * 16, h1); h2 = fnv(p.data(), p.size() * 16, h2 * 31 + 7); }
    if (i >= D0) { h1 = fnv(m.s[i].expr.data(), m.s[i].expr.size(), h1); h2 = fnv(m.s[i].expr.data(), m.s[i].expr.size(), h2 * 131 + 3); }
  }
}

// ---- real objects ------------------------------------------------------------------------------------
struct Real {
  uint64_t N; MODULE_TYPE t; MODULE* mod;
  GBuf b[NSLOT]; uint64_t sl[3];
  GBuf tmp;
  Real(MODULE* m, MODULE_TYPE tt, uint64_t n) : N(n), t(tt), mod(m) {
    sl[0] = N; sl[1] = N; sl[2] = N + 3;
    for (int i = 0; i < 3; ++i) { b[i].init(limbvec_elems(N, 2, sl[i]) * 8, 8 * i); prefill(b[i].p, b[i].bytes, 1); }
    for (int i = B0; i <= B1; ++i) { b[i].init(big_bytes(t, N, 3), 8); prefill(b[i].p, b[i].bytes, 1); }
    for (int i = D0; i <= D1; ++i) { b[i].init(dft_bytes(t, N, 3), 16); prefill(b[i].p, b[i].bytes, 1); }
    if (t == FFT64) { b[PP].init(bytes_of_svp_ppol(mod), 24); b[MM].init(bytes_of_vmp_pmat(mod, 2, 2), 0); b[M4].init(bytes_of_vmp_pmat(mod, 2, 4), 8); prefill(b[PP].p, b[PP].bytes, 1); prefill(b[MM].p, b[MM].bytes, 1); prefill(b[M4].p, b[M4].bytes, 1); }
    size_t tb = N * 8 * 4 + 4096;
    tmp.init(tb, 0);
  }
  int64_t* v(int i) { return b[i].as<int64_t>(); }
  void set_vec(int i, const std::vector<Poly>& p) { for (int l = 0; l < 2; ++l) for (uint64_t j = 0; j < N; ++j) v(i)[l * sl[i] + j] = (int64_t)p[l][j]; }
  i128 big_at(int i, int l, uint64_t j) { if (t == FFT64) return b[i].as<int64_t>()[l * N + j]; i128 x; memcpy(&x, b[i].p + 16 * (l * N + j), 16); return x; }
  bool guards() { for (int i = 0; i < NSLOT; ++i) if (b[i].base && !b[i].guards_ok()) return false; return tmp.guards_ok(); }
};

// ---- ops ----------------------------------------------------------------------------------------------
struct Op {
  std::string name;
  bool fft64_only;
  std::function<bool(const MState&, const Budget&, MState&)> model;  // returns false when disabled; fills the successor
  std::function<void(Real&)> real;
};

static std::vector<Poly> ext3(const std::vector<Poly>& a) { std::vector<Poly> r = a; while (r.size() < 3) r.push_back(Poly(a[0].size(), 0)); return r; }
static std::vector<Poly> vadd3(const std::vector<Poly>& a, const std::vector<Poly>& b, int sign);
static std::vector<Poly> vadd(const std::vector<Poly>& a, const std::vector<Poly>& b, int sign) { std::vector<Poly> r(a.size()); for (size_t l = 0; l < a.size(); ++l) r[l] = sign > 0 ? poly_add(a[l], b[l]) : poly_sub(a[l], b[l]); return r; }
static std::vector<Poly> vadd3(const std::vector<Poly>& a, const std::vector<Poly>& b, int sign) { return vadd(ext3(a), ext3(b), sign); }
static std::vector<Poly> vmap(const std::vector<Poly>& a, const std::function<Poly(const Poly&)>& f) { std::vector<Poly> r; for (auto& p : a) r.push_back(f(p)); return r; }
static std::vector<Poly> vnorm(const std::vector<Poly>& a, unsigned k) {
  uint64_t N = a[0].size(); std::vector<Poly> r(a.size(), Poly(N));
  std::vector<i128> limbs(a.size()), dig;
  for (uint64_t j = 0; j < N; ++j) { for (size_t l = 0; l < a.size(); ++l) limbs[l] = a[l][j]; balanced_digits(k, limbs, dig); for (size_t l = 0; l < a.size(); ++l) r[l][j] = dig[l]; }
  return r;
}

static std::vector<Op> make_ops() {
  std::vector<Op> ops;
  auto defd = [](const MState& m, std::initializer_list<int> in) { for (int i : in) if (!m.s[i].def) return false; return true; };
  auto setv = [](MState& n, int slot, const std::vector<Poly>& v, const std::string& e = "") { n.s[slot].def = true; n.s[slot].v = v; n.s[slot].expr = e; };
  const unsigned K = 8;
  // ---- coefficient space
  ops.push_back({"V2 = vec_znx_add(V0, V1)", false, [=](const MState& m, const Budget&, MState& n) { if (!defd(m, {V0, V1})) return false; auto r = vadd(m.s[V0].v, m.s[V1].v, 1); if (!int_ok(r)) return false; n = m; setv(n, V2, r); return true; },
                 [](Real& R) { vec_znx_add(R.mod, R.v(V2), 2, R.sl[2], R.v(V0), 2, R.sl[0], R.v(V1), 2, R.sl[1]); }});
  ops.push_back({"V2 = vec_znx_sub(V0, V1)", false, [=](const MState& m, const Budget&, MState& n) { if (!defd(m, {V0, V1})) return false; auto r = vadd(m.s[V0].v, m.s[V1].v, -1); if (!int_ok(r)) return false; n = m; setv(n, V2, r); return true; },
                 [](Real& R) { vec_znx_sub(R.mod, R.v(V2), 2, R.sl[2], R.v(V0), 2, R.sl[0], R.v(V1), 2, R.sl[1]); }});
  ops.push_back({"V1 = vec_znx_negate(V1) in place", false, [=](const MState& m, const Budget&, MState& n) { if (!defd(m, {V1})) return false; auto r = vmap(m.s[V1].v, poly_neg); if (!int_ok(r)) return false; n = m; setv(n, V1, r); return true; },
                 [](Real& R) { vec_znx_negate(R.mod, R.v(V1), 2, R.sl[1], R.v(V1), 2, R.sl[1]); }});
  ops.push_back({"V2 = vec_znx_copy(V0)", false, [=](const MState& m, const Budget&, MState& n) { if (!defd(m, {V0})) return false; n = m; setv(n, V2, m.s[V0].v); return true; },
                 [](Real& R) { vec_znx_copy(R.mod, R.v(V2), 2, R.sl[2], R.v(V0), 2, R.sl[0]); }});
  ops.push_back({"V0 = vec_znx_rotate(V0, 3) in place", false, [=](const MState& m, const Budget&, MState& n) { if (!defd(m, {V0})) return false; auto r = vmap(m.s[V0].v, [](const Poly& p) { return poly_rotate(p, 3); }); if (!int_ok(r)) return false; n = m; setv(n, V0, r); return true; },
                 [](Real& R) { vec_znx_rotate(R.mod, 3, R.v(V0), 2, R.sl[0], R.v(V0), 2, R.sl[0]); }});
  ops.push_back({"V2 = vec_znx_automorphism(V1, 5)", false, [=](const MState& m, const Budget&, MState& n) { if (!defd(m, {V1})) return false; auto r = vmap(m.s[V1].v, [](const Poly& p) { return poly_automorphism(p, 5); }); if (!int_ok(r)) return false; n = m; setv(n, V2, r); return true; },
                 [](Real& R) { vec_znx_automorphism(R.mod, 5, R.v(V2), 2, R.sl[2], R.v(V1), 2, R.sl[1]); }});
  ops.push_back({"V2 = vec_znx_normalize_base2k(8, V0)", false, [=](const MState& m, const Budget&, MState& n) { if (!defd(m, {V0})) return false; n = m; setv(n, V2, vnorm(m.s[V0].v, K)); return true; },
                 [=](Real& R) { vec_znx_normalize_base2k(R.mod, K, R.v(V2), 2, R.sl[2], R.v(V0), 2, R.sl[0], R.tmp.p); }});
  // ---- to DFT space
  for (int w = 0; w < 2; ++w) {
    int src = w ? V1 : V0, dst = w ? D1 : D0;
    ops.push_back({sfmt("%s = vec_znx_dft(%s)", SN[dst], SN[src]), false, [=](const MState& m, const Budget& b, MState& n) { if (!defd(m, {src}) || !b.dft_ok(m.s[src].v)) return false; n = m; setv(n, dst, ext3(m.s[src].v), "dft"); return true; },
                   [=](Real& R) { vec_znx_dft(R.mod, (VEC_ZNX_DFT*)R.b[dst].p, 3, R.v(src), 2, R.sl[src]); }});
  }
  ops.push_back({"P = svp_prepare(V2 limb 0)", true, [=](const MState& m, const Budget& b, MState& n) { if (!defd(m, {V2}) || !b.dft_ok({m.s[V2].v[0]})) return false; n = m; setv(n, PP, {m.s[V2].v[0]}, "svp_prepare"); return true; },
                 [](Real& R) { svp_prepare(R.mod, (SVP_PPOL*)R.b[PP].p, R.v(V2)); }});
  for (int w = 0; w < 2; ++w) {
    int src = w ? V1 : V0, dst = w ? D1 : D0;
    ops.push_back({sfmt("%s = svp_apply_dft(P, %s)", SN[dst], SN[src]), true, [=](const MState& m, const Budget& b, MState& n) {
      if (!defd(m, {src, PP})) return false;
      std::vector<Poly> r;
      for (auto& p : m.s[src].v) { if (!b.prod_ok({&p}, {&m.s[PP].v[0]})) return false; r.push_back(negacyclic_mul(p, m.s[PP].v[0])); }
      if (!b.dft_ok(r)) return false;
      n = m; setv(n, dst, ext3(r), "svp_apply(" + m.s[PP].expr + ")"); return true; },
      [=](Real& R) { svp_apply_dft(R.mod, (VEC_ZNX_DFT*)R.b[dst].p, 3, (SVP_PPOL*)R.b[PP].p, R.v(src), 2, R.sl[src]); }});
  }
  ops.push_back({"M = vmp_prepare_contiguous([V0; V1])", true, [=](const MState& m, const Budget& b, MState& n) { if (!defd(m, {V0, V1}) || !b.dft_ok(m.s[V0].v) || !b.dft_ok(m.s[V1].v)) return false; n = m; setv(n, MM, {m.s[V0].v[0], m.s[V0].v[1], m.s[V1].v[0], m.s[V1].v[1]}, "vmp_prepare"); return true; },
                 [](Real& R) { std::vector<int64_t> mat(4 * R.N); for (int r = 0; r < 2; ++r) for (int c = 0; c < 2; ++c) memcpy(&mat[(r * 2 + c) * R.N], R.v(r ? V1 : V0) + c * R.sl[r ? V1 : V0], R.N * 8);
                              GBuf t(vmp_prepare_contiguous_tmp_bytes(R.mod, 2, 2), 8); vmp_prepare_contiguous(R.mod, (VMP_PMAT*)R.b[MM].p, mat.data(), 2, 2, t.p); }});
  // column j = sum_{i<2} a_i * Mat[i][j]; `cols` columns are computed, the result has 3 limbs (zero-extended)
  auto vmp_model = [=](const MState& m, const Budget& b, int mslot, int ncols, int cols, const std::vector<Poly>& a, std::vector<Poly>& r) {
    r.assign(3, pzero(m.N));
    for (int j = 0; j < cols; ++j) { std::vector<const Poly*> av, mv; for (int i = 0; i < 2; ++i) { av.push_back(&a[i]); mv.push_back(&m.s[mslot].v[i * ncols + j]); } if (!b.prod_ok(av, mv)) return false; for (int i = 0; i < 2; ++i) r[j] = poly_add(r[j], negacyclic_mul(a[i], m.s[mslot].v[i * ncols + j])); }
    return b.dft_ok(r);
  };
  ops.push_back({"D0 = vmp_apply_dft(V2, M)", true, [=](const MState& m, const Budget& b, MState& n) { if (!defd(m, {V2, MM})) return false; std::vector<Poly> r; if (!vmp_model(m, b, MM, 2, 2, m.s[V2].v, r)) return false; n = m; setv(n, D0, r, "vmp_apply"); return true; },
                 [](Real& R) { GBuf t(vmp_apply_dft_tmp_bytes(R.mod, 3, 2, 2, 2), 8); vmp_apply_dft(R.mod, (VEC_ZNX_DFT*)R.b[D0].p, 3, R.v(V2), 2, R.sl[2], (VMP_PMAT*)R.b[MM].p, 2, 2, t.p); }});
  ops.push_back({"D1 = vmp_apply_dft_to_dft(D0, M)", true, [=](const MState& m, const Budget& b, MState& n) { if (!defd(m, {D0, MM})) return false; std::vector<Poly> r; if (!vmp_model(m, b, MM, 2, 2, m.s[D0].v, r)) return false; n = m; setv(n, D1, r, "vmp_apply_to_dft(" + m.s[D0].expr + ")"); return true; },
                 [](Real& R) { GBuf t(vmp_apply_dft_to_dft_tmp_bytes(R.mod, 3, 3, 2, 2), 8); vmp_apply_dft_to_dft(R.mod, (VEC_ZNX_DFT*)R.b[D1].p, 3, (VEC_ZNX_DFT*)R.b[D0].p, 3, (VMP_PMAT*)R.b[MM].p, 2, 2, t.p); }});
  // a 2x4 matrix of which 3 columns are requested: odd last column inside a column pair of the prepared matrix
  ops.push_back({"M4 = vmp_prepare_contiguous([V0 V1; V1' V0'] 2x4)", true, [=](const MState& m, const Budget& b, MState& n) { if (!defd(m, {V0, V1}) || !b.dft_ok(m.s[V0].v) || !b.dft_ok(m.s[V1].v)) return false; n = m;
                   setv(n, M4, {m.s[V0].v[0], m.s[V0].v[1], m.s[V1].v[0], m.s[V1].v[1], m.s[V1].v[1], m.s[V1].v[0], m.s[V0].v[1], m.s[V0].v[0]}, "vmp_prepare4"); return true; },
                 [](Real& R) { std::vector<int64_t> mat(8 * R.N); const int64_t* src[8] = {R.v(V0), R.v(V0) + R.sl[0], R.v(V1), R.v(V1) + R.sl[1], R.v(V1) + R.sl[1], R.v(V1), R.v(V0) + R.sl[0], R.v(V0)};
                              for (int e = 0; e < 8; ++e) memcpy(&mat[e * R.N], src[e], R.N * 8);
                              GBuf t(vmp_prepare_contiguous_tmp_bytes(R.mod, 2, 4), 8); vmp_prepare_contiguous(R.mod, (VMP_PMAT*)R.b[M4].p, mat.data(), 2, 4, t.p); }});
  ops.push_back({"D0 = vmp_apply_dft(V2, M4) 3 of 4 columns", true, [=](const MState& m, const Budget& b, MState& n) { if (!defd(m, {V2, M4})) return false; std::vector<Poly> r; if (!vmp_model(m, b, M4, 4, 3, m.s[V2].v, r)) return false; n = m; setv(n, D0, r, "vmp_apply4"); return true; },
                 [](Real& R) { GBuf t(vmp_apply_dft_tmp_bytes(R.mod, 3, 2, 2, 4), 8); vmp_apply_dft(R.mod, (VEC_ZNX_DFT*)R.b[D0].p, 3, R.v(V2), 2, R.sl[2], (VMP_PMAT*)R.b[M4].p, 2, 4, t.p); }});
  ops.push_back({"D1 = vmp_apply_dft_to_dft(D0, M4) 3 of 4 columns", true, [=](const MState& m, const Budget& b, MState& n) { if (!defd(m, {D0, M4})) return false; std::vector<Poly> r; if (!vmp_model(m, b, M4, 4, 3, m.s[D0].v, r)) return false; n = m; setv(n, D1, r, "vmp_apply4_to_dft(" + m.s[D0].expr + ")"); return true; },
                 [](Real& R) { GBuf t(vmp_apply_dft_to_dft_tmp_bytes(R.mod, 3, 3, 2, 4), 8); vmp_apply_dft_to_dft(R.mod, (VEC_ZNX_DFT*)R.b[D1].p, 3, (VEC_ZNX_DFT*)R.b[D0].p, 3, (VMP_PMAT*)R.b[M4].p, 2, 4, t.p); }});
  // ---- back to coefficient space
  ops.push_back({"B0 = vec_znx_idft(D0)", false, [=](const MState& m, const Budget& b, MState& n) { if (!defd(m, {D0}) || !b.big_ok(m.s[D0].v)) return false; n = m; setv(n, B0, m.s[D0].v); return true; },
                 [](Real& R) { GBuf t(vec_znx_idft_tmp_bytes(R.mod), 8); vec_znx_idft(R.mod, (VEC_ZNX_BIG*)R.b[B0].p, 3, (VEC_ZNX_DFT*)R.b[D0].p, 3, t.p); }});
  ops.push_back({"B1 = vec_znx_idft_tmp_a(D1)  (D1 becomes undefined)", false, [=](const MState& m, const Budget& b, MState& n) { if (!defd(m, {D1}) || !b.big_ok(m.s[D1].v)) return false; n = m; setv(n, B1, m.s[D1].v); n.s[D1] = MSlot(); return true; },
                 [](Real& R) { vec_znx_idft_tmp_a(R.mod, (VEC_ZNX_BIG*)R.b[B1].p, 3, (VEC_ZNX_DFT*)R.b[D1].p, 3); }});
  // ---- big-coefficient arithmetic (FFT64 only)
  auto bigop = [&](const std::string& nm, int dst, std::initializer_list<int> in, std::function<std::vector<Poly>(const MState&)> f, std::function<void(Real&)> real) {
    std::vector<int> ins(in);
    ops.push_back({nm, true, [=](const MState& m, const Budget& b, MState& n) { for (int i : ins) if (!m.s[i].def) return false; auto r = f(m); if (!b.big_ok(r)) return false; n = m; n.s[dst].def = true; n.s[dst].v = r; n.s[dst].expr = ""; return true; }, real});
  };
  #define BIG(i) ((VEC_ZNX_BIG*)R.b[i].p)
  bigop("B0 = vec_znx_big_add(B0, B1) in place", B0, {B0, B1}, [](const MState& m) { return vadd(m.s[B0].v, m.s[B1].v, 1); }, [](Real& R) { vec_znx_big_add(R.mod, BIG(B0), 3, BIG(B0), 3, BIG(B1), 3); });
  bigop("B1 = vec_znx_big_sub(B0, B1) in place", B1, {B0, B1}, [](const MState& m) { return vadd(m.s[B0].v, m.s[B1].v, -1); }, [](Real& R) { vec_znx_big_sub(R.mod, BIG(B1), 3, BIG(B0), 3, BIG(B1), 3); });
  bigop("B0 = vec_znx_big_add_small(B0, V1)", B0, {B0, V1}, [](const MState& m) { return vadd3(m.s[B0].v, m.s[V1].v, 1); }, [](Real& R) { vec_znx_big_add_small(R.mod, BIG(B0), 3, BIG(B0), 3, R.v(V1), 2, R.sl[1]); });
  bigop("B1 = vec_znx_big_sub_small_a(V0, B1)", B1, {V0, B1}, [](const MState& m) { return vadd3(m.s[V0].v, m.s[B1].v, -1); }, [](Real& R) { vec_znx_big_sub_small_a(R.mod, BIG(B1), 3, R.v(V0), 2, R.sl[0], BIG(B1), 3); });
  bigop("B0 = vec_znx_big_sub_small_b(B0, V2)", B0, {B0, V2}, [](const MState& m) { return vadd3(m.s[B0].v, m.s[V2].v, -1); }, [](Real& R) { vec_znx_big_sub_small_b(R.mod, BIG(B0), 3, BIG(B0), 3, R.v(V2), 2, R.sl[2]); });
  bigop("B1 = vec_znx_big_add_small2(V0, V1)", B1, {V0, V1}, [](const MState& m) { return vadd3(m.s[V0].v, m.s[V1].v, 1); }, [](Real& R) { vec_znx_big_add_small2(R.mod, BIG(B1), 3, R.v(V0), 2, R.sl[0], R.v(V1), 2, R.sl[1]); });
  bigop("B0 = vec_znx_big_sub_small2(V1, V2)", B0, {V1, V2}, [](const MState& m) { return vadd3(m.s[V1].v, m.s[V2].v, -1); }, [](Real& R) { vec_znx_big_sub_small2(R.mod, BIG(B0), 3, R.v(V1), 2, R.sl[1], R.v(V2), 2, R.sl[2]); });
  bigop("B0 = vec_znx_big_rotate(B0, 3) in place", B0, {B0}, [](const MState& m) { return vmap(m.s[B0].v, [](const Poly& p) { return poly_rotate(p, 3); }); }, [](Real& R) { vec_znx_big_rotate(R.mod, 3, BIG(B0), 3, BIG(B0), 3); });
  bigop("B1 = vec_znx_big_automorphism(B0, 5)", B1, {B0}, [](const MState& m) { return vmap(m.s[B0].v, [](const Poly& p) { return poly_automorphism(p, 5); }); }, [](Real& R) { vec_znx_big_automorphism(R.mod, 5, BIG(B1), 3, BIG(B0), 3); });
  ops.push_back({"V2 = vec_znx_big_normalize_base2k(8, B0)", true, [=](const MState& m, const Budget&, MState& n) { if (!defd(m, {B0})) return false; n = m; auto d = vnorm(m.s[B0].v, K); setv(n, V2, {d[0], d[1]}); return true; },
                 [=](Real& R) { vec_znx_big_normalize_base2k(R.mod, K, R.v(V2), 2, R.sl[2], BIG(B0), 3, R.tmp.p); }});
  ops.push_back({"V1 = vec_znx_big_range_normalize_base2k(8, B1[0:2:1])", true, [=](const MState& m, const Budget&, MState& n) { if (!defd(m, {B1})) return false; n = m; setv(n, V1, vnorm({m.s[B1].v[0], m.s[B1].v[1]}, K)); return true; },
                 [=](Real& R) { vec_znx_big_range_normalize_base2k(R.mod, K, R.v(V1), 2, R.sl[1], BIG(B1), 0, 2, 1, R.tmp.p); }});
  ops.push_back({"V1 = vec_znx_big_range_normalize_base2k(8, B1[0:3:2])", true, [=](const MState& m, const Budget&, MState& n) { if (!defd(m, {B1})) return false; n = m; setv(n, V1, vnorm({m.s[B1].v[0], m.s[B1].v[2]}, K)); return true; },
                 [=](Real& R) { vec_znx_big_range_normalize_base2k(R.mod, K, R.v(V1), 2, R.sl[1], BIG(B1), 0, 3, 2, R.tmp.p); }});
  ops.push_back({"V0 limb0 = vec_znx_big_range_normalize_base2k(8, B0[1:2:1])", true, [=](const MState& m, const Budget&, MState& n) { if (!defd(m, {B0, V0})) return false; n = m; auto d = vnorm({m.s[B0].v[1]}, K); n.s[V0].v[0] = d[0]; return true; },
                 [=](Real& R) { vec_znx_big_range_normalize_base2k(R.mod, K, R.v(V0), 1, R.sl[0], BIG(B0), 1, 2, 1, R.tmp.p); }});
  ops.push_back({"V2 limb0 = znx_small_single_product(V0 limb0, V1 limb0)", true, [=](const MState& m, const Budget& b, MState& n) { if (!defd(m, {V0, V1, V2}) || !b.prod_ok({&m.s[V0].v[0]}, {&m.s[V1].v[0]})) return false; Poly r = negacyclic_mul(m.s[V0].v[0], m.s[V1].v[0]); if (!int_ok({r})) return false; n = m; n.s[V2].v[0] = r; return true; },
                 [](Real& R) { GBuf t(znx_small_single_product_tmp_bytes(R.mod), 8); znx_small_single_product(R.mod, R.v(V2), R.v(V0), R.v(V1), t.p); }});
  ops.push_back({"V2 limb0 = znx_small_single_product(V1 limb0, V1 limb0)  (same pointer twice)", true, [=](const MState& m, const Budget& b, MState& n) { if (!defd(m, {V1, V2}) || !b.prod_ok({&m.s[V1].v[0]}, {&m.s[V1].v[0]})) return false; Poly r = negacyclic_mul(m.s[V1].v[0], m.s[V1].v[0]); if (!int_ok({r})) return false; n = m; n.s[V2].v[0] = r; return true; },
                 [](Real& R) { GBuf t(znx_small_single_product_tmp_bytes(R.mod), 8); znx_small_single_product(R.mod, R.v(V2), R.v(V1), R.v(V1), t.p); }});
  return ops;
}

// initial vectors.  data 0: small polynomials.  data 1: magnitudes at the edge of the representation -
// NTT120: the extremes of int64 (the NTT120 budget is 2^119, so every int64 is a legal input of vec_znx_dft);
// FFT64: V0 near the largest magnitude for which products with V1 stay inside the C01 budget.
static MState initial(uint64_t N, bool ntt, int data) {
  MState m; m.N = N;
  for (int s = V0; s <= V1; ++s) { m.s[s].def = true; m.s[s].v.assign(2, pzero(N)); for (int l = 0; l < 2; ++l) for (uint64_t j = 0; j < N; ++j) m.s[s].v[l][j] = (i128)(((int64_t)((j * 7 + l * 3 + s * 5 + 1) % 13)) - 6) * (l ? 37 : 1); }
  if (data == 1 && ntt) {
    const int64_t ext[8] = {INT64_MIN, INT64_MAX, INT64_MIN + 1, -1, INT64_MIN + 123456789, INT64_MAX - 1, -(INT64_C(1) << 62), (INT64_C(1) << 62) + 12345};
    for (int l = 0; l < 2; ++l) for (uint64_t j = 0; j < N; ++j) { m.s[V0].v[l][j] = ext[(j + 3 * l) % 8]; if ((j + l) % 3 == 0) m.s[V1].v[l][j] = ext[(j + l + 5) % 8]; }
  } else if (data == 2) {
    // every coefficient of V0 a non-zero multiple of 2^32 (a plaintext scaled by a power of two), V1 small
    for (int l = 0; l < 2; ++l) for (uint64_t j = 0; j < N; ++j) { int64_t v = (int64_t)((j * 3 + l) % 7 + 1) << (32 + l); m.s[V0].v[l][j] = ((j + l) & 1) ? -v : v; }
  } else if (data == 1) {
    for (int l = 0; l < 2; ++l) for (uint64_t j = 0; j < N; ++j) { int64_t mag = (INT64_C(1) << 34) / (int64_t)N; int64_t v = mag - (int64_t)((j * 2654435761u + l * 40503u) % (uint64_t)(mag / 4 + 1)); m.s[V0].v[l][j] = ((j + l) & 1) ? -v : v; }
  }
  return m;
}

struct Node { std::vector<uint8_t> hist; };

// replays a history on fresh real objects; checks every integer slot and every DFT slot against the model after the last op
static std::string replay(const std::vector<Op>& ops, MODULE* mod, MODULE_TYPE t, uint64_t N, int data, const std::vector<uint8_t>& hist) {
  Budget bud{t == NTT120, N};
  MState m = initial(N, t == NTT120, data), n;
  Real R(mod, t, N);
  R.set_vec(V0, m.s[V0].v); R.set_vec(V1, m.s[V1].v);
  for (size_t i = 0; i < hist.size(); ++i) {
    if (!ops[hist[i]].model(m, bud, n)) return "MACHINERY: history contains a disabled op";
    m = n;
    ops[hist[i]].real(R);
  }
  if (!R.guards()) return "a call wrote outside a declared extent";
  for (int s = V0; s <= V2; ++s) if (m.s[s].def) for (int l = 0; l < 2; ++l) for (uint64_t j = 0; j < N; ++j)
    if ((i128)R.v(s)[l * R.sl[s] + j] != m.s[s].v[l][j]) return sfmt("slot %s limb %d coefficient %llu is %lld, the exact value of the expression is %s", SN[s], l, (unsigned long long)j, (long long)R.v(s)[l * R.sl[s] + j], i128_str(m.s[s].v[l][j]).c_str());
  for (int s = B0; s <= B1; ++s) if (m.s[s].def) for (int l = 0; l < 3; ++l) for (uint64_t j = 0; j < N; ++j)
    if (R.big_at(s, l, j) != m.s[s].v[l][j]) return sfmt("slot %s limb %d coefficient %llu is %s, the exact value of the expression is %s", SN[s], l, (unsigned long long)j, i128_str(R.big_at(s, l, j)).c_str(), i128_str(m.s[s].v[l][j]).c_str());
  // read out the DFT slots on copies
  for (int s = D0; s <= D1; ++s) if (m.s[s].def && bud.big_ok(m.s[s].v)) {
    GBuf cp(R.b[s].bytes, 16), big(big_bytes(t, N, 3), 8);
    memcpy(cp.p, R.b[s].p, cp.bytes);
    vec_znx_idft_tmp_a(mod, (VEC_ZNX_BIG*)big.p, 3, (VEC_ZNX_DFT*)cp.p, 3);
    for (int l = 0; l < 3; ++l) for (uint64_t j = 0; j < N; ++j) {
      i128 g; if (t == FFT64) g = big.as<int64_t>()[l * N + j]; else memcpy(&g, big.p + 16 * (l * N + j), 16);
      if (g != m.s[s].v[l][j]) return sfmt("DFT slot %s (produced by %s) read out through idft: limb %d coefficient %llu is %s, the exact value is %s", SN[s], m.s[s].expr.c_str(), l, (unsigned long long)j, i128_str(g).c_str(), i128_str(m.s[s].v[l][j]).c_str());
    }
  }
  return "";
}

int main(int argc, char** argv) {
  Args args = parse_args("C16", argc, argv, 480, 2400);
  Ctx ctx(args);
  const bool th = args.thorough();
  std::vector<Op> ops = make_ops();
  struct Cfg { uint64_t N; MODULE_TYPE t; int depth; int data; };
  std::vector<Cfg> cfgsv;
  for (uint64_t N : (th ? std::vector<uint64_t>{4, 8, 16, 64} : std::vector<uint64_t>{4, 8})) for (int data = 0; data < 3; ++data) { cfgsv.push_back({N, FFT64, th ? (N <= 8 ? 6 : 5) : 5, data}); cfgsv.push_back({N, NTT120, th ? 7 : 6, data}); }
  uint64_t tot_states = 0, tot_trans = 0, capped_levels = 0;
  Json perj = Json::arr();
  for (auto& C : cfgsv) {
    MODULE* mod = get_module(C.N, C.t, CFG_NATIVE);
    Budget bud{C.t == NTT120, C.N};
    // parent: model-only breadth-first enumeration; one representative history per distinct model state
    std::set<std::pair<uint64_t, uint64_t>> seen;
    std::vector<std::pair<MState, std::vector<uint8_t>>> frontier, next;
    MState m0 = initial(C.N, C.t == NTT120, C.data);
    uint64_t h1, h2; key_of(m0, h1, h2); seen.insert({h1, h2});
    frontier.push_back({m0, {}});
    std::vector<std::vector<uint8_t>> transitions;  // history + op
    uint64_t states = 1;
    const uint64_t TRANS_CAP = th ? 6000000 : 1500000;
    for (int d = 0; d < C.depth && !frontier.empty(); ++d) {
      next.clear();
      for (auto& f : frontier) {
        for (size_t k = 0; k < ops.size(); ++k) {
          if (C.t == NTT120 && ops[k].fft64_only) continue;
          MState n;
          if (!ops[k].model(f.first, bud, n)) continue;
          if (transitions.size() >= TRANS_CAP) { capped_levels++; goto done_enum; }
          std::vector<uint8_t> h = f.second; h.push_back((uint8_t)k);
          transitions.push_back(h);
          key_of(n, h1, h2);
          if (seen.insert({h1, h2}).second) { ++states; if (d + 1 < C.depth) next.push_back({n, h}); }
        }
      }
      frontier.swap(next);
    }
  done_enum:
    frontier.clear(); next.clear();
    tot_states += states; tot_trans += transitions.size();
    perj.push(sfmt("N=%llu %s data %d depth %d: %llu model states, %llu transitions", (unsigned long long)C.N, mtname(C.t), C.data, C.depth, (unsigned long long)states, (unsigned long long)transitions.size()));
    // workers: replay every transition on the real code
    const uint64_t chunk = 256;
    ctx.parallel((transitions.size() + chunk - 1) / chunk, [&](uint64_t ci) {
      for (uint64_t i = ci * chunk; i < std::min<uint64_t>(transitions.size(), (ci + 1) * chunk); ++i) {
        const auto& h = transitions[i];
        std::string id = sfmt("pipeline|%s|N=%llu|data=%d|", mtname(C.t), (unsigned long long)C.N, C.data);
        for (size_t j = 0; j < h.size(); ++j) { if (j) id += " ; "; id += ops[h[j]].name; }
        if (!ctx.want(id)) continue;
        ctx.begin_case(id);
        std::string err = replay(ops, mod, C.t, C.N, C.data, h);
        if (err.compare(0, 9, "MACHINERY") == 0) machinery_error("%s", err.c_str());
        if (!err.empty()) ctx.violation(id, err);
        ctx.end_case(true);
      }
    }, "replay on the real code");
  }
  Json ex = Json::obj();
  ex.set("states", tot_states).set("transitions", tot_trans).set("traces_validated_against_impl", tot_trans).set("per_configuration", perj).set("op_instances", (long long)ops.size());
  if (capped_levels) ex.set("enumeration_cap", "the transition cap was reached in at least one configuration: the deepest level of that configuration is incomplete");
  ctx.assumptions = {"an op is enabled only when the interpreter's exact result stays inside the budget of its representation (FFT64: summed C01 error budget < 1/4 and |x|_1 < 2^44 in DFT space, |coeff| < 2^50 for big vectors; NTT120: |coeff| < 2^110); sequences leaving the budget are pruned, not judged",
                     "model states are merged only when all slot values and, for opaque DFT/prepared slots, the producing expression coincide", "three initial datasets per configuration: small polynomials; magnitudes at the edge of the representation (NTT120: int64 extremes incl. INT64_MIN; FFT64: ~2^34/N against small multipliers); V0 with every coefficient a multiple of 2^32; each node is rebuilt by replaying its history on fresh objects"};
  return ctx.finish("model_checking",
                    "breadth-first enumeration of the model state graph over ~30 op instances of the public API (coefficient ops, normalisation, dft, svp, vmp, idft, idft_tmp_a, big arithmetic, small product) to the depth bound for N in {4,8} (both VMP layouts; 16, 64 thorough) and both module types; "
                    "every transition replayed on the real library and compared with the exact interpreter; distinct = distinct pipelines",
                    capped_levels == 0, ex);
}
