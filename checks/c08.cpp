// C08 — vec_znx size/stride semantics: zero-extend, truncate, write only res limbs.
// Engine A: bounded-exhaustive enumeration of (op, N, module type, cfg, sizes, strides, p); the
// oracle is the byte-exact model image of the whole output allocation (payload, stride padding,
// limbs past res_size, guard zones) and of every input.
#include "../harness/vecops.hpp"
#include "../harness/hugestride.hpp"
extern "C" {
#include "coeffs/coeffs_arithmetic.h"
}
using namespace vf;

struct Item { uint64_t N; int op; int mtype; CpuCfg cfg; bool full_strides; bool sparse = false; bool wide = false; };

static void run_item(Ctx& ctx, const Item& it) {
  const VecOp& op = VECOPS[it.op];
  const uint64_t N = it.N;
  MODULE* mod = get_module(N, it.mtype == 0 ? FFT64 : NTT120, it.cfg);
  const char* mt = it.mtype == 0 ? "fft64" : "ntt120";
  std::vector<uint64_t> strides = it.full_strides ? std::vector<uint64_t>{N, N + 1, N + 3, 2 * N + 5} : std::vector<uint64_t>{N, N + 1};
  std::vector<int64_t> ps = {0};
  if (op.has_p && op.model == 'r') ps = {1, (int64_t)N - 1, (int64_t)N + 3, -5, 0, (int64_t)(2 * N), -(int64_t)(2 * N), (int64_t)N};
  if (op.has_p && op.model == 'a') ps = {3, (int64_t)(2 * N - 1), -3, 1, (int64_t)(2 * N + 1), (int64_t)N + 1};
  std::vector<uint64_t> one = {N};
  const std::vector<uint64_t>& rsls = op.res_big ? one : strides;
  const std::vector<uint64_t>& asls = (op.a_big || op.nin < 1) ? one : strides;
  const std::vector<uint64_t>& bsls = (op.b_big || op.nin < 2) ? one : strides;
  ExecResult r;
  // limb counts: the complete box {0..3}^3 plus every combination of the larger counts {5, 9}
  std::vector<uint64_t> SZ = {0, 1, 2, 3, 5, 9}, SZ0 = {0};
  if (it.sparse) SZ = {0, 1, 3};  // large-N layer of the quick tier
  if (it.wide) SZ = {0, 1, 33, 65, 129, 257, 1025};  // wide layer: limb counts around 32, 64, 128, 256 at small N
  for (uint64_t rs : SZ)
    for (uint64_t as : (op.nin >= 1 ? SZ : SZ0))
      for (uint64_t bs : (op.nin >= 2 ? SZ : SZ0))
        for (uint64_t rsl : rsls) for (uint64_t asl : asls) for (uint64_t bsl : bsls)
          for (int64_t p : ps) {
            VecShape s; s.N = N; s.rs = rs; s.as = as; s.bs = bs; s.rsl = rsl; s.asl = asl; s.bsl = bsl; s.p = p; s.res_extra = 1;
            // out of place, and (size/stride semantics must not depend on it) with the output being the first input
            // ... or a one-limb view of it with another stride (same pointer, only limb 0 coincides)
            for (int al = 0; al < 3; ++al) {
              if (al == 1 && (op.nin < 1 || rsl != asl)) continue;
              if (al == 2 && (op.nin < 1 || rsl == asl)) continue;
              s.alias = al == 0 ? AL_NONE : al == 1 ? AL_RES_A : AL_RES_A_VIEW;
              if (al && !alias_ok(op, canon_shape(op, s))) continue;
              ApiCase c = gen_vecop(mod, op, s, mt, it.cfg.name);
              if (!ctx.want(c.id)) continue;
              ctx.begin_case(c.id);
              ExecOpts o; o.prefill = (int)((rs + as + bs) % 3);
              execute(c, o, r);
              std::string err = judge_model(c, r);
              if (err.empty()) {  // once more with all operands packed back to back in one block (disjoint but touching buffers)
                o.adjacent = 1 + (int)((rs + as) & 1);
                execute(c, o, r);
                err = judge_model(c, r);
                if (!err.empty()) err += " (operands packed back to back)";
              }
              if (!err.empty()) ctx.violation(c.id, err);
              ctx.end_case(c.nontrivial);
            }
          }
}

// bulk layer: outputs of 16 MiB and more (N x limbs x 8 bytes) with strides N and N+1 - a path chosen by the total amount of data
// (non-temporal stores, blocking, prefetch distances) must still honour "no alignment beyond 8 bytes" and the size / stride semantics
static void run_bulk(Ctx& ctx, int opi, int mtype, int shape) {
  ExecResult r;
  bulk_vec_cases(opi, mtype, shape, [&](ApiCase& c) {
    if (!ctx.want(c.id)) return;
    ctx.begin_case(c.id);
    for (int off : {0, 8}) {
      ExecOpts o; o.prefill = 1; for (int i = 0; i < 12; ++i) o.off[i] = off * (i == 0 ? 1 : (i & 1));
      execute(c, o, r);
      std::string err = judge_model(c, r);
      if (!err.empty()) { ctx.violation(c.id, err + sfmt(" (output at %d modulo 64)", off)); break; }
    }
    ctx.end_case(true);
  });
}

// element-level kernels on the full square of the value alphabet, nn = 1, 2, 4 (and 8 for the avx forms)
typedef void (*bin_f)(uint64_t, int64_t*, const int64_t*, const int64_t*);
typedef void (*un_f)(uint64_t, int64_t*, const int64_t*);
static void run_kernels(Ctx& ctx) {
  static const int64_t A[] = {0, 1, -1, INT64_C(1) << 31, -(INT64_C(1) << 31), INT64_C(1) << 61, -(INT64_C(1) << 61),
                              (INT64_C(1) << 62) - 1, -((INT64_C(1) << 62) - 1)};
  const int na = sizeof(A) / sizeof(A[0]);
  struct BK { const char* name; bin_f f; char m; uint64_t minnn; };
  struct UK { const char* name; un_f f; char m; uint64_t minnn; };
  BK bk[] = {{"znx_add_i64_ref", znx_add_i64_ref, '+', 1}, {"znx_sub_i64_ref", znx_sub_i64_ref, '-', 1},
             {"znx_add_i64_avx", znx_add_i64_avx, '+', 1}, {"znx_sub_i64_avx", znx_sub_i64_avx, '-', 1}};
  UK uk[] = {{"znx_negate_i64_ref", znx_negate_i64_ref, 'n', 1}, {"znx_negate_i64_avx", znx_negate_i64_avx, 'n', 1},
             {"znx_copy_i64_ref", znx_copy_i64_ref, 'c', 1}};
  for (uint64_t nn : {1, 2, 4, 8, 16}) {
    for (auto& k : bk)
      for (int pos = 0; pos < (int)std::min<uint64_t>(nn, 5); ++pos) {
        std::string id = sfmt("kernel|%s|nn=%llu|pos=%d|alphabet-square", k.name, (unsigned long long)nn, pos);
        if (!ctx.want(id)) continue;
        ctx.begin_case(id);
        // the alphabet pair (x,y) is placed at position pos, other positions hold probes
        for (int x = 0; x < na; ++x) for (int y = 0; y < na; ++y) {
          GBuf r(nn * 8, 8), a(nn * 8, 16), b(nn * 8, 24);
          prefill(r.p, nn * 8, 1);
          for (uint64_t j = 0; j < nn; ++j) { a.as<int64_t>()[j] = probe62(j + 2) / 2; b.as<int64_t>()[j] = probe62(j + 100) / 2; }
          a.as<int64_t>()[pos] = A[x]; b.as<int64_t>()[pos] = A[y];
          k.f(nn, r.as<int64_t>(), a.as<int64_t>(), b.as<int64_t>());
          for (uint64_t j = 0; j < nn; ++j) {
            int64_t aj = a.as<int64_t>()[j], bj = b.as<int64_t>()[j];
            int64_t e = k.m == '+' ? aj + bj : aj - bj;
            if (r.as<int64_t>()[j] != e)
              ctx.violation(id, sfmt("element %llu: %lld %c %lld gave %lld", (unsigned long long)j, (long long)aj, k.m, (long long)bj,
                                     (long long)r.as<int64_t>()[j]));
          }
          if (!r.guards_ok() || !a.guards_ok() || !b.guards_ok()) ctx.violation(id, "write outside the nn elements");
        }
        ctx.end_case(true);
      }
    for (auto& k : uk) {
      std::string id = sfmt("kernel|%s|nn=%llu|alphabet", k.name, (unsigned long long)nn);
      if (!ctx.want(id)) continue;
      ctx.begin_case(id);
      for (int x = 0; x < na; ++x) {
        GBuf r(nn * 8, 8), a(nn * 8, 24);
        prefill(r.p, nn * 8, 1);
        for (uint64_t j = 0; j < nn; ++j) a.as<int64_t>()[j] = probe62(j + 2);
        a.as<int64_t>()[x % nn] = A[x];
        k.f(nn, r.as<int64_t>(), a.as<int64_t>());
        for (uint64_t j = 0; j < nn; ++j) {
          int64_t aj = a.as<int64_t>()[j];
          int64_t e = k.m == 'n' ? -aj : aj;
          if (r.as<int64_t>()[j] != e) ctx.violation(id, sfmt("element %llu: input %lld gave %lld", (unsigned long long)j, (long long)aj, (long long)r.as<int64_t>()[j]));
        }
        if (!r.guards_ok() || !a.guards_ok()) ctx.violation(id, "write outside the nn elements");
      }
      ctx.end_case(true);
    }
    {
      std::string id = sfmt("kernel|znx_zero_i64_ref|nn=%llu", (unsigned long long)nn);
      if (ctx.want(id)) {
        ctx.begin_case(id);
        GBuf r(nn * 8, 8);
        prefill(r.p, nn * 8, 1);
        znx_zero_i64_ref(nn, r.as<int64_t>());
        for (uint64_t j = 0; j < nn; ++j) if (r.as<int64_t>()[j] != 0) ctx.violation(id, "not zeroed");
        if (!r.guards_ok()) ctx.violation(id, "write outside the nn elements");
        ctx.end_case(true);
      }
    }
  }
}

// the same element kernels on very long vectors (nn = 2^16, 2^21: one polynomial of 16 MiB), every 8-byte alignment of the output modulo 32,
// out of place and in place (res == a): a path chosen by the amount of data must still compute every coefficient exactly once
static void run_kernels_large(Ctx& ctx, uint64_t nn) {
  struct K { const char* name; void* f; int nin; char m; };
  K ks[] = {{"znx_add_i64_ref", (void*)znx_add_i64_ref, 2, '+'}, {"znx_add_i64_avx", (void*)znx_add_i64_avx, 2, '+'}, {"znx_sub_i64_ref", (void*)znx_sub_i64_ref, 2, '-'},
            {"znx_sub_i64_avx", (void*)znx_sub_i64_avx, 2, '-'}, {"znx_negate_i64_ref", (void*)znx_negate_i64_ref, 1, 'n'}, {"znx_negate_i64_avx", (void*)znx_negate_i64_avx, 1, 'n'},
            {"znx_copy_i64_ref", (void*)znx_copy_i64_ref, 1, 'c'}, {"znx_zero_i64_ref", (void*)znx_zero_i64_ref, 0, 'z'}};
  for (auto& k : ks)
    for (size_t ro : {0, 8, 16, 24}) for (int al = 0; al < 3; ++al) {
      if (al == 1 && k.nin < 1) continue;   // res == a
      if (al == 2 && k.nin < 2) continue;   // res == b
      std::string id = sfmt("kernel|%s|nn=%llu|res at %zu mod 32|%s", k.name, (unsigned long long)nn, ro, al == 0 ? "out of place" : al == 1 ? "res == a" : "res == b");
      if (!ctx.want(id)) continue;
      ctx.begin_case(id);
      GBuf r(nn * 8, ro), a(nn * 8, (ro + 8) % 32), b(nn * 8, 16);
      int64_t* A = al == 1 ? r.as<int64_t>() : a.as<int64_t>();
      int64_t* B = al == 2 ? r.as<int64_t>() : b.as<int64_t>();
      prefill(r.p, nn * 8, 2);
      for (uint64_t j = 0; j < nn; ++j) { A[j] = probe62(j + 2) / 2; }
      if (k.nin >= 2) for (uint64_t j = 0; j < nn; ++j) B[j] = probe62(j + 1000003) / 2;
      if (k.nin == 2) ((bin_f)k.f)(nn, r.as<int64_t>(), A, B); else if (k.nin == 1) ((un_f)k.f)(nn, r.as<int64_t>(), A); else ((void (*)(uint64_t, int64_t*))k.f)(nn, r.as<int64_t>());
      for (uint64_t j = 0; j < nn; ++j) {
        int64_t aj = probe62(j + 2) / 2, bj = probe62(j + 1000003) / 2;
        int64_t e = k.m == '+' ? aj + bj : k.m == '-' ? aj - bj : k.m == 'n' ? -aj : k.m == 'c' ? aj : 0;
        if (r.as<int64_t>()[j] != e) { ctx.violation(id, sfmt("element %llu is %lld, expected %lld", (unsigned long long)j, (long long)r.as<int64_t>()[j], (long long)e)); break; }
      }
      if (!r.guards_ok() || !a.guards_ok() || !b.guards_ok()) ctx.violation(id, "write outside the nn elements");
      ctx.end_case(true);
    }
}

int main(int argc, char** argv) {
  Args args = parse_args("C08", argc, argv, 240, 1500);
  Ctx ctx(args);
  std::vector<Item> items;
  std::vector<uint64_t> Ns = {2, 4, 8, 16, 32};
  std::vector<uint64_t> NM = {64, 256, 1024, 4096}, NL = {16384, 65536};
  auto cf = cfgs(args.thorough());
  auto add_items = [&](uint64_t N, bool full) {
    for (int op = 0; op < NVECOPS; ++op)
      for (int mt = 0; mt < 2; ++mt) {
        if (mt == 1 && VECOPS[op].fft64_only) continue;
        for (auto& c : cf) items.push_back({N, op, mt, c, full});
      }
  };
  for (uint64_t N : Ns) add_items(N, true);
  if (!args.thorough()) for (uint64_t N : {2048, 16384, 65536}) { size_t k0 = items.size(); add_items(N, false); for (size_t k = k0; k < items.size(); ++k) items[k].sparse = true; }
  for (uint64_t N : {4, 16}) { size_t k0 = items.size(); add_items(N, false); for (size_t k = k0; k < items.size(); ++k) items[k].wide = true; }
  if (args.thorough()) {
    for (uint64_t N : NM) add_items(N, true);
    for (uint64_t N : NL) add_items(N, false);
  }
  // large N first in thorough so that the load balances
  std::stable_sort(items.begin(), items.end(), [](const Item& a, const Item& b) { return a.N > b.N; });
  ctx.parallel(items.size(), [&](uint64_t i) { run_item(ctx, items[i]); }, "vec ops");
  ctx.parallel(1, [&](uint64_t) { run_kernels(ctx); }, "kernels");
  { std::vector<uint64_t> big = {UINT64_C(1) << 21, UINT64_C(1) << 16, 4096}; if (args.thorough()) big.insert(big.begin(), UINT64_C(1) << 23);
    ctx.parallel(big.size(), [&](uint64_t i) { run_kernels_large(ctx, big[i]); }, "kernels on very long vectors"); }
  struct BItem { int op, mt, shape; };
  std::vector<BItem> bitems;
  for (int shape = 0; shape < (args.thorough() ? 3 : 2); ++shape)
    for (int op = 0; op < NVECOPS; ++op) for (int mt = 0; mt < 2; ++mt) if (!(mt == 1 && VECOPS[op].fft64_only)) bitems.push_back({op, mt, shape});
  ctx.parallel(bitems.size(), [&](uint64_t i) { run_bulk(ctx, bitems[i].op, bitems[i].mt, bitems[i].shape); }, "bulk outputs (16 MiB and more)");
  // huge strides: limb offsets beyond 2^31 / 2^32 elements or bytes (sparse PROT_NONE reservations, only the limbs are accessible)
  struct HItem { uint64_t N; int op; int mt; CpuCfg cfg; };
  std::vector<HItem> hitems;
  for (uint64_t N : {8, 1024})
    for (int op = 0; op < NVECOPS; ++op)
      for (int mt = 0; mt < 2; ++mt) {
        if (mt == 1 && VECOPS[op].fft64_only) continue;
        for (auto& c : cf) hitems.push_back({N, op, mt, c});
      }
  ctx.parallel(hitems.size(), [&](uint64_t i) { huge_stride_vecops(ctx, hitems[i].N, hitems[i].op, hitems[i].mt, hitems[i].cfg); }, "huge strides");
  ctx.assumptions = {"inputs bounded by 2^62 in absolute value (no int64 overflow in add/sub/negate)",
                     "strides >= N; big operands have stride N by definition; strides up to 2^32 + N + 1 elements (limb offsets beyond 32-bit element and byte arithmetic) are part of the box",
                     "the ops are element-wise with shape-only control flow: one injective 62-bit probe per shape fixes the behaviour; the element function is enumerated on the value-alphabet square separately"};
  Json extra = Json::obj();
  Json ns = Json::arr();
  for (uint64_t N : Ns) ns.push(N);
  if (args.thorough()) { for (uint64_t N : NM) ns.push(N); for (uint64_t N : NL) ns.push(N); } else { ns.push(2048); ns.push(16384); ns.push(65536); }
  extra.set("ring_dimensions", ns).set("ops", NVECOPS).set("cfgs", (int)cf.size());
  return ctx.finish("exploration",
                    "nested product op x N x module type x cfg x (res_size,a_size,b_size) in {0,1,2,3,5,9}^3 x strides {N,N+1,N+3,2N+5} per small operand x p set; "
                    "plus a bulk layer (outputs >= 16 MiB: 33 limbs at N = 65536, 160 at N = 16384, 2049 at N = 1024; strides N, N+1, N+4; output at 0 and 8 modulo 64; in place and out of place), a wide layer (limb counts {0,1,33,65,129,257}^3 at N = 4, 16) and a huge-stride layer (2^28+N+1, 2^29+N, 2^31+N+3, 2^32+N+1 on every non-empty subset of the small operands, 2-3 limbs, N = 8 and 1024); "
                    "a case is non-trivial when res_size > 0 (something must be written); distinct = distinct case ids",
                    true, extra);
}
