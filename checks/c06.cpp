// C06 — reim/cplx FFT and iFFT equal the mathematical transform, in documented order.
// Engine A: every m = 1..4096 (65536 thorough) x 8 implementations (reference and AVX2/FMA drivers of
// the split and interleaved layouts, forward and inverse; the 2/4/8/16-point C and assembly leaves
// are the m <= 16 cases) x input alphabet: ALL unit impulses (complete basis; exact output is a table
// look-up), constants, resonant vectors, large dynamic range, seeded dense vectors.
// Oracle: evaluation at omega^(1+4 bitrev(j)), omega = exp(i pi/(2m)), computed in binary128;
// accept iff ||out - exact||_2 <= 8 log2(2m) 2^-53 ||exact||_2.  Tables must be read-only and
// repeated calls bit-identical.
#include "../harness/fftoracle.hpp"
using namespace vf;

// impulses: exact output is a table look-up
static void impulses(Ctx& ctx, const Runner& R, const Tables& T, uint64_t k0, uint64_t k1, bool all) {
  const uint64_t m = R.m;
  std::string id = sfmt("impulses|%s|m=%llu|k=%llu..%llu%s", IN[R.impl], (unsigned long long)m, (unsigned long long)k0, (unsigned long long)(k1 - 1), all ? "" : "|sampled");
  if (!ctx.want(id)) return;
  ctx.begin_case(id);
  GBuf d(2 * m * 8, 8), d2(2 * m * 8, 8);
  const double bnd = bound_of(m);
  long double frob = 0;
  uint64_t h0 = R.table_hash();
  bool bad = false;
  for (uint64_t k = k0; k < k1 && !bad; ++k) {
    if (!all) { bool sel = k < 4 || k + 4 >= m || k == m / 2 || k == m / 2 - 1 || !(k & (k - 1)) || k % 61 == 0; if (!sel) continue; }
    for (int part = 0; part < 2 && !bad; ++part) {  // real impulse, imaginary impulse
      memset(d.p, 0, 2 * m * 8);
      d.as<double>()[part ? R.pim(k) : R.pre(k)] = 1.0;
      memcpy(d2.p, d.p, 2 * m * 8);
      R.run(d.as<double>());
      R.run(d2.as<double>());
      if (memcmp(d.p, d2.p, 2 * m * 8)) { ctx.violation(id, sfmt("impulse %llu: two calls with the same table and input are not bit-identical", (unsigned long long)k)); bad = true; break; }
      long double err2 = 0;
      for (uint64_t j = 0; j < m; ++j) {
        // forward: out_j = omega^(e_j k);  inverse: in = e_k at evaluation index k, out_j = omega^(-j e_k)
        uint64_t t = is_inv(R.impl) ? (4 * m - (j * T.expo(k)) % (4 * m)) % (4 * m) : (T.expo(j) * k) % (4 * m);
        long double er = T.Wr[t], ei = T.Wi[t];
        if (part) { long double tr = -ei; ei = er; er = tr; }  // times i
        long double dr = (long double)d.as<double>()[R.pre(j)] - er, di = (long double)d.as<double>()[R.pim(j)] - ei;
        err2 += dr * dr + di * di;
      }
      frob += err2;
      double ratio = (double)(sqrtl(err2) / sqrtl((long double)m)) / bnd;
      ctx.metric_max(0, ratio);
      if (!(ratio <= 1.0)) { ctx.violation(id, sfmt("%s impulse at %llu: ||out - exact|| / ||exact|| = %.3g exceeds the bound %.3g (ratio %.3g)", part ? "imaginary" : "real", (unsigned long long)k, ratio * bnd, bnd, ratio)); bad = true; }
    }
  }
  if (R.table_hash() != h0) ctx.violation(id, "the precomputed table was modified by the transform");
  if (!d.guards_ok() || !d2.guards_ok()) ctx.violation(id, "write outside the 2m doubles");
  if (all) ctx.metric_max(1, (double)(sqrtl(frob) / sqrtl(2.0L * (long double)(k1 - k0) * (long double)m)));
  ctx.metric_add(2, 2 * (k1 - k0));
  ctx.end_case(m > 1);
}

static void vectors(Ctx& ctx, const Runner& R, const Tables& T) {
  const uint64_t m = R.m;
  const double bnd = bound_of(m);
  Rng rng(ctx.args.seed * 1315423911ull + m * 31 + R.impl);
  std::vector<std::string> names;
  std::vector<std::vector<double>> ins;  // each 2m doubles as (re_k, im_k) pairs k-major
  auto push = [&](const std::string& nm, const std::vector<double>& v) { names.push_back(nm); ins.push_back(v); };
  { std::vector<double> v(2 * m); for (uint64_t k = 0; k < m; ++k) { v[2 * k] = 1; v[2 * k + 1] = 0; } push("constant 1", v); for (uint64_t k = 0; k < m; ++k) v[2 * k + 1] = 1; push("constant 1+i", v); }
  {
    std::set<uint64_t> js = {0, 1, 2, 3, m / 2 - 1, m / 2, m - 2, m - 1};
    for (uint64_t t = 1; t < m; t <<= 1) js.insert(t);
    if (m <= 256 || ctx.args.thorough()) { if (m <= 256) for (uint64_t j = 0; j < m; ++j) js.insert(j); }
    for (uint64_t j : js) {
      if (j >= m) continue;
      // resonant with output j: x_k = conj(omega^(e_j k)) (forward); for the inverse: y_j' = omega^(+j' ... ) conj pattern of column j
      std::vector<double> v(2 * m);
      for (uint64_t k = 0; k < m; ++k) {
        uint64_t t = is_inv(R.impl) ? (k * T.expo(j)) % (4 * m) : (4 * m - (T.expo(j) * k) % (4 * m)) % (4 * m);
        if (is_inv(R.impl)) t = (T.expo(k) * j) % (4 * m);  // y_k = omega^(e_k j): the iFFT concentrates it on coefficient j
        v[2 * k] = (double)T.W[t].re; v[2 * k + 1] = (double)T.W[t].im;
      }
      push(sfmt("resonant j=%llu", (unsigned long long)j), v);
    }
  }
  { std::vector<double> v(2 * m); for (uint64_t k = 0; k < m; ++k) { int e = (int)((k * 2654435761u) % 81) - 40; v[2 * k] = ldexp((k & 1) ? -1.0 : 1.0, e); v[2 * k + 1] = ldexp((k & 2) ? 1.5 : -1.25, -e); } push("dynamic range 2^+-40", v); }
  for (int s = 0; s < 3; ++s) { std::vector<double> v(2 * m); for (auto& x : v) x = (rng.unit() - 0.5) * 2048; push(sfmt("seeded dense %d", s), v); }
  // every finite input: whole vectors of tiny normal numbers (their twiddle products are subnormal: gradual underflow must be
  // honoured) and of huge ones (results still finite)
  for (int e : {-1021, -1000, 960}) {
    std::vector<double> v(2 * m); for (auto& x : v) x = ldexp((rng.unit() < 0.5 ? -1.0 : 1.0) * (1.0 + rng.unit()), e); push(sfmt("dense scaled by 2^%d", e), v);
    std::vector<double> w(2 * m, 0.0); w[2 * (m / 3)] = ldexp(1.5, e); w[2 * (m / 3) + 1] = ldexp(-1.25, e); push(sfmt("single entry scaled by 2^%d", e), w);
  }
  GBuf d(2 * m * 8, 8), d2(2 * m * 8, 8);
  uint64_t h0 = R.table_hash();
  for (size_t vi = 0; vi < ins.size(); ++vi) {
    std::string id = sfmt("vector|%s|m=%llu|%s", IN[R.impl], (unsigned long long)m, names[vi].c_str());
    if (!ctx.want(id)) continue;
    ctx.begin_case(id);
    std::vector<cq> in(m), ex;
    for (uint64_t k = 0; k < m; ++k) { in[k] = {(q128)ins[vi][2 * k], (q128)ins[vi][2 * k + 1]}; d.as<double>()[R.pre(k)] = ins[vi][2 * k]; d.as<double>()[R.pim(k)] = ins[vi][2 * k + 1]; }
    memcpy(d2.p, d.p, 2 * m * 8);
    if (is_inv(R.impl)) T.inverse_times_m(in, ex); else T.forward(in, ex);
    R.run(d.as<double>()); R.run(d2.as<double>());
    if (memcmp(d.p, d2.p, 2 * m * 8)) ctx.violation(id, "two calls with the same table and input are not bit-identical");
    q128 e2 = 0, n2 = 0;
    for (uint64_t j = 0; j < m; ++j) { q128 dr = (q128)d.as<double>()[R.pre(j)] - ex[j].re, di = (q128)d.as<double>()[R.pim(j)] - ex[j].im; e2 += dr * dr + di * di; n2 += ex[j].re * ex[j].re + ex[j].im * ex[j].im; }
    double ratio = n2 > 0 ? (double)(sqrtq(e2) / sqrtq(n2)) / bnd : (e2 == 0 ? 0 : 1e300);
    ctx.metric_max(0, ratio);
    if (!(ratio <= 1.0)) ctx.violation(id, sfmt("||out - exact||_2 / ||exact||_2 = %.3g exceeds 8 log2(2m) 2^-53 = %.3g (ratio %.3g)", ratio * bnd, bnd, ratio));
    if (!d.guards_ok() || !d2.guards_ok()) ctx.violation(id, "write outside the 2m doubles");
    ctx.end_case(m > 1);
  }
  if (R.table_hash() != h0) { ctx.begin_case(sfmt("tables|%s|m=%llu", IN[R.impl], (unsigned long long)m)); ctx.violation(sfmt("tables|%s|m=%llu", IN[R.impl], (unsigned long long)m), "the precomputed table was modified by the transform"); ctx.end_case(true); }
}

// dispatching API and *_simple under each cfg: must select one of the implementations above and agree with it bit for bit
static void dispatch(Ctx& ctx, uint64_t m, const CpuCfg& cfg) {
  std::string id = sfmt("dispatch|%s|m=%llu|reim_fft, reim_ifft, cplx_fft, cplx_ifft and *_simple", cfg.name, (unsigned long long)m);
  if (!ctx.want(id)) return;
  ctx.begin_case(id);
  set_cfg(cfg);
  REIM_FFT_PRECOMP* rf = new_reim_fft_precomp(m, 0); REIM_IFFT_PRECOMP* ri = new_reim_ifft_precomp(m, 0);
  CPLX_FFT_PRECOMP* cf = new_cplx_fft_precomp(m, 0); CPLX_IFFT_PRECOMP* ci = new_cplx_ifft_precomp(m, 0);
  bool want_avx = cfg.fma;
  if ((void*)rf->function != (want_avx ? (void*)reim_fft_avx2_fma : (void*)reim_fft_ref)) ctx.violation(id, "new_reim_fft_precomp selected an unexpected kernel for this cfg");
  if ((void*)ri->function != (want_avx ? (void*)reim_ifft_avx2_fma : (void*)reim_ifft_ref)) ctx.violation(id, "new_reim_ifft_precomp selected an unexpected kernel for this cfg");
  if ((void*)cf->function != ((want_avx && m > 4) ? (void*)cplx_fft_avx2_fma : (void*)cplx_fft_ref)) ctx.violation(id, "new_cplx_fft_precomp selected an unexpected kernel for this cfg");
  if ((void*)ci->function != ((want_avx && m > 4) ? (void*)cplx_ifft_avx2_fma : (void*)cplx_ifft_ref)) ctx.violation(id, "new_cplx_ifft_precomp selected an unexpected kernel for this cfg");
  GBuf a(2 * m * 8, 8), b(2 * m * 8, 24);
  Rng rng(ctx.args.seed + m);
  for (int w = 0; w < 4; ++w) {
    for (uint64_t i = 0; i < 2 * m; ++i) a.as<double>()[i] = b.as<double>()[i] = (rng.unit() - 0.5) * 1024;
    switch (w) { case 0: reim_fft(rf, a.as<double>()); rf->function(rf, b.as<double>()); break; case 1: reim_ifft(ri, a.as<double>()); ri->function(ri, b.as<double>()); break;
                 case 2: cplx_fft(cf, a.p); cf->function(cf, b.p); break; case 3: cplx_ifft(ci, a.p); ci->function(ci, b.p); break; }
    if (memcmp(a.p, b.p, 2 * m * 8)) ctx.violation(id, "dispatching entry point differs from the selected kernel");
    // the same transform with the data held in the buffer that lives inside a table built with num_buffers = 1 (documented use),
    // then once more in user memory with that table: both must be bit-identical to the result above
    {
      std::vector<double> in(2 * m); for (uint64_t i = 0; i < 2 * m; ++i) in[i] = b.as<double>()[i];   // b holds the result; regenerate the input
      Rng r2(ctx.args.seed + m); for (int ww = 0; ww <= w; ++ww) for (uint64_t i = 0; i < 2 * m; ++i) in[i] = (r2.unit() - 0.5) * 1024;
      void* t1 = w == 0 ? (void*)new_reim_fft_precomp(m, 1) : w == 1 ? (void*)new_reim_ifft_precomp(m, 1) : w == 2 ? (void*)new_cplx_fft_precomp(m, 1) : (void*)new_cplx_ifft_precomp(m, 1);
      double* ib = w == 0 ? reim_fft_precomp_get_buffer((REIM_FFT_PRECOMP*)t1, 0) : w == 1 ? reim_ifft_precomp_get_buffer((REIM_IFFT_PRECOMP*)t1, 0)
                 : w == 2 ? (double*)cplx_fft_precomp_get_buffer((CPLX_FFT_PRECOMP*)t1, 0) : (double*)cplx_ifft_precomp_get_buffer((CPLX_IFFT_PRECOMP*)t1, 0);
      auto go = [&](double* d) { switch (w) { case 0: reim_fft((REIM_FFT_PRECOMP*)t1, d); break; case 1: reim_ifft((REIM_IFFT_PRECOMP*)t1, d); break; case 2: cplx_fft((CPLX_FFT_PRECOMP*)t1, d); break; default: cplx_ifft((CPLX_IFFT_PRECOMP*)t1, d); } };
      memcpy(ib, in.data(), 2 * m * 8);
      go(ib);
      if (memcmp(ib, a.p, 2 * m * 8)) ctx.violation(id, sfmt("transform %d computed inside the table's own buffer differs from the transform in user memory", w));
      GBuf u2(2 * m * 8, 8); memcpy(u2.p, in.data(), 2 * m * 8);
      go(u2.as<double>());
      if (memcmp(u2.p, a.p, 2 * m * 8)) ctx.violation(id, sfmt("transform %d in user memory differs after the table's own buffer was used (the buffer overlaps the tables?)", w));
      free(t1);
    }
  }
  free(rf); free(ri); free(cf); free(ci);
  set_cfg(CFG_NATIVE);
  if (!a.guards_ok() || !b.guards_ok()) ctx.violation(id, "write outside the 2m doubles");
  ctx.end_case(true);
}

// tables with so many built-in buffers that the buffer area exceeds 4 GiB (the buffer index is a uint32_t and the byte offset of a buffer
// is index * buf_size): buffers must be disjoint, buf_size apart, and a transform inside the last buffer must be the transform of ITS
// content, leave buffer 0 alone and equal the transform in user memory.  The area is malloc'ed and only the touched buffers become resident.
static void many_buffers(Ctx& ctx, int w, uint64_t m) {
  static const char* WN[4] = {"reim_fft", "reim_ifft", "cplx_fft", "cplx_ifft"};
  const uint64_t bs = (2 * m * 8 + 63) / 64 * 64, nb = (UINT64_C(1) << 32) / bs + 1;   // last index * buf_size >= 2^32
  std::string id = sfmt("many-buffers|%s|m=%llu|num_buffers=%llu", WN[w], (unsigned long long)m, (unsigned long long)nb);
  if (!ctx.want(id)) return;
  ctx.begin_case(id);
  void* t1 = w == 0 ? (void*)new_reim_fft_precomp(m, nb) : w == 1 ? (void*)new_reim_ifft_precomp(m, nb) : w == 2 ? (void*)new_cplx_fft_precomp(m, nb) : (void*)new_cplx_ifft_precomp(m, nb);
  auto buf = [&](uint32_t i) { return w == 0 ? reim_fft_precomp_get_buffer((REIM_FFT_PRECOMP*)t1, i) : w == 1 ? reim_ifft_precomp_get_buffer((REIM_IFFT_PRECOMP*)t1, i)
                                    : w == 2 ? (double*)cplx_fft_precomp_get_buffer((CPLX_FFT_PRECOMP*)t1, i) : (double*)cplx_ifft_precomp_get_buffer((CPLX_IFFT_PRECOMP*)t1, i); };
  auto go = [&](double* d) { switch (w) { case 0: reim_fft((REIM_FFT_PRECOMP*)t1, d); break; case 1: reim_ifft((REIM_IFFT_PRECOMP*)t1, d); break; case 2: cplx_fft((CPLX_FFT_PRECOMP*)t1, d); break; default: cplx_ifft((CPLX_IFFT_PRECOMP*)t1, d); } };
  std::string err;
  double* b0 = buf(0);
  for (uint64_t i : {(uint64_t)1, nb / 2, nb - 2, nb - 1}) {
    if (i >= nb) continue;
    ptrdiff_t d = (uint8_t*)buf((uint32_t)i) - (uint8_t*)b0;
    if ((uint64_t)d != i * bs && err.empty()) err = sfmt("buffer %llu starts %lld bytes after buffer 0, expected %llu (buffers of %llu bytes)", (unsigned long long)i, (long long)d, (unsigned long long)(i * bs), (unsigned long long)bs);
  }
  if (err.empty()) {
    std::vector<double> x(2 * m), y(2 * m);
    Rng r(ctx.args.seed + m + w);
    for (uint64_t i = 0; i < 2 * m; ++i) { x[i] = (r.unit() - 0.5) * 64; y[i] = (r.unit() - 0.5) * 64; }
    double* bl = buf((uint32_t)(nb - 1));
    memcpy(b0, x.data(), 2 * m * 8); memcpy(bl, y.data(), 2 * m * 8);
    go(bl);
    if (memcmp(b0, x.data(), 2 * m * 8)) err = "a transform inside the last buffer modified buffer 0";
    GBuf u(2 * m * 8, 8); memcpy(u.p, y.data(), 2 * m * 8);
    go(u.as<double>());
    if (err.empty() && memcmp(u.p, bl, 2 * m * 8)) err = "the transform inside the last buffer is not the transform of its content (differs from the same transform in user memory)";
  }
  if (!err.empty()) ctx.violation(id, err);
  free(t1);
  ctx.end_case(true);
}

// oracle self-check: the binary128 FFT against direct evaluation (machinery, not a verdict)
static void oracle_selfcheck() {
  for (uint64_t m : {1, 2, 4, 8, 32, 256}) {
    Tables T(m);
    std::vector<cq> in(m), out, back;
    Rng r(m);
    for (auto& c : in) c = {(q128)(r.unit() - 0.5), (q128)(r.unit() - 0.5)};
    T.forward(in, out);
    for (uint64_t j = 0; j < m; ++j) {
      cq s = {0, 0};
      for (uint64_t k = 0; k < m; ++k) s = cadd(s, cmul(in[k], T.W[(T.expo(j) * k) % (4 * m)]));
      if (fabsq(s.re - out[j].re) > 1e-28Q * m || fabsq(s.im - out[j].im) > 1e-28Q * m) machinery_error("binary128 FFT oracle disagrees with direct evaluation at m=%llu", (unsigned long long)m);
    }
    T.inverse_times_m(out, back);
    for (uint64_t k = 0; k < m; ++k) if (fabsq(back[k].re - m * in[k].re) > 1e-27Q * m * m || fabsq(back[k].im - m * in[k].im) > 1e-27Q * m * m) machinery_error("binary128 inverse oracle is not m * inverse at m=%llu", (unsigned long long)m);
  }
}

int main(int argc, char** argv) {
  Args args = parse_args("C06", argc, argv, 420, 1800);
  Ctx ctx(args);
  const bool th = args.thorough();
  oracle_selfcheck();
  ctx.name_metric(0, "worst_error_over_bound"); ctx.name_metric(1, "table_induced_operator_error_frobenius_relative"); ctx.name_metric(2, "impulses");
  const uint64_t mmax = 65536, all_imp = th ? 16384 : 1024;  // quick: every m up to 65536 too, complete impulse bases up to m = 1024, sampled impulses above
  struct It { int kind; uint64_t m; int impl; uint64_t k0, k1; CpuCfg cfg; };
  std::vector<It> items;
  for (uint64_t m = mmax; m >= 1; m /= 2) {
    for (int im = 0; im < NIMPL; ++im) {
      if (m < min_m(im)) continue;
      items.push_back({1, m, im, 0, 0, CFG_NATIVE});
      bool all = m <= all_imp;
      uint64_t step = all ? std::max<uint64_t>(1, std::min<uint64_t>(m, (1ull << 21) / m)) : m;
      for (uint64_t k = 0; k < m; k += step) items.push_back({0, m, im, k, std::min(m, k + step), CFG_NATIVE});
    }
    for (auto& c : cfgs(th)) items.push_back({2, m, 0, 0, 0, c});
    if (m == 1) break;
  }
  for (uint64_t m : {65536, 1024, 8}) for (int w = 0; w < 4; ++w) { if (m == 1024 && !th) continue; items.push_back({3, m, w, 0, 0, CFG_NATIVE}); }
  ctx.parallel(items.size(), [&](uint64_t i) {
    const It& it = items[i];
    if (it.kind == 2) { dispatch(ctx, it.m, it.cfg); return; }
    if (it.kind == 3) { many_buffers(ctx, it.impl, it.m); return; }
    static thread_local Tables* T = 0;
    if (!T || T->m != it.m) { delete T; T = new Tables(it.m); }
    Runner R(it.impl, it.m);
    if (it.kind == 0) impulses(ctx, R, *T, it.k0, it.k1, it.m <= all_imp); else vectors(ctx, R, *T);
  });
  ctx.assumptions = {"output order: output j is the evaluation at omega^(1+4 bitrev(j)), omega = exp(i pi/(2m)) (cplx/README.md; confirmed on the pinned tree)",
                     "finite inputs from a structured alphabet; the complete impulse basis bounds the table-induced operator error for all inputs (reported), the accumulation of rounding over all real inputs is not enumerable",
                     "cplx_fft_avx2_fma / cplx_ifft_avx2_fma are called for m >= 8 only (they are dispatched for m > 4)"};
  Json ex = Json::obj();
  ex.set("max_m", mmax).set("all_impulses_up_to_m", all_imp);
  return ctx.finish("exploration",
                    "every m = 1..max_m x 8 implementations x {all unit impulses (m <= bound) or sampled impulses, 2 constants, resonant vectors (all j for m<=256), dynamic range, 3 seeded dense}; dispatch API x cfg; tables with a built-in buffer area beyond 4 GiB (4 constructors x m in {8, 65536}); "
                    "each case run twice (bit-identical) with the table hashed before/after; non-trivial when m > 1; distinct = distinct case ids",
                    true, ex);
}
