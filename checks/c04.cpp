// C04 — q120 lazy modular arithmetic never wraps 64 bits on any in-range operand.
// Engine D: complete enumeration of the abstract envelope model (harness/envelope.hpp) for every
// NTT / iNTT size, prime and stage and for every product kernel and every ell in 0..10000; every
// side condition is an invariant.  Binding to the code: (i) the stage sequence of real runs is
// observed through ELF interposition of ntt_iter* and compared with the model's schedule, (ii) the
// measured per-stage lane maxima must stay below the model's bound, (iii) every table word the
// transfer functions rely on is checked, (iv) concrete worst-case runs agree with the exact value.
#include <dlfcn.h>
#include <set>
#include "../harness/bufs.hpp"
#include "../harness/envelope.hpp"
using namespace vf;

// ---------------------------------------------------------------------------------------------
// interposer: records every stage call of the real NTT drivers
struct StageCall { int kind; uint64_t nn; const void* meta; uint64_t lo, hi; uint64_t maxin[4], maxout[4]; const void* po = 0; const void* rp = 0; };
static std::vector<StageCall>* g_trace = 0;
static const uint64_t* g_base = 0;
static long g_interposed_calls = 0;

static void lane_max(const void* begin, const void* end, uint64_t mx[4]) {
  mx[0] = mx[1] = mx[2] = mx[3] = 0;
  for (const uint64_t* p = (const uint64_t*)begin; p < (const uint64_t*)end; p += 4) for (int k = 0; k < 4; ++k) if (p[k] > mx[k]) mx[k] = p[k];
}
template <class F> static F real_fn(const char* name) {
  void* f = dlsym(RTLD_NEXT, name);
  if (!f) machinery_error("dlsym(RTLD_NEXT, %s) failed", name);
  return (F)f;
}
enum { SK_FIRST, SK_ITER, SK_ITER_RED, SK_INV_ITER, SK_INV_ITER_RED, SK_FIRST_RED };
static const char* SKN[] = {"first", "iter", "iter_red", "inv-iter", "inv-iter_red", "first_red"};
static StageCall* pre(int kind, uint64_t nn, const void* begin, const void* end, const void* meta, const void* po = 0, const void* rp = 0) {
  ++g_interposed_calls;
  if (g_ctx()) g_ctx()->metric_add(7);
  if (!g_trace) return 0;
  StageCall c; c.kind = kind; c.nn = nn; c.meta = meta; c.po = po; c.rp = rp;
  c.lo = ((const uint64_t*)begin - g_base) / 4; c.hi = ((const uint64_t*)end - g_base) / 4;
  lane_max(begin, end, c.maxin);
  g_trace->push_back(c);
  return &g_trace->back();
}
extern "C" {
void ntt_iter_first(void* begin, const void* end, const q120_ntt_step_precomp* it, const void* po) {
  static auto f = real_fn<void (*)(void*, const void*, const q120_ntt_step_precomp*, const void*)>("ntt_iter_first");
  StageCall* c = pre(SK_FIRST, 0, begin, end, it, po); f(begin, end, it, po); if (c) lane_max(begin, end, c->maxout);
}
void ntt_iter_first_red(void* begin, const void* end, const q120_ntt_step_precomp* it, const void* po, const q120_ntt_reduc_step_precomp* rp) {
  static auto f = real_fn<void (*)(void*, const void*, const q120_ntt_step_precomp*, const void*, const q120_ntt_reduc_step_precomp*)>("ntt_iter_first_red");
  StageCall* c = pre(SK_FIRST_RED, 0, begin, end, it, po, rp); f(begin, end, it, po, rp); if (c) lane_max(begin, end, c->maxout);
}
void ntt_iter(uint64_t nn, void* begin, const void* end, const q120_ntt_step_precomp* it, const void* po) {
  static auto f = real_fn<void (*)(uint64_t, void*, const void*, const q120_ntt_step_precomp*, const void*)>("ntt_iter");
  StageCall* c = pre(SK_ITER, nn, begin, end, it, po); f(nn, begin, end, it, po); if (c) lane_max(begin, end, c->maxout);
}
void ntt_iter_red(uint64_t nn, void* begin, const void* end, const q120_ntt_step_precomp* it, const void* po, const q120_ntt_reduc_step_precomp* rp) {
  static auto f = real_fn<void (*)(uint64_t, void*, const void*, const q120_ntt_step_precomp*, const void*, const q120_ntt_reduc_step_precomp*)>("ntt_iter_red");
  StageCall* c = pre(SK_ITER_RED, nn, begin, end, it, po, rp); f(nn, begin, end, it, po, rp); if (c) lane_max(begin, end, c->maxout);
}
void intt_iter(uint64_t nn, void* begin, const void* end, const q120_ntt_step_precomp* it, const void* po) {
  static auto f = real_fn<void (*)(uint64_t, void*, const void*, const q120_ntt_step_precomp*, const void*)>("intt_iter");
  StageCall* c = pre(SK_INV_ITER, nn, begin, end, it, po); f(nn, begin, end, it, po); if (c) lane_max(begin, end, c->maxout);
}
void intt_iter_red(uint64_t nn, void* begin, const void* end, const q120_ntt_step_precomp* it, const void* po, const q120_ntt_reduc_step_precomp* rp) {
  static auto f = real_fn<void (*)(uint64_t, void*, const void*, const q120_ntt_step_precomp*, const void*, const q120_ntt_reduc_step_precomp*)>("intt_iter_red");
  StageCall* c = pre(SK_INV_ITER_RED, nn, begin, end, it, po, rp); f(nn, begin, end, it, po, rp); if (c) lane_max(begin, end, c->maxout);
}
}

// ---------------------------------------------------------------------------------------------
static const uint64_t QS[4] = {Q1, Q2, Q3, Q4};
static const char* PATN[] = {"all-ones", "alternating-max-zero", "just-below-multiple-of-q", "cyclic-near-multiple-of-q", "single-maximal", "seeded"};
static void fill_pattern(uint64_t* d, uint64_t n, int pat, Rng& r) {
  for (uint64_t i = 0; i < n; ++i) for (int k = 0; k < 4; ++k) {
    uint64_t top = (~0ull / QS[k]) * QS[k];
    uint64_t v;
    switch (pat) {
      case 0: v = ~0ull; break;
      case 1: v = (i & 1) ? 0 : ~0ull; break;
      case 2: v = top - 1; break;
      case 3: v = top - (i % 3); break;
      case 4: v = (i == n / 3) ? ~0ull : 0; break;
      default: v = r.next();
    }
    d[4 * i + k] = v;
  }
}

// exact reference of the negacyclic transform result, only its first / a few outputs (O(n) each)
struct NttCheck { Ctx& ctx; };

static void run_ntt(Ctx& ctx, uint64_t n, bool inverse, bool traces) {
  const char* dn = inverse ? "intt" : "ntt";
  q120_ntt_precomp* pc = inverse ? q120_new_intt_bb_precomp(n) : q120_new_ntt_bb_precomp(n);
  if (!ntt_tables_ready(pc, inverse)) { ctx.metric_add(5); return; }  // tables not readable in this build (counted; the product parts and C03's end-to-end parts still run)
  // 1. the abstract model, complete over primes and stages
  {
    std::string id = sfmt("envelope|%s|n=%llu", dn, (unsigned long long)n);
    if (ctx.want(id)) {
      ctx.begin_case(id);
      EnvResult R = envelope_ntt(pc, inverse);
      for (auto& f : R.failures) ctx.violation(id, "a 64-bit word can wrap: " + f);
      std::vector<std::string> tf; uint64_t words = 0;
      check_ntt_tables(pc, inverse, tf, words);
      for (auto& f : tf) ctx.violation(id, "table fact violated: " + f);
      ctx.metric_add(0, R.states); ctx.metric_add(1, R.transitions); ctx.metric_add(2, words);
      ctx.metric_max(3, R.tightest);
      ctx.end_case(n > 1);
    }
  }
  // 2. conformance of real runs with the model
  if (traces && n > 1) {
    EnvResult R = envelope_ntt(pc, inverse);
    Rng rng(ctx.args.seed * 31 + n);
    for (int pat = 0; pat < 6; ++pat) {
      std::string id = sfmt("trace|%s|n=%llu|%s", dn, (unsigned long long)n, PATN[pat]);
      if (!ctx.want(id)) continue;
      ctx.begin_case(id);
      GBuf d(32 * n, 0);
      fill_pattern(d.as<uint64_t>(), n, pat, rng);
      std::vector<uint64_t> in(d.as<uint64_t>(), d.as<uint64_t>() + 4 * n);
      std::vector<StageCall> tr;
      g_trace = &tr; g_base = d.as<uint64_t>();
      if (inverse) q120_intt_bb_avx2(pc, (q120b*)d.p); else q120_ntt_bb_avx2(pc, (q120b*)d.p);
      g_trace = 0;
      if (!d.guards_ok()) ctx.violation(id, "write outside the 32*n bytes of data");
      if (tr.empty()) { ctx.metric_add(5); ctx.end_case(true); continue; }  // stage functions not interposable any more: fall back to end-to-end oracles
      // group calls by metadata entry
      std::string err;
      const size_t ns = R.stages.size();
      std::vector<uint64_t> cover(ns, 0);
      std::vector<std::vector<std::pair<uint64_t, uint64_t>>> ranges(ns);
      for (auto& c : tr) {
        long mi = (const q120_ntt_step_precomp*)c.meta - pc->level_metadata;
        // model stage with this metadata index
        size_t si = ns;
        for (size_t s = 0; s < ns; ++s) if (R.stages[s].meta == mi) si = s;
        if (si == ns) { err = sfmt("stage call with metadata index %ld that the certified schedule does not contain", mi); break; }
        const EnvStage& S = R.stages[si];
        std::string kn = SKN[c.kind];
        std::string want = S.kind;
        // the driver uses the same twiddle-only kernel for the forward first and inverse last stage
        if (want == "inv-first") want = "first"; if (want == "inv-first_red") want = "first_red";
        if (kn != want || c.nn != S.nn) { err = sfmt("metadata entry %ld is executed as %s(nn=%llu), the certified schedule has %s(nn=%llu)", mi, kn.c_str(), (unsigned long long)c.nn, S.kind.c_str(), (unsigned long long)S.nn); break; }
        for (int k = 0; k < 4; ++k) {
          if ((u128)c.maxin[k] > S.Uin[k]) { err = sfmt("stage %s(nn=%llu) prime %d: measured input lane %llu exceeds the certified bound", kn.c_str(), (unsigned long long)c.nn, k, (unsigned long long)c.maxin[k]); break; }
          if ((u128)c.maxout[k] > S.Uout[k]) { err = sfmt("stage %s(nn=%llu) prime %d: measured output lane %llu exceeds the certified bound %s", kn.c_str(), (unsigned long long)c.nn, k, (unsigned long long)c.maxout[k], i128_str((i128)S.Uout[k]).c_str()); break; }
          double ratio = S.Uout[k] ? (double)c.maxout[k] / (double)S.Uout[k] : 0; ctx.metric_max(4, ratio);
        }
        if (!err.empty()) break;
        cover[si] += c.hi - c.lo;
        ranges[si].push_back({c.lo, c.hi});
      }
      if (err.empty())
        for (size_t s = 0; s < ns; ++s) {
          std::sort(ranges[s].begin(), ranges[s].end());
          uint64_t pos = 0; bool ok = true;
          for (auto& rg : ranges[s]) { if (rg.first != pos) ok = false; pos = rg.second; }
          if (!ok || pos != n) { err = sfmt("the calls of stage %s(nn=%llu) do not partition [0,n): a level was skipped or applied twice", R.stages[s].kind.c_str(), (unsigned long long)R.stages[s].nn); break; }
        }
      if (!err.empty()) ctx.violation(id, "the executed schedule is not the certified one: " + err);
      else ctx.metric_add(6);
      // 2b. every real stage function once more, alone, on lanes from a boundary alphabet inside the certified input bound of that
      //     stage (all pairs of alphabet entries meet in a butterfly): the output must be the stage's linear map modulo each prime
      //     (twiddles read from the table) and stay below the certified output bound - for sparse / small / boundary data as well
      if (err.empty() && pat == 5 && n <= 2048) {
        std::set<std::pair<int, long>> done;
        for (auto& c : tr) {
          long mi = (const q120_ntt_step_precomp*)c.meta - pc->level_metadata;
          if (!done.insert({c.kind, mi}).second) continue;
          const EnvStage* S = 0; for (auto& st : R.stages) if (st.meta == mi) S = &st;
          if (!S) continue;
          const uint64_t L = c.hi - c.lo, nn = c.nn, half = nn / 2;
          // alphabet per prime, all entries <= Uin
          std::vector<uint64_t> A[4];
          for (int k = 0; k < 4; ++k) {
            const u128 U = S->Uin[k]; const uint64_t q = QS[k];
            std::vector<u128> cand = {0, 1, 2, q - 1, q, q + 1, 2 * (u128)q, U, U - 1, U / 2, U / 2 + 1, ((const q120_ntt_step_precomp*)c.meta)->q2bs[k], (u128)((const q120_ntt_step_precomp*)c.meta)->q2bs[k] + 1, (u128)((const q120_ntt_step_precomp*)c.meta)->q2bs[k] - 1};
            for (int j = 28; j <= 64; j += 4) { cand.push_back(((u128)1 << j) - 1); cand.push_back((u128)1 << j); }
            for (u128 v : cand) A[k].push_back((uint64_t)(v > U ? U : v));   // same length for every prime: entry i is "the same kind of value" in all four lanes
          }
          const size_t na = A[0].size();
          GBuf w(32 * L, 0);
          for (size_t r = 0; r < na && err.empty(); ++r) {
            uint64_t* d = w.as<uint64_t>();
            for (uint64_t e = 0; e < L; ++e) {
              size_t idx;
              if (nn) { uint64_t blk = e / nn, j = e % nn, pidx = blk * half + (j % half); idx = (j < half) ? pidx % na : (pidx / na + pidx + r) % na; }
              else idx = (e + r) % na;
              for (int k = 0; k < 4; ++k) d[4 * e + k] = A[k][idx];
            }
            std::vector<uint64_t> in(d, d + 4 * L);
            void* b = w.p; const void* en = w.p + 32 * L;
            const q120_ntt_step_precomp* itd = (const q120_ntt_step_precomp*)c.meta;
            const q120_ntt_reduc_step_precomp* rp = (const q120_ntt_reduc_step_precomp*)c.rp;
            std::vector<StageCall>* keep = g_trace; g_trace = 0;
            switch (c.kind) {
              case SK_FIRST: ntt_iter_first(b, en, itd, c.po); break;
              case SK_FIRST_RED: ntt_iter_first_red(b, en, itd, c.po, rp); break;
              case SK_ITER: ntt_iter(nn, b, en, itd, c.po); break;
              case SK_ITER_RED: ntt_iter_red(nn, b, en, itd, c.po, rp); break;
              case SK_INV_ITER: intt_iter(nn, b, en, itd, c.po); break;
              default: intt_iter_red(nn, b, en, itd, c.po, rp); break;
            }
            g_trace = keep;
            const uint64_t* po = (const uint64_t*)c.po;
            for (uint64_t e = 0; e < L && err.empty(); ++e) for (int k = 0; k < 4; ++k) {
              const uint64_t q = QS[k];
              uint64_t want;
              if (!nn) want = mulmod(in[4 * e + k] % q, (po[4 * e + k] & 0xFFFFFFFFull) % q, q);
              else {
                uint64_t j = e % nn, jj = j % half, ea = e - j + jj, eb = ea + half;
                uint64_t a = in[4 * ea + k] % q, bb = in[4 * eb + k] % q;
                uint64_t tw = jj ? (po[4 * (jj - 1) + k] & 0xFFFFFFFFull) % q : 1;
                if (c.kind == SK_ITER || c.kind == SK_ITER_RED) want = j < half ? (a + bb) % q : mulmod((a + q - bb) % q, tw, q);
                else { uint64_t bo = mulmod(bb, tw, q); want = j < half ? (a + bo) % q : (a + q - bo) % q; }
              }
              const uint64_t got = d[4 * e + k];
              if (got % q != want) err = sfmt("stage %s(nn=%llu) run alone on boundary lanes: element %llu prime %d is %llu = %llu mod q, the stage's linear map gives %llu (inputs a=%llu b=%llu)", SKN[c.kind], (unsigned long long)nn, (unsigned long long)e, k, (unsigned long long)got, (unsigned long long)(got % q), (unsigned long long)want, (unsigned long long)in[4 * (nn ? (e - e % nn + (e % nn) % half) : e) + k], (unsigned long long)(nn ? in[4 * (e - e % nn + (e % nn) % half + half) + k] : 0));
              else if ((u128)got > S->Uout[k]) err = sfmt("stage %s(nn=%llu) run alone on boundary lanes: element %llu prime %d is %llu, above the certified output bound", SKN[c.kind], (unsigned long long)nn, (unsigned long long)e, k, (unsigned long long)got);
            }
          }
          if (!w.guards_ok()) err = "a stage function wrote outside its range";
          if (!err.empty()) { ctx.violation(id, "a stage function is not the certified transfer function: " + err); break; }
          ctx.metric_add(7, 0);
        }
      }
      // end-to-end: transform then inverse is the identity modulo each prime (concrete, extremal data)
      {
        q120_ntt_precomp* pc2 = inverse ? q120_new_ntt_bb_precomp(n) : q120_new_intt_bb_precomp(n);
        if (inverse) q120_ntt_bb_avx2(pc2, (q120b*)d.p); else q120_intt_bb_avx2(pc2, (q120b*)d.p);
        for (uint64_t i = 0; i < 4 * n; ++i) if (d.as<uint64_t>()[i] % QS[i & 3] != in[i] % QS[i & 3]) { ctx.violation(id, sfmt("round trip is not the identity modulo q at lane %llu (a word wrapped)", (unsigned long long)i)); break; }
        if (inverse) q120_del_ntt_bb_precomp(pc2); else q120_del_intt_bb_precomp(pc2);
      }
      ctx.end_case(true);
    }
  }
  if (inverse) q120_del_intt_bb_precomp(pc); else q120_del_ntt_bb_precomp(pc);
}

// ---- products ---------------------------------------------------------------------------------
typedef void (*prod_f)(void*, uint64_t, void*, const void*, const void*);
struct PF { const char* name; int kind; int nres; bool avx2; prod_f f; };

static void run_products(Ctx& ctx, const PF& pf, void* pc) {
  const uint64_t L = 10000;
  const int mk = pf.kind >= 2 ? 2 : pf.kind;  // model kind
  // 1. abstract model for every ell
  {
    std::string id = sfmt("envelope|%s|ell=0..10000", pf.name);
    if (ctx.want(id)) {
      ctx.begin_case(id);
      uint64_t st = 0;
      for (uint64_t ell = 0; ell <= L; ++ell) {
        ProdEnv E = envelope_product(mk, pf.avx2, ell, pc);
        st += E.states;
        ctx.metric_max(3, E.tightest);
        if (!E.failures.empty()) { ctx.violation(id, "a word can wrap: " + E.failures[0]); break; }
      }
      ctx.metric_add(0, st); ctx.metric_add(1, st);
      ctx.end_case(true);
    }
  }
  // 2. concrete worst-case runs: every ell, three extremal families; measured <= bound and exact modulo q
  const uint64_t xw = pf.kind <= 2 ? 4 : 8, yw = pf.kind <= 2 ? 4 : pf.kind == 3 ? 8 : 16;
  for (int famx = 0; famx < 10; ++famx) {
    const int fam = famx % 5;
    const bool same = famx >= 5;   // ONE array passed as both operands (x == y by pointer): the values are in range like any others
    if (same && xw != yw) continue;
    static const char* fn[] = {"all-maximal", "alternating-max-min", "single-maximal", "high-halves-maximal", "low-halves-maximal"};
    std::string id = sfmt("worstcase|%s|%s%s|ell=0..10000", pf.name, fn[fam], same ? "|one array passed as both operands" : "");
    if (!ctx.want(id)) continue;
    ctx.begin_case(id);
    GBuf X(L * xw * 8, 8), Y(L * yw * 8, 16), R(pf.nres * 32, 24);
    auto fill = [&](GBuf& B, bool a_layout, int f) {
      uint64_t elems = B.bytes / 32;
      for (uint64_t i = 0; i < elems; ++i) for (int k = 0; k < 4; ++k) {
        uint64_t mx = a_layout ? 0xFFFFFFFFull : ~0ull;
        uint64_t v = f == 0 ? mx : f == 1 ? ((i & 1) ? 0 : mx) : f == 2 ? (i == elems / 2 ? mx : 0) : f == 3 ? (a_layout ? 0xFFFF0000ull : 0xFFFFFFFF00000000ull) : (a_layout ? 0xFFFFull : 0xFFFFFFFFull);
        B.as<uint64_t>()[4 * i + k] = v;
      }
    };
    fill(X, pf.kind == 0, fam); fill(Y, pf.kind == 0, fam == 2 ? 0 : fam);
    if (same) memcpy(Y.p, X.p, X.bytes);
    const void* ycall = same ? (const void*)X.p : (const void*)Y.p;
    uint64_t acc[4][4] = {{0}};
    const uint64_t* x = X.as<uint64_t>(); const uint64_t* yb = Y.as<uint64_t>(); const uint32_t* yc = Y.as<uint32_t>();
    bool bad = false;
    for (uint64_t ell = 0; ell <= L && !bad; ++ell) {
      pf.f(pc, ell, R.p, X.p, ycall);
      ProdEnv E = envelope_product(mk, pf.avx2, ell, pc);
      for (int s = 0; s < pf.nres && !bad; ++s) for (int k = 0; k < 4; ++k) {
        uint64_t g = R.as<uint64_t>()[4 * s + k];
        if ((u128)g > E.bound[k]) { ctx.violation(id, sfmt("ell=%llu lane %d: measured %llu exceeds the certified bound (the kernel does not follow the certified accumulator shape)", (unsigned long long)ell, k, (unsigned long long)g)); bad = true; break; }
        if (g % QS[k] != acc[s][k]) { ctx.violation(id, sfmt("ell=%llu result %d lane %d: %llu mod q differs from the exact sum %llu (a word wrapped)", (unsigned long long)ell, s, k, (unsigned long long)(g % QS[k]), (unsigned long long)acc[s][k])); bad = true; break; }
        if (E.bound[k]) ctx.metric_max(4, (double)g / (double)E.bound[k]);
      }
      if (ell == L) break;
      for (int k = 0; k < 4; ++k) {
        auto bc = [&](uint64_t xv, uint32_t y0, uint32_t y1) { return (mulmod((xv & 0xFFFFFFFFull) % QS[k], y0 % QS[k], QS[k]) + mulmod((xv >> 32) % QS[k], y1 % QS[k], QS[k])) % QS[k]; };
        if (pf.kind <= 1) acc[0][k] = (acc[0][k] + mulmod(x[4 * ell + k] % QS[k], yb[4 * ell + k] % QS[k], QS[k])) % QS[k];
        else if (pf.kind == 2) acc[0][k] = (acc[0][k] + bc(x[4 * ell + k], yc[8 * ell + 2 * k], yc[8 * ell + 2 * k + 1])) % QS[k];
        else if (pf.kind == 3) for (int s = 0; s < 2; ++s) acc[s][k] = (acc[s][k] + bc(x[8 * ell + 4 * s + k], yc[16 * ell + 8 * s + 2 * k], yc[16 * ell + 8 * s + 2 * k + 1])) % QS[k];
        else for (int s = 0; s < 4; ++s) acc[s][k] = (acc[s][k] + bc(x[8 * ell + 4 * (s & 1) + k], yc[32 * ell + 8 * s + 2 * k], yc[32 * ell + 8 * s + 2 * k + 1])) % QS[k];
      }
    }
    if (!X.guards_ok() || !Y.guards_ok() || !R.guards_ok()) ctx.violation(id, "write outside a declared extent");
    ctx.metric_add(6);
    ctx.end_case(true);
  }
}

int main(int argc, char** argv) {
  Args args = parse_args("C04", argc, argv, 300, 1800);
  Ctx ctx(args);
  const bool th = args.thorough();
  ctx.name_metric(0, "abstract_states"); ctx.name_metric(1, "abstract_transitions"); ctx.name_metric(2, "table_words_checked");
  ctx.name_metric(3, "tightest_value_over_2^64"); ctx.name_metric(4, "measured_over_bound"); ctx.name_metric(5, "traces_unavailable"); ctx.name_metric(6, "traces_validated"); ctx.name_metric(7, "interposed_stage_calls");
  static q120_mat1col_product_baa_precomp* paa = q120_new_vec_mat1col_product_baa_precomp();
  static q120_mat1col_product_bbb_precomp* pbb = q120_new_vec_mat1col_product_bbb_precomp();
  static q120_mat1col_product_bbc_precomp* pbc = q120_new_vec_mat1col_product_bbc_precomp();
  PF tab[] = {{"q120_vec_mat1col_product_baa_ref", 0, 1, false, (prod_f)q120_vec_mat1col_product_baa_ref}, {"q120_vec_mat1col_product_baa_avx2", 0, 1, true, (prod_f)q120_vec_mat1col_product_baa_avx2},
              {"q120_vec_mat1col_product_bbb_ref", 1, 1, false, (prod_f)q120_vec_mat1col_product_bbb_ref}, {"q120_vec_mat1col_product_bbb_avx2", 1, 1, true, (prod_f)q120_vec_mat1col_product_bbb_avx2},
              {"q120_vec_mat1col_product_bbc_ref", 2, 1, false, (prod_f)q120_vec_mat1col_product_bbc_ref}, {"q120_vec_mat1col_product_bbc_avx2", 2, 1, true, (prod_f)q120_vec_mat1col_product_bbc_avx2},
              {"q120x2_vec_mat1col_product_bbc_ref", 3, 2, false, (prod_f)q120x2_vec_mat1col_product_bbc_ref}, {"q120x2_vec_mat1col_product_bbc_avx2", 3, 2, true, (prod_f)q120x2_vec_mat1col_product_bbc_avx2},
              {"q120x2_vec_mat2cols_product_bbc_ref", 4, 4, false, (prod_f)q120x2_vec_mat2cols_product_bbc_ref}, {"q120x2_vec_mat2cols_product_bbc_avx2", 4, 4, true, (prod_f)q120x2_vec_mat2cols_product_bbc_avx2}};
  const int nf = sizeof(tab) / sizeof(tab[0]);
  const uint64_t trace_max = th ? 65536 : 4096;
  struct It { int kind; uint64_t n; bool inv; int pf; };
  std::vector<It> items;
  for (int lg = 16; lg >= 0; --lg) for (int inv = 0; inv < 2; ++inv) items.push_back({0, 1ull << lg, inv != 0, 0});
  for (int i = 0; i < nf; ++i) items.push_back({1, 0, false, i});
  ctx.parallel(items.size(), [&](uint64_t i) {
    const It& it = items[i];
    if (it.kind == 0) run_ntt(ctx, it.n, it.inv, it.n <= trace_max);
    else { const PF& pf = tab[it.pf]; run_products(ctx, pf, pf.kind == 0 ? (void*)paa : pf.kind == 1 ? (void*)pbb : (void*)pbc); }
  });
  {
    std::vector<std::string> tf;
    check_product_tables(paa, pbb, pbc, tf);
    ctx.begin_case("tables|product precomputations");
    for (auto& f : tf) ctx.violation("tables|product precomputations", "table fact violated: " + f);
    ctx.end_case(true);
  }
  // informational configurations (29-bit / 31-bit prime sets): the same binary built against those libraries
  Json info = Json::obj();
  for (int a = 0; a < 2 && !getenv("VERIF_INFORMATIONAL"); ++a) {
    const char* aux = getenv(a ? "VERIF_AUX_1" : "VERIF_AUX_0");
    if (!aux || args.replaying()) continue;
    std::string tmpd = sfmt("%s/c04_info_%d", getenv("VERIF_LIBDIR") ? getenv("VERIF_LIBDIR") : "/tmp", (int)getpid());
    std::string cmd = sfmt("mkdir -p '%s' && VERIF_INFORMATIONAL=1 VERIF_OUT_DIR='%s' '%s' %s 2>&1", tmpd.c_str(), tmpd.c_str(), aux, args.tier.c_str());
    std::string out; FILE* f = popen(cmd.c_str(), "r"); if (f) { char buf[4096]; size_t n; while ((n = fread(buf, 1, sizeof buf, f)) > 0) out.append(buf, n); pclose(f); }
    size_t nv = 0, pos = 0; while ((pos = out.find("\nVIOLATION", pos)) != std::string::npos) { ++nv; ++pos; }
    std::string first; size_t w = out.find("what: "); if (w != std::string::npos) first = out.substr(w + 6, out.find('\n', w) - w - 6);
    std::string last = out.substr(out.rfind('\n', out.size() - 2) == std::string::npos ? 0 : out.rfind('\n', out.size() - 2) + 1);
    info.set(a ? "primes_31_bit" : "primes_29_bit", nv ? sfmt("INFORMATIONAL ONLY: %zu envelope/side-condition failures, first: %s", nv, first.c_str()) : "INFORMATIONAL ONLY: model and concrete runs pass: " + last);
    if (system(("rm -rf '" + tmpd + "'").c_str())) {}
  }
  // totals for the model_checking evidence keys
  uint64_t states = 0, trans = 0, traces = 0, unavailable = 0;
  for (int k = 0; k <= ctx.nw; ++k) { states += ctx.w[k].cnt[0]; trans += ctx.w[k].cnt[1]; traces += ctx.w[k].cnt[6]; unavailable += ctx.w[k].cnt[5]; }
  Json ex = Json::obj();
  ex.set("states", states).set("transitions", trans).set("traces_validated_against_impl", traces);
  ex.set("stage_trace", unavailable ? "unavailable for some runs (stage functions no longer interposable): those runs rest on the end-to-end oracle" : "available");
  if (!info.o.empty()) ex.set("informational_prime_sets", info);
  ex.set("trace_sizes", sfmt("n <= %llu, 6 lane patterns, both directions", (unsigned long long)trace_max));
  ctx.assumptions = {"default 30-bit prime set (29/31-bit sets are informational configurations, not decided here)",
                     "the transfer functions are written by hand from q120_ntt_avx2.c / q120_arithmetic_{ref,avx2}.c; they are bound to the code by schedule conformance, measured maxima and table checks, not by a proof of equivalence",
                     "operand ranges: any 64-bit lane (NTT, b layout), any 32-bit value (a, c layouts), ell <= 10000"};
  return ctx.finish("model_checking",
                    "abstract states = (transform, n, prime, stage) for n = 2^0..2^16 both directions, plus (product kernel, ref/avx2, ell, prime) for every ell in 0..10000; each side condition (no negative lazy subtraction, "
                    "no 64-bit overflow, 32-bit multiplier operands) is an invariant; real runs: 6 extremal lane patterns per (n, direction) traced through interposed stage calls, products run for every ell on 5 extremal families, with two arrays and with one array passed as both operands",
                    true, ex);
}
