// Engine B: op alphabet and DFS explorer (fork = checkpoint).  Used by C15 (I-hist) and C12 (I-imm, I-warm).
#pragma once
#include <memory>
#include "lsm.hpp"
#include "apitable.hpp"
#include "kernels.hpp"
#include <map>
#include "ctorops.hpp"
extern "C" {
#include "reim/reim_fft_private.h"
#include "cplx/cplx_fft_private.h"
}

namespace vf {

inline void fill_d(GBuf& b, uint64_t salt) { for (size_t i = 0; i < b.bytes / 8; ++i) { uint64_t h = (i + salt + 1) * 0x9E3779B97F4A7C15ull; b.as<double>()[i] = ((double)(int64_t)(h >> 40) - 8388608.0) / 64.0; } }
inline void fill_i64(GBuf& b, uint64_t salt, int shift) { for (size_t i = 0; i < b.bytes / 8; ++i) b.as<int64_t>()[i] = probe62(i + salt) >> shift; }
inline void fill_i32(GBuf& b, uint64_t salt) { for (size_t i = 0; i < b.bytes / 4; ++i) b.as<int32_t>()[i] = (int32_t)(probe62(i + salt) >> 31); }

// ---- the *_simple convenience functions: 2 dimensions x 2 values of every cache-relevant parameter ----
inline void add_simple_ops(std::vector<LsmOp>& ops) {
  for (uint32_t m : {4u, 16u, 4096u}) {
    const bool big = m > 16;  // large dimension (recursive FFT path): only the transforms and the pointwise products
    auto K = [&](const char* f) { return sfmt("%s/m=%u", f, m); };
    // in-place transforms
    struct T1 { const char* name; void (*simple)(uint32_t, void*); int which; };
    T1 t1[] = {{"reim_fft_simple", reim_fft_simple, 0}, {"reim_ifft_simple", reim_ifft_simple, 1}, {"cplx_fft_simple", cplx_fft_simple, 2}, {"cplx_ifft_simple", cplx_ifft_simple, 3}};
    for (auto& t : t1) {
      LsmOp o; o.name = sfmt("%s(m=%u)", t.name, m); o.family = t.name; o.warm_key = K(t.name);
      auto f = t.simple; int w = t.which;
      o.run = [f, m] { GBuf d(16 * m, 8); fill_d(d, m); f(m, d.p); return hash_buf(d); };
      o.explicit_run = [w, m] {
        GBuf d(16 * m, 8); fill_d(d, m);
        if (w == 0) { auto* p = new_reim_fft_precomp(m, 0); reim_fft(p, d.as<double>()); free(p); }
        else if (w == 1) { auto* p = new_reim_ifft_precomp(m, 0); reim_ifft(p, d.as<double>()); free(p); }
        else if (w == 2) { auto* p = new_cplx_fft_precomp(m, 0); cplx_fft(p, d.p); free(p); }
        else { auto* p = new_cplx_ifft_precomp(m, 0); cplx_ifft(p, d.p); free(p); }
        return hash_buf(d); };
      ops.push_back(o);
    }
    // pointwise products
    struct T3 { const char* name; int which; };
    T3 t3[] = {{"reim_fftvec_mul_simple", 0}, {"reim_fftvec_addmul_simple", 1}, {"cplx_fftvec_mul_simple", 2}, {"cplx_fftvec_addmul_simple", 3}, {"reim4_fftvec_mul_simple", 4}, {"reim4_fftvec_addmul_simple", 5}};
    for (auto& t : t3) {
      LsmOp o; o.name = sfmt("%s(m=%u)", t.name, m); o.family = t.name; o.warm_key = K(t.name);
      int w = t.which;
      auto body = [w, m](bool expl) {
        GBuf r(16 * m, 8), a(16 * m, 16), b(16 * m, 24); fill_d(r, 1); fill_d(a, 100 + m); fill_d(b, 200 + m);
        if (!expl) switch (w) {
          case 0: reim_fftvec_mul_simple(m, r.p, a.p, b.p); break; case 1: reim_fftvec_addmul_simple(m, r.p, a.p, b.p); break;
          case 2: cplx_fftvec_mul_simple(m, r.p, a.p, b.p); break; case 3: cplx_fftvec_addmul_simple(m, r.p, a.p, b.p); break;
          case 4: reim4_fftvec_mul_simple(m, r.as<double>(), a.as<double>(), b.as<double>()); break; default: reim4_fftvec_addmul_simple(m, r.as<double>(), a.as<double>(), b.as<double>()); }
        else switch (w) {
          case 0: { auto* p = new_reim_fftvec_mul_precomp(m); reim_fftvec_mul(p, r.as<double>(), a.as<double>(), b.as<double>()); free(p); break; }
          case 1: { auto* p = new_reim_fftvec_addmul_precomp(m); reim_fftvec_addmul(p, r.as<double>(), a.as<double>(), b.as<double>()); free(p); break; }
          case 2: { auto* p = new_cplx_fftvec_mul_precomp(m); cplx_fftvec_mul(p, r.p, a.p, b.p); free(p); break; }
          case 3: { auto* p = new_cplx_fftvec_addmul_precomp(m); cplx_fftvec_addmul(p, r.p, a.p, b.p); free(p); break; }
          case 4: { auto* p = new_reim4_fftvec_mul_precomp(m); reim4_fftvec_mul(p, r.as<double>(), a.as<double>(), b.as<double>()); free(p); break; }
          default: { auto* p = new_reim4_fftvec_addmul_precomp(m); reim4_fftvec_addmul(p, r.as<double>(), a.as<double>(), b.as<double>()); free(p); break; } }
        return hash_buf(r); };
      o.run = [body] { return body(false); };
      o.explicit_run = [body] { return body(true); };
      ops.push_back(o);
    }
    if (big) continue;
    // layout conversions cplx <-> reim4
    for (int dir = 0; dir < 2; ++dir) {
      const char* nm = dir ? "reim4_to_cplx_simple" : "reim4_from_cplx_simple";
      LsmOp o; o.name = sfmt("%s(m=%u)", nm, m); o.family = nm; o.warm_key = K(nm);
      auto body = [dir, m](bool expl) {
        GBuf r(16 * m, 8), a(16 * m, 24); fill_d(a, 300 + m); prefill(r.p, r.bytes, 1);
        if (!dir) { if (!expl) reim4_from_cplx_simple(m, r.as<double>(), a.p); else { auto* p = new_reim4_from_cplx_precomp(m); reim4_from_cplx(p, r.as<double>(), a.p); free(p); } }
        else { if (!expl) reim4_to_cplx_simple(m, r.p, a.as<double>()); else { auto* p = new_reim4_to_cplx_precomp(m); reim4_to_cplx(p, r.p, a.as<double>()); free(p); } }
        return hash_buf(r); };
      o.run = [body] { return body(false); }; o.explicit_run = [body] { return body(true); };
      ops.push_back(o);
    }
    // int32 -> complex
    for (int tn = 0; tn < 2; ++tn) {
      const char* nm = tn ? "cplx_from_tnx32_simple" : "cplx_from_znx32_simple";
      LsmOp o; o.name = sfmt("%s(m=%u)", nm, m); o.family = nm; o.warm_key = K(nm);
      auto body = [tn, m](bool expl) {
        GBuf r(16 * m, 8), x(8 * m, 24); fill_i32(x, 7 + m); prefill(r.p, r.bytes, 1);
        if (!tn) { if (!expl) cplx_from_znx32_simple(m, r.p, x.as<int32_t>()); else { auto* p = new_cplx_from_znx32_precomp(m); cplx_from_znx32(p, r.p, x.as<int32_t>()); free(p); } }
        else { if (!expl) cplx_from_tnx32_simple(m, r.p, x.as<int32_t>()); else { auto* p = new_cplx_from_tnx32_precomp(m); cplx_from_tnx32(p, r.p, x.as<int32_t>()); free(p); } }
        return hash_buf(r); };
      o.run = [body] { return body(false); }; o.explicit_run = [body] { return body(true); };
      ops.push_back(o);
    }
    // int64 -> double: the cache is keyed by m only (log2bound is not relevant for the result)
    for (uint32_t lb : {40u, 50u}) {
      LsmOp o; o.name = sfmt("reim_from_znx64_simple(m=%u,log2bound=%u)", m, lb); o.family = "reim_from_znx64_simple"; o.warm_key = K("reim_from_znx64_simple");
      auto body = [lb, m](bool expl) {
        GBuf r(16 * m, 8), x(16 * m, 24); fill_i64(x, 9 + m, 24); prefill(r.p, r.bytes, 1);
        if (!expl) reim_from_znx64_simple(m, lb, r.p, x.as<int64_t>()); else { auto* p = new_reim_from_znx64_precomp(m, lb); reim_from_znx64(p, r.p, x.as<int64_t>()); free(p); }
        return hash_buf(r); };
      o.run = [body] { return body(false); }; o.explicit_run = [body] { return body(true); };
      ops.push_back(o);
    }
    // double -> int64: thread-local single-entry cache keyed by (m, divisor, log2bound)
    for (double dv : {2.0, 8.0}) for (uint32_t lb : {50u, 63u}) {
      LsmOp o; o.name = sfmt("reim_to_znx64_simple(m=%u,divisor=%g,log2bound=%u)", m, dv, lb); o.family = "reim_to_znx64_simple"; o.warm_key = K("reim_to_znx64_simple"); o.tls_cached = true;
      auto body = [dv, lb, m](bool expl) {
        GBuf r(16 * m, 8), x(16 * m, 24); prefill(r.p, r.bytes, 1);
        // |x/d| up to just below 2^min(log2bound, 52), never an exact tie
        for (size_t i = 0; i < 2 * m; ++i) { int top = (int)std::min<uint32_t>(lb, 52); double y = ldexp((double)(probe62(i + m) >> 9), top - 52); /* 61-bit probes: |y| reaches the upper half of [2^(top-1), 2^top), beyond the range of the narrower kernel */ y = floor(y) + (fabs(y) < 0x1p49 ? 0.25 : 0.0); x.as<double>()[i] = y * dv; }
        if (!expl) reim_to_znx64_simple(m, dv, lb, r.as<int64_t>(), x.p); else { auto* p = new_reim_to_znx64_precomp(m, dv, lb); reim_to_znx64(p, r.as<int64_t>(), x.p); free(p); }
        return hash_buf(r); };
      o.run = [body] { return body(false); }; o.explicit_run = [body] { return body(true); };
      ops.push_back(o);
    }
    // complex -> torus32: thread-local per-m cache keyed by (divisor, log2overhead)
    for (double dv : {2.0, 8.0}) for (uint32_t lo : {18u, 25u}) {
      LsmOp o; o.name = sfmt("cplx_to_tnx32_simple(m=%u,divisor=%g,log2overhead=%u)", m, dv, lo); o.family = "cplx_to_tnx32_simple"; o.warm_key = K("cplx_to_tnx32_simple"); o.tls_cached = true;
      auto body = [dv, lo, m](bool expl) {
        GBuf r(8 * m, 8), x(16 * m, 24); prefill(r.p, r.bytes, 1);
        // |x/d| below 2^min(log2overhead, 24): the announced overhead is really used
        for (size_t i = 0; i < 2 * m; ++i) x.as<double>()[i] = dv * ldexp((double)((int64_t)(probe62(i + m) >> 38)) + 0.25, (int)std::min<uint32_t>(lo, 24) - 24);
        if (!expl) cplx_to_tnx32_simple(m, dv, lo, r.as<int32_t>(), x.p); else { auto* p = new_cplx_to_tnx32_precomp(m, dv, lo); cplx_to_tnx32(p, r.as<int32_t>(), x.p); free(p); }
        return hash_buf(r); };
      o.run = [body] { return body(false); }; o.explicit_run = [body] { return body(true); };
      ops.push_back(o);
    }
  }
}

// ---- module-level entry points on pre-built modules, table-based kernels on pre-built tables ----
inline uint64_t hash_outputs(const ApiCase& c, const ExecResult& r) {
  uint64_t h = 0xcbf29ce484222325ull;
  for (size_t i = 0; i < c.bufs.size(); ++i) if (c.bufs[i].role == R_OUT || c.bufs[i].role == R_INOUT) {
    // only the written part is an output
    for (size_t k = 0; k < c.bufs[i].bytes; ++k) if (c.bufs[i].mask[k]) h = (h ^ r.after[i][k]) * 0x100000001b3ull;
  }
  return h;
}
inline std::string& lsm_pending_fault() { static std::string s; return s; }
inline bool& lsm_protect_sources() { static bool on = true; return on; }  // off while several threads run ops (the trap is process-global harness state)  // set by an op that caught a write into a read-only operand
inline void add_module_ops(std::vector<LsmOp>& ops, const std::vector<uint64_t>& Ns, uint64_t salt = 0) {
  gen_salt() = salt;
  BoxOpts o; o.Ns = Ns; o.max_size = 2; o.extra_sizes = {}; o.vmp_max_dim = 2; o.vmp_max_size = 2; o.ks = {10}; o.cf = {CFG_NATIVE}; o.inplace = true;
  for (auto& G : api_groups(o)) {
    if (G.N >= 1024 && G.fam == F_VEC && VECOPS[G.sub].nin != 1) continue;  // large N: transform / product / normalisation entry points and the unary element-wise ops (copy, negate, rotate, automorphism: they have separate in-place kernels)
    // representatives per group: the last (i.e. largest) non-trivial shape, and the last non-trivial same-pointer (in-place) call
    std::shared_ptr<ApiCase> last, last_inplace;
    run_group(G, o, [&](ApiCase& c) {
      if (!c.nontrivial) return;
      bool al = false, inpl = false;
      for (size_t i = 0; i < c.bufs.size(); ++i) if (c.bufs[i].alias_of >= 0) { al = true; if (c.bufs[root_of(c, (int)i)].role != R_IN) inpl = true; }
      if (al && !inpl) return;  // two sources sharing one buffer: not an in-place call
      (al ? last_inplace : last) = std::make_shared<ApiCase>(c); });
    // each representative with four alignment patterns (all buffers 64-byte aligned; all at 8 modulo 64; only the sources aligned;
    // only the sources unaligned): alignment-keyed code paths on both sides.  Pure sources are read-only mappings during the call
    // (shared const data: a transient write is a race even if the old value is put back).
    static const char* ALN[4] = {"@+0", "@+8", "@src0", "@src8"};
    for (auto& rep : {last, last_inplace}) for (int al = 0; al < 4; ++al) {
      if (!rep) continue;
      if (al >= 2) { bool has_src = false; for (auto& b : rep->bufs) if (b.role == R_IN && b.bytes) has_src = true; if (!has_src) continue; }
      LsmOp op; op.name = rep->id + ALN[al] + (salt ? sfmt("#data%llu", (unsigned long long)salt) : std::string()); op.family = "module"; op.warm_key = "";
      op.run = [rep, al] { ExecResult r; ExecOpts eo; eo.prefill = 1; eo.protect_inputs = lsm_protect_sources();
        for (int i = 0; i < 12 && i < (int)rep->bufs.size(); ++i) { bool src = rep->bufs[i].role == R_IN; if (al == 1 || (al == 2 && !src) || (al == 3 && src)) eo.off[i] = 8; }
        execute(*rep, eo, r);
        if (r.input_write_fault >= 0) lsm_pending_fault() = sfmt("the call writes into its read-only operand '%s' (data that other threads may be reading)", rep->bufs[r.input_write_fault].name.c_str());
        return hash_outputs(*rep, r); };
      ops.push_back(op);
    }
  }
  // inverse DFT of crafted DFT vectors whose coefficients are exact half-integer ties or lie in the top binades of the big-coefficient
  // range (a constant DFT vector c gives the polynomial c exactly): which way a tie goes, or which conversion kernel serves the large
  // magnitudes, must not depend on what was called before
  if (!salt) for (uint64_t N : Ns) {
    if (N > 2048) continue;
    MODULE* mod = get_module(N, FFT64, CFG_NATIVE);
    LsmOp op; op.name = sfmt("vec_znx_idft|fft64|N=%llu|constant DFT vectors: ties and large magnitudes", (unsigned long long)N); op.family = "module"; op.warm_key = "";
    op.run = [mod, N] {
      static const double C[6] = {2.5, -3.5, 0.5, 0x1p51 + 12345.0, -(0x1p51 + 4097.0), 0x1p50 + 0.5};
      GBuf d(6 * N * 8, 8), b(6 * N * 8, 16), t(vec_znx_idft_tmp_bytes(mod) + 64, 0);
      for (int l = 0; l < 6; ++l) for (uint64_t j = 0; j < N; ++j) d.as<double>()[l * N + j] = j < N / 2 ? C[l] : 0.0;  // real parts c, imaginary parts 0
      vec_znx_idft(mod, (VEC_ZNX_BIG*)b.p, 6, (const VEC_ZNX_DFT*)d.p, 6, t.p);
      uint64_t h = hash_buf(b);
      vec_znx_idft_tmp_a(mod, (VEC_ZNX_BIG*)b.p, 6, (VEC_ZNX_DFT*)d.p, 6);
      return hash_buf(b, h); };
    ops.push_back(op);
  }
  gen_salt() = 0;
}
inline void add_table_ops(std::vector<LsmOp>& ops) {
  for (uint32_t m : {4u, 16u, 4096u}) {
    struct P { REIM_FFT_PRECOMP* rf; REIM_IFFT_PRECOMP* ri; CPLX_FFT_PRECOMP* cf; CPLX_IFFT_PRECOMP* ci; REIM_FFTVEC_MUL_PRECOMP* rm; REIM_FFTVEC_ADDMUL_PRECOMP* ra; REIM_TO_ZNX64_PRECOMP* tz; REIM_FROM_ZNX64_PRECOMP* fz; REIM_TO_TNX_PRECOMP* tt; };
    auto p = std::make_shared<P>();
    p->rf = new_reim_fft_precomp(m, 0); p->ri = new_reim_ifft_precomp(m, 0); p->cf = new_cplx_fft_precomp(m, 0); p->ci = new_cplx_ifft_precomp(m, 0);
    p->rm = new_reim_fftvec_mul_precomp(m); p->ra = new_reim_fftvec_addmul_precomp(m); p->tz = new_reim_to_znx64_precomp(m, 4.0, 63); p->fz = new_reim_from_znx64_precomp(m, 50); p->tt = new_reim_to_tnx_precomp(m, 4.0, 20);
    auto add = [&](const std::string& nm, std::function<uint64_t()> f) { LsmOp o; o.name = sfmt("%s(table m=%u)", nm.c_str(), m); o.family = "table"; o.run = f; ops.push_back(o); };
    add("reim_fft", [p, m] { GBuf d(16 * m, 8); fill_d(d, m); reim_fft(p->rf, d.as<double>()); return hash_buf(d); });
    add("reim_ifft", [p, m] { GBuf d(16 * m, 8); fill_d(d, m); reim_ifft(p->ri, d.as<double>()); return hash_buf(d); });
    add("cplx_fft", [p, m] { GBuf d(16 * m, 8); fill_d(d, m); cplx_fft(p->cf, d.p); return hash_buf(d); });
    add("cplx_ifft", [p, m] { GBuf d(16 * m, 8); fill_d(d, m); cplx_ifft(p->ci, d.p); return hash_buf(d); });
    add("reim_fftvec_mul", [p, m] { GBuf r(16 * m, 8), a(16 * m, 16), b(16 * m, 24); fill_d(a, 1); fill_d(b, 2); reim_fftvec_mul(p->rm, r.as<double>(), a.as<double>(), b.as<double>()); return hash_buf(r); });
    add("reim_fftvec_addmul", [p, m] { GBuf r(16 * m, 8), a(16 * m, 16), b(16 * m, 24); fill_d(r, 3); fill_d(a, 1); fill_d(b, 2); reim_fftvec_addmul(p->ra, r.as<double>(), a.as<double>(), b.as<double>()); return hash_buf(r); });
    add("reim_to_znx64", [p, m] { GBuf r(16 * m, 8), x(16 * m, 24); fill_d(x, 5); reim_to_znx64(p->tz, r.as<int64_t>(), x.p); return hash_buf(r); });
    add("reim_from_znx64", [p, m] { GBuf r(16 * m, 8), x(16 * m, 24); fill_i64(x, 5, 24); reim_from_znx64(p->fz, r.p, x.as<int64_t>()); return hash_buf(r); });
    add("reim_to_tnx", [p, m] { GBuf r(16 * m, 8), x(16 * m, 24); fill_d(x, 5); reim_to_tnx(p->tt, r.as<double>(), x.as<double>()); return hash_buf(r); });
  }
  {
    struct Q { q120_ntt_precomp *f, *i; q120_mat1col_product_bbc_precomp* bc; };
    auto q = std::make_shared<Q>();
    q->f = q120_new_ntt_bb_precomp(16); q->i = q120_new_intt_bb_precomp(16); q->bc = q120_new_vec_mat1col_product_bbc_precomp();
    auto add = [&](const std::string& nm, std::function<uint64_t()> f) { LsmOp o; o.name = nm; o.family = "table"; o.run = f; ops.push_back(o); };
    add("q120_ntt_bb_avx2(table n=16)", [q] { GBuf d(32 * 16, 8); for (size_t i = 0; i < 64; ++i) d.as<uint64_t>()[i] = probe62(i) * 3; q120_ntt_bb_avx2(q->f, (q120b*)d.p); return hash_buf(d); });
    add("q120_intt_bb_avx2(table n=16)", [q] { GBuf d(32 * 16, 8); for (size_t i = 0; i < 64; ++i) d.as<uint64_t>()[i] = probe62(i) * 3; q120_intt_bb_avx2(q->i, (q120b*)d.p); return hash_buf(d); });
    add("q120_vec_mat1col_product_bbc_avx2(table, ell=7)", [q] { GBuf r(32, 8), x(32 * 7, 16), y(32 * 7, 24); for (size_t i = 0; i < 28; ++i) { x.as<uint64_t>()[i] = probe62(i) * 5; y.as<uint64_t>()[i] = probe62(i + 99) * 7; } q120_vec_mat1col_product_bbc_avx2(q->bc, 7, (q120b*)r.p, (q120b*)x.p, (q120c*)y.p); return hash_buf(r); });
  }
}

// ---- exported kernels (q120, reim, reim4, cplx, coefficient kernels incl. the in-place ones): one case per kernel name and size layer.
// A kernel case builds whatever table it needs inside the op (like a constructor op), so the op is self-contained.
inline void add_kernel_ops(std::vector<LsmOp>& ops) {
  std::vector<KernelGroup> gs;
  for (uint64_t v : {7, 100}) gs.push_back({K_Q120_PROD, v});
  for (uint64_t v : {8, 64}) { gs.push_back({K_Q120_CONV, v}); gs.push_back({K_Q120_BLK, v}); }
  for (uint64_t v : {16, 4096}) { gs.push_back({K_Q120_NTT, v}); gs.push_back({K_FFT, v}); }
  for (uint64_t v : {16, 256}) { gs.push_back({K_FFTVEC, v}); gs.push_back({K_CONV, v}); }
  for (uint64_t v : {16, 64}) gs.push_back({K_REIM4, v});
  for (uint64_t v : {16, 256, 8192}) gs.push_back({K_COEFF, v});
  for (auto& G : gs) {
    std::map<std::string, std::string> last;  // kernel name -> id of its last case in the group
    std::vector<std::string> order;
    run_kernel_group(G, false, [&](ApiCase& c, const KernelInfo&) {
      if (!c.nontrivial && c.bufs.empty()) return;
      size_t a = c.id.find('|'), b = c.id.find('|', a + 1);
      std::string nm = c.id.substr(a + 1, b == std::string::npos ? std::string::npos : b - a - 1);
      if (!last.count(nm)) order.push_back(nm);
      last[nm] = c.id; });
    for (auto& nm : order) {
      std::string want = last[nm];
      LsmOp op; op.name = want + sfmt("|layer=%llu", (unsigned long long)G.size); op.family = "kernel"; op.warm_key = "";
      KernelGroup G2 = G;
      op.run = [G2, want] { uint64_t h = 0; bool found = false;
        run_kernel_group(G2, false, [&](ApiCase& c, const KernelInfo&) { if (found || c.id != want) return; found = true; ExecResult r; ExecOpts eo; eo.prefill = 1; execute(c, eo, r); h = hash_outputs(c, r); });
        if (!found) machinery_error("kernel op %s not regenerated", want.c_str());
        return h; };
      ops.push_back(op);
    }
  }
}

// ---- constructors: creating an object, using it once and deleting it must not touch any shared storage either
// (two threads may create their own modules / tables at the same time); the list is in ctorops.hpp
inline void add_ctor_ops(std::vector<LsmOp>& ops) {
  for (auto& c : ctor_ops(false)) { LsmOp o; o.name = c.name; o.family = "ctor"; o.run = c.run; ops.push_back(o); }
}

// ---- explorer ---------------------------------------------------------------------------------------
enum LsmKind { LSM_HIST, LSM_IMM, LSM_WARM, LSM_CRASH };
typedef std::function<void(LsmKind, const std::string& id, const std::string& msg)> LsmReport;

struct Baseline { uint64_t out, expl; int has_expl; int nranges; uint32_t lo[16], hi[16]; };  // write set of the first execution from the initial state

struct Lsm {
  std::vector<LsmOp> ops;
  Baseline* base = 0;  // shared memory, one per op
  StateSet set;
  LsmReport report;
  std::function<void(const std::string&)> on_transition;
  std::string last_id;
  uint64_t initial_hash = 0;
  bool enforce_imm = true;  // C12: write traps on shared storage; C15 judges results only and never protects anything

  void init_shared() {
    base = (Baseline*)mmap(0, sizeof(Baseline) * ops.size(), PROT_READ | PROT_WRITE, MAP_SHARED | MAP_ANONYMOUS, -1, 0);
    if (base == MAP_FAILED) machinery_error("mmap baseline");
    memset(base, 0, sizeof(Baseline) * ops.size());
  }
  // 8-byte words of the static segment that differ from `before`, coalesced into ranges (offsets)
  static void diff_ranges(const std::vector<uint8_t>& before, std::vector<std::pair<uint32_t, uint32_t>>& rg) {
    LibImage& I = lib_image();
    rg.clear();
    for (size_t i = 0; i < I.stat_len; i += 8) {
      size_t n = std::min<size_t>(8, I.stat_len - i);
      if (memcmp(&before[i], I.stat + i, n) == 0) continue;
      if (!rg.empty() && rg.back().second == i) rg.back().second = (uint32_t)(i + n); else rg.push_back({(uint32_t)i, (uint32_t)(i + n)});
    }
  }
  // baselines: every op executed once from the initial state in its own forked child
  void compute_baselines() {
    LibImage& I = lib_image();
    for (size_t k = 0; k < ops.size(); ++k) {
      fflush(stdout);
      pid_t p = fork();
      if (p == 0) {
        std::vector<uint8_t> before(I.stat, I.stat + I.stat_len);
        TrapInfo& t = trap_info();
        t.armed = 1;
        alloc_track().poison = 0x00;  // environment answer: fresh heap memory reads as zero here, as 0xA5 / 0xFF elsewhere - no result may depend on it
        lsm_pending_fault().clear();
        if (sigsetjmp(t.jb, 1) == 0) { base[k].out = ops[k].run(); t.armed = 0; if (enforce_imm && !lsm_pending_fault().empty()) report(LSM_IMM, "lsm|baseline|" + ops[k].name, lsm_pending_fault()); }
        else { report(LSM_IMM, "lsm|baseline|" + ops[k].name, sfmt("in the initial state the call writes storage that must be immutable: %s", lsm_where(t.addr).c_str())); _exit(0); }
        std::vector<std::pair<uint32_t, uint32_t>> rg;
        diff_ranges(before, rg);
        base[k].nranges = (int)std::min<size_t>(rg.size(), 16);
        for (int i = 0; i < base[k].nranges; ++i) { base[k].lo[i] = rg[i].first; base[k].hi[i] = rg[i].second; }
        if (rg.size() > 16) base[k].nranges = -1;
        _exit(0);
      }
      int st; waitpid(p, &st, 0);
      if (!WIFEXITED(st) || WEXITSTATUS(st)) { report(LSM_CRASH, "lsm|baseline|" + ops[k].name, "the op crashes in the initial state"); base[k].out = 0; }
      if (ops[k].explicit_run) {
        p = fork();
        if (p == 0) { alloc_track().poison = 0xFF; base[k].expl = ops[k].explicit_run(); base[k].has_expl = 1; _exit(0); }
        waitpid(p, &st, 0);
        if (!WIFEXITED(st) || WEXITSTATUS(st)) report(LSM_CRASH, "lsm|baseline-explicit|" + ops[k].name, "the explicit-table form of the op crashes");
        else if (base[k].has_expl && base[k].expl != base[k].out) report(LSM_HIST, "lsm|initial|" + ops[k].name, "in the initial state the *_simple function does not return the same values as freshly built explicit tables");
      }
    }
  }
  static bool overlaps(const Baseline& a, uint32_t lo, uint32_t hi) { for (int i = 0; i < a.nranges; ++i) if (lo < a.hi[i] && a.lo[i] < hi) return true; return false; }
  static bool inside(const Baseline& a, uint32_t lo, uint32_t hi) { for (int i = 0; i < a.nranges; ++i) if (lo >= a.lo[i] && hi <= a.hi[i]) return true; return false; }

  std::string path_str(const std::vector<int>& path) const { std::string s; for (int k : path) { if (!s.empty()) s += " > "; s += ops[k].name; } return s.empty() ? "(initial state)" : s; }

  // executes op k in the current process state (after `path`) and evaluates the invariants; returns the new state hash
  uint64_t step(const std::vector<int>& path, int k, uint64_t parent_hash, const std::string& tag) {
    LibImage& I = lib_image();
    const LsmOp& op = ops[k];
    std::string id = "lsm|" + tag + "|" + path_str(path) + " || " + op.name;
    last_id = id;
    bool warmed = false;
    for (int j : path) if (!op.warm_key.empty() && ops[j].warm_key == op.warm_key) warmed = true;
    bool protect = enforce_imm && (op.warm_key.empty() || op.tls_cached || warmed);
    uint64_t out = 0;
    TrapInfo& t = trap_info();
    std::vector<uint8_t> before;
    if (protect) lsm_protect(true); else before.assign(I.stat, I.stat + I.stat_len);
    t.armed = 1;
    alloc_track().poison = 0xA5;
    alloc_track().poison_free = 0xDD;  // environment answer: what a freed block holds afterwards
    alloc_track().recycle = 1;         // environment answer: a freed block is handed out again to the next request of the same size
    lsm_pending_fault().clear();
    if (sigsetjmp(t.jb, 1) == 0) { out = op.run(); t.armed = 0; alloc_track().poison = -1; alloc_track().poison_free = -1; alloc_track().recycle = 0; if (protect) lsm_protect(false); }
    else {
      alloc_track().poison = -1; alloc_track().poison_free = -1; alloc_track().recycle = 0;
      if (protect) lsm_protect(false);
      report(LSM_IMM, id, sfmt("the call writes shared storage that must be immutable at this point: %s (%s)", lsm_where(t.addr).c_str(),
                               !protect ? "a module / table object created earlier" : op.warm_key.empty() ? "module / table operation" : op.tls_cached ? "its cache is thread-local" : "the function was already warmed up for this dimension"));
      return 0;
    }
    if (enforce_imm && !lsm_pending_fault().empty()) { report(LSM_IMM, id, lsm_pending_fault()); lsm_pending_fault().clear(); }
    if (!protect && enforce_imm) {
      std::vector<std::pair<uint32_t, uint32_t>> rg;
      diff_ranges(before, rg);
      for (auto& r : rg) {
        if (base[k].nranges >= 0 && !inside(base[k], r.first, r.second)) { report(LSM_WARM, id, sfmt("first use writes static storage outside its own slot (offset 0x%x..0x%x, %s)", r.first, r.second, lsm_where((uintptr_t)I.stat + r.first).c_str())); break; }
        for (size_t j = 0; j < ops.size(); ++j) if (ops[j].warm_key != op.warm_key && !ops[j].warm_key.empty() && overlaps(base[j], r.first, r.second)) { report(LSM_WARM, id, sfmt("first use writes the slot of another function/dimension (%s)", ops[j].name.c_str())); j = ops.size(); }
      }
    }
    if (out != base[k].out) report(LSM_HIST, id, "the outputs differ from the outputs of the same call in the initial state (the result depends on the call history or on the content of freshly allocated memory)");
    if (base[k].has_expl && out != base[k].expl) report(LSM_HIST, id, "the outputs differ from the same operation through freshly built explicit tables");
    uint64_t h = lsm_canon_hash();
    if (enforce_imm && warmed && !op.tls_cached && h != parent_hash) report(LSM_WARM, id, "repeating a warmed-up call changed the library state (it must be a self-loop)");
    if (enforce_imm && op.warm_key.empty() && h != parent_hash) report(LSM_IMM, id, "a module / table operation changed the library's hidden state");
    return h;
  }

  // DFS: `alphabet` = op indices; sequences up to maxdepth; fork is the checkpoint
  void explore(std::vector<int>& path, uint64_t cur_hash, const std::vector<int>& alphabet, int maxdepth, const std::string& tag, int only_first = -1) {
    for (size_t ai = 0; ai < alphabet.size(); ++ai) {
      if (path.empty() && only_first >= 0 && (int)ai != only_first) continue;
      int k = alphabet[ai];
      fflush(stdout);
      pid_t p = fork();
      if (p < 0) machinery_error("fork failed in the state explorer");
      if (p == 0) {
        uint64_t h = step(path, k, cur_hash, tag);
        if (on_transition) on_transition(last_id);
        __sync_fetch_and_add(&set.counters[1], 1);
        if (h == cur_hash) __sync_fetch_and_add(&set.counters[3], 1);
        if (h != 0) {
          bool isnew = set.insert(h);
          uint64_t d = path.size() + 1;
          if (isnew) { uint64_t m = set.counters[2]; while (d > m && !__sync_bool_compare_and_swap(&set.counters[2], m, d)) m = set.counters[2]; }
          if (isnew && (int)path.size() + 1 < maxdepth) { path.push_back(k); explore(path, h, alphabet, maxdepth, tag); }
        }
        _exit(0);
      }
      int st; waitpid(p, &st, 0);
      if (!WIFEXITED(st) || WEXITSTATUS(st) != 0) {
        if (WIFEXITED(st) && WEXITSTATUS(st) == 3) machinery_error("state explorer child reported a machinery error");
        report(LSM_CRASH, "lsm|" + tag + "|" + path_str(path) + " || " + ops[k].name, WIFSIGNALED(st) ? sfmt("the call crashed (signal %d)", WTERMSIG(st)) : "the call exited abnormally");
      }
    }
  }
};

}  // namespace vf
