// Shared harness core: arguments, RNG, JSON, fork workers with crash attribution, violation
// reports with replay files, evidence writer.  Header-only; every check is one translation unit.
#pragma once
#include <algorithm>
#include <cinttypes>
#include <cmath>
#include <csignal>
#include <cstdarg>
#include <cstdint>
#include <cstdio>
#include <cstdlib>
#include <cstring>
#include <functional>
#include <map>
#include <set>
#include <string>
#include <vector>
#include <fcntl.h>
#include <sys/mman.h>
#include <sys/stat.h>
#include <sys/time.h>
#include <time.h>
#include <sys/wait.h>
#include <unistd.h>

namespace vf {

typedef __int128 i128;
typedef unsigned __int128 u128;

inline double now() {
  struct timeval tv;
  gettimeofday(&tv, 0);
  return tv.tv_sec + 1e-6 * tv.tv_usec;
}

[[noreturn]] inline void machinery_error(const char* fmt, ...) {
  va_list ap;
  va_start(ap, fmt);
  fprintf(stderr, "MACHINERY-ERROR: ");
  vfprintf(stderr, fmt, ap);
  fprintf(stderr, "\n");
  va_end(ap);
  fflush(stderr);
  _exit(3);
}

// ------------------------------------------------------------------------------------------
// rng (only ever used to produce additional probe *values* on top of an enumerated space)
struct Rng {
  uint64_t s;
  explicit Rng(uint64_t seed) : s(seed * 0x9E3779B97F4A7C15ull + 0x1234567ull) {}
  uint64_t next() {
    uint64_t z = (s += 0x9E3779B97F4A7C15ull);
    z = (z ^ (z >> 30)) * 0xBF58476D1CE4E5B9ull;
    z = (z ^ (z >> 27)) * 0x94D049BB133111EBull;
    return z ^ (z >> 31);
  }
  // uniform in [-b, b]
  int64_t sym(int64_t b) { return (int64_t)(next() % (uint64_t)(2 * b + 1)) - b; }
  double unit() { return (double)(next() >> 11) * 0x1p-53; }
};

inline uint64_t fnv(const void* p, size_t n, uint64_t h = 0xcbf29ce484222325ull) {
  const uint8_t* b = (const uint8_t*)p;
  for (size_t i = 0; i < n; ++i) h = (h ^ b[i]) * 0x100000001b3ull;
  return h;
}
inline uint64_t fnv(const std::string& s) { return fnv(s.data(), s.size()); }

inline std::string sfmt(const char* fmt, ...) {
  char buf[2048];
  va_list ap;
  va_start(ap, fmt);
  vsnprintf(buf, sizeof buf, fmt, ap);
  va_end(ap);
  return buf;
}

// ------------------------------------------------------------------------------------------
// minimal JSON value
struct Json {
  enum K { NUL, BOOL, INT, DBL, STR, ARR, OBJ } k = NUL;
  bool b = false;
  long long i = 0;
  double d = 0;
  std::string s;
  std::vector<Json> a;
  std::vector<std::pair<std::string, Json>> o;
  Json() {}
  Json(bool v) : k(BOOL), b(v) {}
  Json(int v) : k(INT), i(v) {}
  Json(long v) : k(INT), i(v) {}
  Json(long long v) : k(INT), i(v) {}
  Json(unsigned v) : k(INT), i(v) {}
  Json(unsigned long v) : k(INT), i((long long)v) {}
  Json(unsigned long long v) : k(INT), i((long long)v) {}
  Json(double v) : k(DBL), d(v) {}
  Json(const char* v) : k(STR), s(v) {}
  Json(const std::string& v) : k(STR), s(v) {}
  static Json arr() { Json j; j.k = ARR; return j; }
  static Json obj() { Json j; j.k = OBJ; return j; }
  Json& push(const Json& v) { k = ARR; a.push_back(v); return *this; }
  Json& set(const std::string& key, const Json& v) {
    k = OBJ;
    for (auto& kv : o) if (kv.first == key) { kv.second = v; return *this; }
    o.push_back({key, v});
    return *this;
  }
  static void esc(std::string& out, const std::string& s) {
    out += '"';
    for (unsigned char c : s) {
      if (c == '"' || c == '\\') { out += '\\'; out += c; }
      else if (c == '\n') out += "\\n";
      else if (c == '\t') out += "\\t";
      else if (c < 0x20) { char b[8]; snprintf(b, 8, "\\u%04x", c); out += b; }
      else out += c;
    }
    out += '"';
  }
  void dump(std::string& out, int ind = 0) const {
    std::string pad(ind + 1, ' ');
    switch (k) {
      case NUL: out += "null"; break;
      case BOOL: out += b ? "true" : "false"; break;
      case INT: out += std::to_string(i); break;
      case DBL: {
        if (!std::isfinite(d)) { out += "null"; break; }
        char buf[40]; snprintf(buf, 40, "%.6g", d);
        out += buf;
        if (!strpbrk(buf, ".eE")) out += ".0";
        break;
      }
      case STR: esc(out, s); break;
      case ARR:
        out += "[";
        for (size_t j = 0; j < a.size(); ++j) { if (j) out += ", "; a[j].dump(out, ind + 1); }
        out += "]";
        break;
      case OBJ:
        out += "{\n";
        for (size_t j = 0; j < o.size(); ++j) {
          out += pad; esc(out, o[j].first); out += ": "; o[j].second.dump(out, ind + 1);
          if (j + 1 < o.size()) out += ",";
          out += "\n";
        }
        out += std::string(ind, ' ') + "}";
        break;
    }
  }
  std::string str() const { std::string r; dump(r); return r; }
};

// ------------------------------------------------------------------------------------------
// arguments
struct Args {
  std::string prop;            // e.g. "C08"
  std::string tier = "quick";  // quick | thorough
  uint64_t seed = 1;
  std::string replay_id;       // non-empty: only the case with this id is executed
  double deadline_s = 1e18;    // global wall-clock budget of the tier
  double case_limit_s = 1e18;  // a single case that does not return within this time is a hang (reported as a violation; VERIF_CASE_TIMEOUT)
  double t0 = 0;
  int workers = 16;
  std::string verif_dir = "/verif";
  std::string out_dir;  // where evidence/ and replays/ are written (VERIF_OUT_DIR, default verif_dir)
  bool thorough() const { return tier == "thorough"; }
  bool replaying() const { return !replay_id.empty(); }
  bool past_deadline() const { return now() - t0 > deadline_s; }
};

inline std::string read_file(const std::string& p) {
  FILE* f = fopen(p.c_str(), "rb");
  if (!f) return "";
  std::string r;
  char buf[4096];
  size_t n;
  while ((n = fread(buf, 1, sizeof buf, f)) > 0) r.append(buf, n);
  fclose(f);
  return r;
}

// extracts the string value of "key" from a flat JSON text (enough for our own replay files)
inline std::string json_get_string(const std::string& txt, const std::string& key) {
  size_t p = txt.find("\"" + key + "\"");
  if (p == std::string::npos) return "";
  p = txt.find(':', p);
  p = txt.find('"', p);
  if (p == std::string::npos) return "";
  std::string r;
  for (++p; p < txt.size() && txt[p] != '"'; ++p) {
    if (txt[p] == '\\' && p + 1 < txt.size()) { ++p; r += (txt[p] == 'n' ? '\n' : txt[p]); }
    else r += txt[p];
  }
  return r;
}

inline Args parse_args(const char* prop, int argc, char** argv, double quick_deadline, double thorough_deadline) {
  Args a;
  a.prop = prop;
  a.t0 = now();
  const char* vd = getenv("VERIF_DIR");
  if (vd) a.verif_dir = vd;
  const char* od = getenv("VERIF_OUT_DIR");
  a.out_dir = (od && *od) ? od : a.verif_dir;
  const char* sd = getenv("VERIF_SEED");
  if (sd && *sd) a.seed = strtoull(sd, 0, 10);
  const char* wk = getenv("VERIF_WORKERS");
  if (wk && *wk) a.workers = atoi(wk);
  for (int i = 1; i < argc; ++i) {
    std::string s = argv[i];
    if (s == "quick" || s == "thorough") a.tier = s;
    else if (s == "--replay" && i + 1 < argc) {
      std::string txt = read_file(argv[++i]);
      a.replay_id = json_get_string(txt, "case_id");
      std::string t = json_get_string(txt, "tier");
      if (!t.empty()) a.tier = t;
      std::string sv = json_get_string(txt, "seed_str");
      if (!sv.empty()) a.seed = strtoull(sv.c_str(), 0, 10);
      if (a.replay_id.empty()) machinery_error("replay file %s has no case_id", argv[i]);
    } else if (s == "--case" && i + 1 < argc) a.replay_id = argv[++i];
    else machinery_error("unknown argument %s", s.c_str());
  }
  a.deadline_s = a.thorough() ? thorough_deadline : quick_deadline;
  a.case_limit_s = a.thorough() ? 900 : 120;
  { const char* cl = getenv("VERIF_CASE_TIMEOUT"); if (cl && *cl) a.case_limit_s = atof(cl); }
  const char* dl = getenv("VERIF_DEADLINE_S");
  if (dl && *dl) a.deadline_s = atof(dl);
  return a;
}

// ------------------------------------------------------------------------------------------
// shared-memory statistics of forked workers
static const int NMET = 24;
static const int MAXVREC = 48;
static const int MAXSAMP = 6;
struct VRec { char id[1536]; char msg[1024]; };
struct WorkerShm {
  volatile uint64_t evals, nontrivial, violations;
  volatile uint64_t cnt[NMET];
  volatile double maxv[NMET];
  char cur[1536];  // id of the case being executed (crash attribution)
  volatile int in_case;
  int nvrec;
  VRec vrec[MAXVREC];
  int nsamp;
  char samp[MAXSAMP][1024];
  volatile uint64_t nhash;  // number of hashes appended to this worker's segment
  volatile uint64_t cur_item, wants_in_item;  // resume information after a crash
  volatile int item_active;
  volatile double case_t0;   // when the current case began (hang watchdog: wall clock)
  volatile double case_cpu0; // CPU time this worker had consumed when the current case began (hang watchdog: CPU clock)
  volatile int hung;         // set by the parent when it kills this worker for exceeding the per-case limit
};
struct GlobalShm {
  volatile uint64_t next_item;
  volatile uint64_t items_done;
  volatile int deadline_hit;
  volatile int crash_cap_hit;
};

struct Known { std::string prop, key, text; };

struct Ctx;
inline Ctx*& g_ctx() { static Ctx* c = 0; return c; }

struct Ctx {
  Args args;
  int nw;
  WorkerShm* w;       // nw + 1 slots, the last one belongs to the parent
  GlobalShm* g;
  uint64_t* hashes;   // nw+1 segments of HCAP entries (MAP_NORESERVE)
  static const uint64_t HCAP = 1ull << 26;
  int me;             // worker index (nw = parent)
  std::vector<Known> known;
  std::vector<std::string> crash_ids;
  std::map<std::string, Json> extra;  // extra coverage keys
  std::vector<std::string> assumptions;
  std::vector<std::string> metric_names;
  uint64_t parent_restarts = 0;

  explicit Ctx(const Args& a) : args(a), nw(a.workers), me(a.workers) {
    size_t sz = sizeof(WorkerShm) * (nw + 1);
    w = (WorkerShm*)mmap(0, sz, PROT_READ | PROT_WRITE, MAP_SHARED | MAP_ANONYMOUS, -1, 0);
    g = (GlobalShm*)mmap(0, sizeof(GlobalShm), PROT_READ | PROT_WRITE, MAP_SHARED | MAP_ANONYMOUS, -1, 0);
    hashes = (uint64_t*)mmap(0, sizeof(uint64_t) * HCAP * (nw + 1), PROT_READ | PROT_WRITE,
                             MAP_SHARED | MAP_ANONYMOUS | MAP_NORESERVE, -1, 0);
    if (w == MAP_FAILED || g == MAP_FAILED || hashes == MAP_FAILED) machinery_error("mmap failed");
    memset(w, 0, sz);
    memset(g, 0, sizeof *g);
    metric_names.resize(NMET);
    load_known();
    g_ctx() = this;
  }

  void load_known() {
    std::string txt = read_file(args.verif_dir + "/known_findings.txt");
    size_t p = 0;
    while (p < txt.size()) {
      size_t e = txt.find('\n', p);
      if (e == std::string::npos) e = txt.size();
      std::string line = txt.substr(p, e - p);
      p = e + 1;
      if (line.compare(0, 6, "known:") != 0) continue;  // "fixed:" lines suppress nothing
      Known k;
      size_t a = line.find("property=");
      size_t b = line.find("key=");
      if (a == std::string::npos || b == std::string::npos) continue;
      k.prop = line.substr(a + 9, line.find(' ', a) - a - 9);
      size_t be = line.find(' ', b);
      k.key = line.substr(b + 4, be == std::string::npos ? std::string::npos : be - b - 4);
      k.text = be == std::string::npos ? "" : line.substr(be + 1);
      known.push_back(k);
    }
  }

  WorkerShm& my() { return w[me]; }

  // ---- called by check code (in workers or in the parent) ----
  // called exactly once per enumerated case, in a deterministic order (this is what makes resuming an
  // item after a crash possible: the first `skip` cases of the item are not executed again)
  uint64_t skip = 0;
  bool want(const std::string& id) {
    my().wants_in_item++;
    if (skip > 0) { skip--; return false; }
    return args.replay_id.empty() || args.replay_id == id;
  }
  void begin_case(const std::string& id) {
    WorkerShm& s = my();
    strncpy(s.cur, id.c_str(), sizeof s.cur - 1);
    s.cur[sizeof s.cur - 1] = 0;
    s.case_t0 = now();
    { struct timespec ts; clock_gettime(CLOCK_PROCESS_CPUTIME_ID, &ts); s.case_cpu0 = (double)ts.tv_sec + 1e-9 * (double)ts.tv_nsec; }
    s.in_case = 1;
  }
  // the case generators call the library themselves (vec_znx_dft to build a DFT-space input, vmp_prepare for a prepared matrix, ...):
  // a crash there is a crash of the library on in-domain arguments, not a machinery error - it is attributed to the group being built
  void generating(const std::string& what) {
    WorkerShm& s = my();
    snprintf(s.cur, sizeof s.cur, "generator|%s", what.c_str());
    s.case_t0 = now();
    { struct timespec ts; clock_gettime(CLOCK_PROCESS_CPUTIME_ID, &ts); s.case_cpu0 = (double)ts.tv_sec + 1e-9 * (double)ts.tv_nsec; }
    s.in_case = 2;
  }
  void generating_done() { if (my().in_case == 2) my().in_case = 0; }
  // nontrivial: by the check's stated rule
  void end_case(bool nontrivial, const std::string* sample = 0) {
    WorkerShm& s = my();
    s.evals++;
    if (nontrivial) {
      s.nontrivial++;
      uint64_t h = fnv(s.cur, strlen(s.cur));
      if (s.nhash < HCAP) hashes[(uint64_t)me * HCAP + s.nhash++] = h;
      if (s.nsamp < MAXSAMP && (s.evals % 7 == 1 || s.nsamp == 0)) {
        const std::string& t = sample ? *sample : std::string(s.cur);
        strncpy(s.samp[s.nsamp], t.c_str(), sizeof s.samp[0] - 1);
        s.nsamp++;
      }
    }
    s.in_case = 0;
  }
  void violation(const std::string& id, const std::string& msg) {
    WorkerShm& s = my();
    s.violations++;
    if (s.nvrec < MAXVREC) {
      strncpy(s.vrec[s.nvrec].id, id.c_str(), sizeof s.vrec[0].id - 1);
      strncpy(s.vrec[s.nvrec].msg, msg.c_str(), sizeof s.vrec[0].msg - 1);
      s.nvrec++;
    }
  }
  void metric_max(int k, double v) { if (v > my().maxv[k]) my().maxv[k] = v; }
  void metric_add(int k, uint64_t v = 1) { my().cnt[k] += v; }
  void name_metric(int k, const std::string& n) { metric_names[k] = n; }

  // ---- fork workers over items [0,n): fn(item) runs cases; dynamic distribution ----
  // A crashed worker is restarted; the crash is attributed to the published case id.
  void parallel(uint64_t n, const std::function<void(uint64_t)>& fn, const char* phase = "") {
    if (n == 0) return;
    g->next_item = 0;
    int nproc = (int)std::min<uint64_t>(nw, n);
    if (args.replaying()) nproc = std::min(nproc, 4);
    std::vector<pid_t> pid(nproc, 0);
    auto spawn = [&](int k, bool resume) {
      fflush(stdout); fflush(stderr);
      uint64_t r_item = w[k].cur_item, r_skip = w[k].wants_in_item;
      pid_t p = fork();
      if (p < 0) machinery_error("fork failed");
      if (p == 0) {
        me = k;
        if (resume) {  // finish the item in which the previous incarnation of this worker crashed
          my().cur_item = r_item; my().wants_in_item = 0; my().item_active = 1;
          skip = r_skip;
          fn(r_item);
          skip = 0;
          my().item_active = 0;
          __sync_fetch_and_add(&g->items_done, 1);
        }
        for (;;) {
          if (args.past_deadline()) { g->deadline_hit = 1; break; }
          if (g->crash_cap_hit) break;
          uint64_t it = __sync_fetch_and_add(&g->next_item, 1);
          if (it >= n) break;
          my().cur_item = it; my().wants_in_item = 0; my().item_active = 1;
          fn(it);
          my().item_active = 0;
          __sync_fetch_and_add(&g->items_done, 1);
        }
        fflush(stdout);
        _exit(0);
      }
      pid[k] = p;
    };
    for (int k = 0; k < nproc; ++k) spawn(k, false);
    int alive = nproc;
    while (alive > 0) {
      int st = 0;
      pid_t p = waitpid(-1, &st, WNOHANG);
      if (p == 0) {  // nobody exited: hang watchdog, then sleep a little
        const double lim = args.case_limit_s * (args.replaying() ? 1.5 : 1);  // a replay runs the case alone with a longer limit before it is called a hang
        // the limit is on the CPU time the worker has spent inside the case (a worker that is merely starved on a busy machine is not
        // hanging; the library has no blocking primitive, so a call that does not return spins); 10 x the limit of wall time is the backstop
        for (int j = 0; j < nproc; ++j) {
          if (!(pid[j] > 0 && w[j].in_case && !w[j].hung)) continue;
          const double wall = now() - w[j].case_t0;
          if (wall <= lim) continue;
          double cpu = wall;
          clockid_t cid; struct timespec ts;
          if (clock_getcpuclockid(pid[j], &cid) == 0 && clock_gettime(cid, &ts) == 0) cpu = (double)ts.tv_sec + 1e-9 * (double)ts.tv_nsec - w[j].case_cpu0;
          if (cpu > lim || wall > 10 * lim) { w[j].hung = 1; kill(pid[j], SIGKILL); }
        }
        usleep(20000);
        continue;
      }
      if (p < 0) break;
      int k = -1;
      for (int j = 0; j < nproc; ++j) if (pid[j] == p) k = j;
      if (k < 0) continue;
      bool bad = WIFSIGNALED(st) || (WIFEXITED(st) && WEXITSTATUS(st) != 0);
      if (bad && WIFEXITED(st) && WEXITSTATUS(st) == 3) machinery_error("worker reported a machinery error (%s)", phase);
      if (bad) {
        std::string id = w[k].in_case ? std::string(w[k].cur) : std::string("<outside any case>");
        std::string how = WIFSIGNALED(st) ? sfmt("killed by signal %d (%s)", WTERMSIG(st), strsignal(WTERMSIG(st)))
                                          : sfmt("exited with status %d", WEXITSTATUS(st));
        const bool hung = w[k].hung != 0;
        const bool in_generator = w[k].in_case == 2;
        w[k].hung = 0;
        // SIGKILL that the watchdog did not send comes from outside (the kernel's out-of-memory killer, an operator): not the library
        if (WIFSIGNALED(st) && WTERMSIG(st) == SIGKILL && !hung) machinery_error("a worker was killed from outside (SIGKILL, probably out of memory) in %s while at '%s'", phase, w[k].cur);
        if (!w[k].in_case) {
          // between two cases: the allocator noticed a corrupted heap (abort in free / malloc), or freed memory was still in use - the
          // harness itself does not crash there on the unchanged tree, so a call of the library before this point wrote outside its
          // buffers further than the guard zones reach.  Attributed to the last case this worker executed; the item is abandoned.
          if (!WIFSIGNALED(st) || w[k].cur[0] == 0) machinery_error("worker died outside any case: %s (%s)", how.c_str(), phase);
          int save = me; me = k;
          violation(std::string(w[k].cur), "the worker process died between two cases, right after this one (" + how + "): heap corruption noticed by the allocator or a wild access - a call up to this point wrote outside its buffers beyond the guard zones");
          me = save;
          parent_restarts++;
          if (parent_restarts > 400) { g->crash_cap_hit = 1; pid[k] = 0; alive--; continue; }
          spawn(k, false);
          continue;
        }
        int save = me; me = k;
        violation(id, hung ? sfmt("the call did not return within %.0f s of CPU time (the case normally takes far less): non-termination", args.case_limit_s * (args.replaying() ? 1.5 : 1))
                           : in_generator ? "the library crashed while the harness was building the inputs of the next case of this group (the generators call the library on in-domain arguments): " + how
                           : "the call crashed: " + how);
        my().evals++;
        my().in_case = 0;
        me = save;
        parent_restarts++;
        if (parent_restarts > 400 || hung) { g->crash_cap_hit = 1; pid[k] = 0; alive--; continue; }  // enough evidence (many crashes, or one hang: every further one would cost the full limit): stop exploring, report
        spawn(k, !in_generator);  // finish the interrupted item (skipping what was already executed), then continue; an item whose generator crashed is abandoned
      } else {
        pid[k] = 0;
        alive--;
      }
    }
  }

  // ---- result / evidence ----
  struct Totals { uint64_t evals = 0, nontrivial = 0, violations = 0, distinct = 0; };

  int finish(const char* level, const std::string& rule, bool exhaustive_if_no_cap, Json coverage_extra = Json::obj()) {
    Totals t;
    std::vector<uint64_t> hs;
    std::vector<VRec> recs;
    std::vector<std::string> samples;
    for (int k = 0; k <= nw; ++k) {
      t.evals += w[k].evals; t.nontrivial += w[k].nontrivial; t.violations += w[k].violations;
      for (uint64_t j = 0; j < w[k].nhash; ++j) hs.push_back(hashes[(uint64_t)k * HCAP + j]);
      for (int j = 0; j < w[k].nvrec; ++j) recs.push_back(w[k].vrec[j]);
      for (int j = 0; j < w[k].nsamp && samples.size() < 8; ++j) samples.push_back(w[k].samp[j]);
    }
    std::sort(hs.begin(), hs.end());
    t.distinct = std::unique(hs.begin(), hs.end()) - hs.begin();
    // violations: dedupe by id, separate known findings
    std::sort(recs.begin(), recs.end(), [](const VRec& a, const VRec& b) { return strcmp(a.id, b.id) < 0; });
    std::set<std::string> seen;
    uint64_t real = 0, knownhits = 0;
    int printed = 0;
    mkdir((args.out_dir + "/replays").c_str(), 0755);
    for (auto& r : recs) {
      if (!seen.insert(r.id).second) continue;
      const Known* kf = 0;
      for (auto& k : known) if (k.prop == args.prop && strstr(r.id, k.key.c_str())) kf = &k;
      if (kf) {
        knownhits++;
        printf("KNOWN-FINDING: property=%s %s [case %s]\n", args.prop.c_str(), kf->text.c_str(), r.id);
        continue;
      }
      real++;
      if (printed < 12) {
        printed++;
        std::string path = sfmt("%s/replays/%s-%016llx.json", args.out_dir.c_str(), args.prop.c_str(),
                                (unsigned long long)fnv(r.id, strlen(r.id)));
        Json j = Json::obj();
        j.set("property", args.prop).set("case_id", std::string(r.id)).set("tier", args.tier)
         .set("seed_str", std::to_string(args.seed)).set("message", std::string(r.msg));
        FILE* f = fopen(path.c_str(), "w");
        if (f) { fputs(j.str().c_str(), f); fputs("\n", f); fclose(f); }
        printf("VIOLATION property=%s replay=%s\n", args.prop.c_str(), path.c_str());
        printf("  case: %s\n  what: %s\n", r.id, r.msg);
      }
    }
    // violations beyond the per-worker record capacity are still violations
    uint64_t unrecorded = t.violations > recs.size() ? t.violations - recs.size() : 0;
    if (unrecorded && real == 0 && knownhits == 0) real = unrecorded;
    bool capped = g->deadline_hit != 0 || g->crash_cap_hit != 0;
    double wall = now() - args.t0;
    if (!args.replaying()) {
      Json cov = Json::obj();
      cov.set("evaluations", t.evals).set("distinct_nontrivial", t.distinct).set("rule", rule);
      Json sm = Json::arr();
      for (auto& s : samples) sm.push(s);
      if (samples.empty()) sm.push("(none)");
      cov.set("samples", sm);
      cov.set("exhaustive", exhaustive_if_no_cap && !capped);
      if (g->crash_cap_hit) cov.set("cap_hit", "exploration stopped after a case that did not terminate or after 400 crashing cases (all reported as violations)");
      else if (capped) cov.set("cap_hit", sfmt("global deadline of %.0f s reached; %llu work items completed", args.deadline_s,
                                          (unsigned long long)g->items_done));
      Json met = Json::obj();
      for (int k = 0; k < NMET; ++k) {
        if (metric_names[k].empty()) continue;
        double mx = 0; uint64_t c = 0;
        for (int j = 0; j <= nw; ++j) { mx = std::max(mx, (double)w[j].maxv[k]); c += w[j].cnt[k]; }
        if (c) met.set(metric_names[k] + "_count", c);
        if (mx != 0) met.set(metric_names[k] + "_max", mx);
      }
      if (!met.o.empty()) cov.set("metrics", met);
      for (auto& kv : coverage_extra.o) cov.set(kv.first, kv.second);
      for (auto& kv : extra) cov.set(kv.first, kv.second);
      Json ev = Json::obj();
      ev.set("property_id", args.prop).set("tier", args.tier).set("seed", (long long)args.seed).set("level", level);
      ev.set("coverage", cov);
      Json as = Json::arr();
      for (auto& s : assumptions) as.push(s);
      ev.set("assumptions", as);
      ev.set("wall_s", wall).set("violations", (long long)real).set("known_findings_hit", (long long)knownhits);
      mkdir((args.out_dir + "/evidence").c_str(), 0755);
      std::string path = args.out_dir + "/evidence/" + args.prop + ".json";
      std::string tmp = path + ".tmp";
      FILE* f = fopen(tmp.c_str(), "w");
      if (!f) machinery_error("cannot write %s", tmp.c_str());
      fputs(ev.str().c_str(), f); fputs("\n", f); fclose(f);
      rename(tmp.c_str(), path.c_str());
    }
    printf("%s %s: evaluations=%llu distinct_nontrivial=%llu violations=%llu known=%llu exhaustive=%s wall=%.1fs\n",
           args.prop.c_str(), args.tier.c_str(), (unsigned long long)t.evals, (unsigned long long)t.distinct,
           (unsigned long long)real, (unsigned long long)knownhits, (exhaustive_if_no_cap && !capped) ? "true" : "false", wall);
    if (args.replaying() && t.evals == 0) machinery_error("replay: case id not found in the enumeration: %s", args.replay_id.c_str());
    fflush(stdout);
    return real ? 1 : 0;
  }
};

}  // namespace vf
