// apicase generators for the non element-wise module entry points: normalisation (3 forms),
// dft / idft / idft_tmp_a (FFT64 and NTT120), svp prepare/apply, small product, vmp prepare/apply.
#pragma once
#include "vecops.hpp"
#include "oracle.hpp"

namespace vf {

inline bool is_ntt(const MODULE* m, MODULE_TYPE t) { return t == NTT120; }
inline size_t dft_bytes(MODULE_TYPE t, uint64_t N, uint64_t size) { return (t == FFT64 ? 8 : 32) * N * size; }
inline size_t big_bytes(MODULE_TYPE t, uint64_t N, uint64_t size) { return (t == FFT64 ? 8 : 16) * N * size; }
inline const char* mtname(MODULE_TYPE t) { return t == FFT64 ? "fft64" : "ntt120"; }

// small deterministic integers, |v| <= bound, never all zero
inline int64_t small_val(uint64_t idx, int64_t bound) {
  uint64_t h = (idx + 1 + 7919 * gen_salt()) * 0x9E3779B97F4A7C15ull;
  h ^= h >> 29;
  int64_t v = (int64_t)(h % (uint64_t)(2 * bound + 1)) - bound;
  return v;
}

// ------------------------------------------------------------------------------------------------
// normalisation
struct NormShape {
  uint64_t N = 4, k = 10, rs = 1, rsl = 4, as = 1, asl = 4;
  int variant = 0;  // 0 small, 1 big, 2 big range
  uint64_t begin = 0, end = 0, step = 1;
  int alias = 0;    // 1: res == a
  int dataset = 0;  // 0: 62-bit probes, 1: digit-boundary values
};
inline std::string norm_id(const NormShape& s, const char* cfg) {
  static const char* vn[] = {"vec_znx_normalize_base2k", "vec_znx_big_normalize_base2k", "vec_znx_big_range_normalize_base2k"};
  return sfmt("%s|fft64|%s|N=%llu|k=%llu|rs=%llu,rsl=%llu|as=%llu,asl=%llu|range=%llu:%llu:%llu|alias=%d|data=%d", vn[s.variant], cfg,
              (unsigned long long)s.N, (unsigned long long)s.k, (unsigned long long)s.rs, (unsigned long long)s.rsl,
              (unsigned long long)s.as, (unsigned long long)s.asl, (unsigned long long)s.begin, (unsigned long long)s.end,
              (unsigned long long)s.step, s.alias, s.dataset);
}
inline int64_t norm_value(const NormShape& s, uint64_t e) {
  if (s.dataset == 0) return probe62(e);
  if (s.dataset == 2) {  // structured limbs: all zero / all multiples of 2^32 / probes, by limb index
    uint64_t limb = e / s.asl;
    if (limb % 3 == 0) return 0;
    if (limb % 3 == 1) return (probe62(e) >> 32) * (INT64_C(1) << 32);
    return probe62(e);
  }
  // digit-boundary values: +-2^(k-1), +-(2^(k-1)-1), +-2^k ...
  int64_t h = INT64_C(1) << (s.k - 1);
  int64_t tab[8] = {h, -h, h - 1, -h - 1, 2 * h - 1, -2 * h, h + 1, -(h - 1)};
  return tab[(e * 7 + e / 8) % 8];
}
// the function reads limbs begin, begin+step, ... (< end) of `a`; a_size_eff limbs in total
inline ApiCase gen_normalize(const MODULE* mod, NormShape s, const char* cfg) {
  const uint64_t N = s.N;
  if (s.variant >= 1) s.asl = N;
  uint64_t a_alloc_limbs = s.as, a_eff = s.as, a_first = 0, a_step = 1;
  if (s.variant == 2) {
    a_alloc_limbs = s.end;  // limbs [0,end) are part of the declared source
    a_eff = (s.end + s.step - 1 - s.begin) / s.step;
    a_first = s.begin; a_step = s.step;
    s.as = a_eff;
  } else { s.begin = 0; s.end = s.as; s.step = 1; }
  ApiCase c;
  c.id = norm_id(s, cfg);
  size_t re = limbvec_elems(N, s.rs, s.rsl), ae = limbvec_elems(N, a_alloc_limbs, s.asl);
  int ir = c.add("res", R_OUT, re * 8);
  int ia = c.add("a", R_IN, ae * 8);
  uint64_t tmpb = s.variant == 0 ? vec_znx_normalize_base2k_tmp_bytes(mod)
                : s.variant == 1 ? vec_znx_big_normalize_base2k_tmp_bytes(mod) : vec_znx_big_range_normalize_base2k_tmp_bytes(mod);
  int it = c.add("tmp", R_SCRATCH, tmpb);
  for (size_t e = 0; e < ae; ++e) put_i64(c.bufs[ia].init, e, (((s.rs + s.as) & 1) && e % s.asl >= N) ? 0 : norm_value(s, e));  // every other shape: zero stride padding
  if (s.alias) c.bufs[ia].alias_of = ir;
  Buf& R = c.bufs[ir];
  std::vector<i128> limbs(a_eff), dig;
  for (uint64_t j = 0; j < N; ++j) {
    for (uint64_t i = 0; i < a_eff; ++i) limbs[i] = get_i64(c.bufs[ia].init, (a_first + i * a_step) * s.asl + j);
    balanced_digits((unsigned)s.k, limbs, dig);
    for (uint64_t i = 0; i < s.rs; ++i) {
      int64_t v = i < a_eff ? (int64_t)dig[i] : 0;
      put_i64(R.exp, i * s.rsl + j, v);
      memset(&R.mask[(i * s.rsl + j) * 8], 1, 8);
    }
  }
  c.nontrivial = s.rs > 0 && a_eff > 0;
  c.call = [mod, s, ir, ia, it](uint8_t** p) {
    if (s.variant == 0) vec_znx_normalize_base2k(mod, s.k, (int64_t*)p[ir], s.rs, s.rsl, (const int64_t*)p[ia], s.as, s.asl, p[it]);
    else if (s.variant == 1) vec_znx_big_normalize_base2k(mod, s.k, (int64_t*)p[ir], s.rs, s.rsl, (const VEC_ZNX_BIG*)p[ia], s.as, p[it]);
    else vec_znx_big_range_normalize_base2k(mod, s.k, (int64_t*)p[ir], s.rs, s.rsl, (const VEC_ZNX_BIG*)p[ia], s.begin, s.end, s.step, p[it]);
  };
  return c;
}

// ------------------------------------------------------------------------------------------------
// DFT family.  Integer test polynomials: |x| <= 2^20 for FFT64 (exactness regime), 62-bit for NTT120.
inline int64_t dft_in_value(MODULE_TYPE t, uint64_t e) { return t == FFT64 ? small_val(e, 1 << 20) : probe62(e); }

struct DftShape { uint64_t N = 4, rs = 1, as = 1, asl = 4; int variant = 0; /* 0 dft, 1 idft, 2 idft_tmp_a */ int alias = 0;
                  int big = 0; /* inverse transforms, FFT64: coefficients of magnitude 2^50 (top of the big-coefficient range; not judged exactly) */ };
inline std::string dft_id(const DftShape& s, MODULE_TYPE t, const char* cfg) {
  static const char* vn[] = {"vec_znx_dft", "vec_znx_idft", "vec_znx_idft_tmp_a"};
  return sfmt("%s|%s|%s|N=%llu|rs=%llu|as=%llu,asl=%llu|alias=%d%s", vn[s.variant], mtname(t), cfg, (unsigned long long)s.N,
              (unsigned long long)s.rs, (unsigned long long)s.as, (unsigned long long)s.asl, s.alias, s.big ? "|magnitude 2^50" : "");
}
inline ApiCase gen_dft(const MODULE* mod, MODULE_TYPE t, DftShape s, const char* cfg) {
  const uint64_t N = s.N;
  ApiCase c;
  if (s.variant != 0) s.asl = N;
  c.id = dft_id(s, t, cfg);
  const uint64_t smin = std::min(s.rs, s.as);
  if (s.variant == 0) {
    int ir = c.add("res_dft", R_OUT, dft_bytes(t, N, s.rs));
    size_t ae = limbvec_elems(N, s.as, s.asl);
    int ia = c.add("a", R_IN, ae * 8);
    // limb 1 (when present, FFT64): every coefficient a non-zero multiple of 2^32 (a plaintext scaled by a power of two)
    for (size_t e = 0; e < ae; ++e) { int64_t v = dft_in_value(t, e); if (t == FFT64 && e / s.asl == 1 && e % s.asl < N) v = ((int64_t)(e % 7) + 1) * ((e & 1) ? -1 : 1) * (INT64_C(1) << 32);
      if (t == NTT120 && e / s.asl == 1 && e % s.asl < N) v = (v >> 32) * (INT64_C(1) << 32);
      // limb 2 (mod 4): zero except its LAST coefficient; limb 3 (mod 4): zero except its FIRST one (sparse rows: a "this row is zero" test must look at every coefficient)
      if (s.asl && e % s.asl >= N && ((s.rs + s.as) & 1)) v = 0;  // every other shape: zero stride padding
      if (s.asl && e % s.asl < N && (e / s.asl) % 4 == 2 && e % s.asl != N - 1) v = 0;
      if (s.asl && e % s.asl < N && (e / s.asl) % 4 == 3 && e % s.asl != 0) v = 0;
      put_i64(c.bufs[ia].init, e, v); }
    Buf& R = c.bufs[ir];
    size_t lb = dft_bytes(t, N, 1);
    for (uint64_t i = 0; i < s.rs; ++i) memset(&R.mask[i * lb], i < smin ? 2 : 1, lb);  // limbs >= smin: exactly zero
    // oracle for the opaque result: read back through the inverse transform (on a copy) it must return the input limbs exactly
    int ib = c.add("readback", R_OUT, big_bytes(t, N, s.rs));
    { Buf& B = c.bufs[ib]; size_t eb = t == FFT64 ? 8 : 16;
      for (uint64_t i = 0; i < s.rs; ++i) for (uint64_t j = 0; j < N; ++j) { i128 v = i < smin ? (i128)get_i64(c.bufs[ia].init, i * s.asl + j) : 0; memcpy(&B.exp[(i * N + j) * eb], &v, eb); memset(&B.mask[(i * N + j) * eb], 1, eb); } }
    c.nontrivial = smin > 0;
    c.call = [mod, s, t, N, ir, ia, ib](uint8_t** p) {
      vec_znx_dft(mod, (VEC_ZNX_DFT*)p[ir], s.rs, (const int64_t*)p[ia], s.as, s.asl);
      GBuf cp(dft_bytes(t, N, s.rs), 16);
      if (cp.bytes) memcpy(cp.p, p[ir], cp.bytes);
      vec_znx_idft_tmp_a(mod, (VEC_ZNX_BIG*)p[ib], s.rs, (VEC_ZNX_DFT*)cp.p, s.rs);
    };
    return c;
  }
  // inverse: the source is the real DFT of known polynomials
  int ir = c.add("res_big", R_OUT, big_bytes(t, N, s.rs));
  int ia = c.add("a_dft", s.variant == 2 ? R_INOUT : R_IN, dft_bytes(t, N, s.as));
  int it = -1;
  if (s.variant == 1) it = c.add("tmp", R_SCRATCH, vec_znx_idft_tmp_bytes(mod));
  std::vector<int64_t> pol(N * std::max<uint64_t>(s.as, 1));
  const bool bigv = s.big && t == FFT64;
  for (size_t e = 0; e < N * s.as; ++e) pol[e] = bigv ? dft_in_value(t, e + 17) * (INT64_C(1) << 29) : dft_in_value(t, e + 17);
  // every other shape (FFT64): limb 1 is the zero polynomial, held in DFT space as zeros of MIXED SIGN (what a product with a zero
  // operand looks like: 0 * x = -0.0 whenever x < 0) - a "this limb is zero" shortcut must still deliver integer zeros
  const bool signed_zero_limb = t == FFT64 && !bigv && s.as >= 2 && ((s.rs + s.as) & 1);
  if (signed_zero_limb) for (uint64_t j = 0; j < N; ++j) pol[N + j] = 0;
  if (s.as) vec_znx_dft(mod, (VEC_ZNX_DFT*)c.bufs[ia].init.data(), s.as, pol.data(), s.as, N);
  if (signed_zero_limb) { double* d = (double*)c.bufs[ia].init.data(); for (uint64_t j = 0; j < N; ++j) d[N + j] = (j % 3 == 1 || j == 0) ? -0.0 : 0.0; }
  if (bigv) { double* d = (double*)c.bufs[ia].init.data(); for (size_t e = 0; e < N * s.as; ++e) d[e] *= 3.0; }  // coefficients up to 1.5 * 2^50: many of them in [2^50, 2^51), above the narrow conversion kernel's range
  if (s.variant == 2) { Buf& A = c.bufs[ia]; memset(A.mask.data(), 2, A.bytes); /* documented: a_dft is overwritten */
    size_t lb = dft_bytes(t, N, 1); for (uint64_t i = smin; i < s.as; ++i) memset(&A.mask[i * lb], 2, lb); }
  if (s.alias) c.bufs[ia].alias_of = ir;
  Buf& R = c.bufs[ir];
  size_t eb = t == FFT64 ? 8 : 16;
  for (uint64_t i = 0; i < s.rs; ++i)
    for (uint64_t j = 0; j < N; ++j) {
      i128 v = i < smin ? (i128)pol[i * N + j] : 0;
      memcpy(&R.exp[(i * N + j) * eb], &v, eb);
      memset(&R.mask[(i * N + j) * eb], (bigv && i < smin) ? 2 : 1, eb);  // large magnitudes are beyond the exactness regime: written, not judged exactly
    }
  c.nontrivial = smin > 0;
  c.call = [mod, s, ir, ia, it](uint8_t** p) {
    if (s.variant == 1) vec_znx_idft(mod, (VEC_ZNX_BIG*)p[ir], s.rs, (const VEC_ZNX_DFT*)p[ia], s.as, p[it]);
    else vec_znx_idft_tmp_a(mod, (VEC_ZNX_BIG*)p[ir], s.rs, (VEC_ZNX_DFT*)p[ia], s.as);
  };
  return c;
}

// ------------------------------------------------------------------------------------------------
// svp (FFT64 only)
inline ApiCase gen_svp_prepare(const MODULE* mod, uint64_t N, const char* cfg) {
  ApiCase c;
  c.id = sfmt("svp_prepare|fft64|%s|N=%llu", cfg, (unsigned long long)N);
  int ir = c.add("ppol", R_OUT, bytes_of_svp_ppol(mod));
  int ia = c.add("pol", R_IN, N * 8);
  for (size_t e = 0; e < N; ++e) put_i64(c.bufs[ia].init, e, small_val(e + 5, 1 << 20));
  memset(c.bufs[ir].mask.data(), 2, c.bufs[ir].bytes);
  c.call = [mod, ir, ia](uint8_t** p) { svp_prepare(mod, (SVP_PPOL*)p[ir], (const int64_t*)p[ia]); };
  return c;
}
struct SvpShape { uint64_t N = 4, rs = 1, as = 1, asl = 4; };
inline ApiCase gen_svp_apply(const MODULE* mod, const SvpShape& s, const char* cfg) {
  const uint64_t N = s.N;
  ApiCase c;
  c.id = sfmt("svp_apply_dft|fft64|%s|N=%llu|rs=%llu|as=%llu,asl=%llu", cfg, (unsigned long long)N, (unsigned long long)s.rs,
              (unsigned long long)s.as, (unsigned long long)s.asl);
  int ir = c.add("res_dft", R_OUT, dft_bytes(FFT64, N, s.rs));
  int ip = c.add("ppol", R_IN, bytes_of_svp_ppol(mod));
  size_t ae = limbvec_elems(N, s.as, s.asl);
  int ia = c.add("a", R_IN, ae * 8);
  std::vector<int64_t> pol(N);
  for (size_t e = 0; e < N; ++e) pol[e] = small_val(e + 5, 1 << 10);
  svp_prepare(mod, (SVP_PPOL*)c.bufs[ip].init.data(), pol.data());
  for (size_t e = 0; e < ae; ++e) put_i64(c.bufs[ia].init, e, small_val(e + 99, 1 << 10));
  const uint64_t smin = std::min(s.rs, s.as);
  for (uint64_t i = 0; i < s.rs; ++i) memset(&c.bufs[ir].mask[i * N * 8], i < smin ? 2 : 1, N * 8);
  c.nontrivial = smin > 0;
  c.call = [mod, s, ir, ip, ia](uint8_t** p) {
    svp_apply_dft(mod, (const VEC_ZNX_DFT*)p[ir], s.rs, (const SVP_PPOL*)p[ip], (const int64_t*)p[ia], s.as, s.asl);
  };
  return c;
}

// small single product (FFT64): exact for small operands
inline ApiCase gen_small_product(const MODULE* mod, uint64_t N, const char* cfg, int alias = 0) {
  ApiCase c;
  c.id = sfmt("znx_small_single_product|fft64|%s|N=%llu|alias=%d", cfg, (unsigned long long)N, alias);
  int ir = c.add("res", R_OUT, N * 8);
  int ia = c.add("a", R_IN, N * 8);
  int ib = c.add("b", R_IN, N * 8);
  int it = c.add("tmp", R_SCRATCH, znx_small_single_product_tmp_bytes(mod));
  std::vector<int64_t> a(N), b(N);
  int64_t bound = 1 << 12;
  // alias 2: the square a*a with the SAME pointer passed for both sources
  for (size_t e = 0; e < N; ++e) { a[e] = small_val(e + 3, bound); b[e] = alias == 2 ? a[e] : small_val(e + 1000, bound); put_i64(c.bufs[ia].init, e, a[e]); put_i64(c.bufs[ib].init, e, b[e]); }
  if (alias == 2) c.bufs[ib].alias_of = ia;
  std::vector<i128> prod(N);
  negacyclic_mul_i64(N, prod.data(), a.data(), b.data());
  for (size_t e = 0; e < N; ++e) { put_i64(c.bufs[ir].exp, e, (int64_t)prod[e]); }
  memset(c.bufs[ir].mask.data(), 1, N * 8);
  c.call = [mod, ir, ia, ib, it](uint8_t** p) { znx_small_single_product(mod, (int64_t*)p[ir], (const int64_t*)p[ia], (const int64_t*)p[ib], p[it]); };
  return c;
}

// ------------------------------------------------------------------------------------------------
// vmp (FFT64 only)
struct VmpShape { uint64_t N = 4, nrows = 1, ncols = 1, as = 1, asl = 4, rs = 1; int variant = 0; /* 0 prepare, 1 apply_dft, 2 apply_dft_to_dft */ };
inline std::string vmp_id(const VmpShape& s, const char* cfg) {
  static const char* vn[] = {"vmp_prepare_contiguous", "vmp_apply_dft", "vmp_apply_dft_to_dft"};
  return sfmt("%s|fft64|%s|N=%llu|nrows=%llu|ncols=%llu|as=%llu,asl=%llu|rs=%llu", vn[s.variant], cfg, (unsigned long long)s.N,
              (unsigned long long)s.nrows, (unsigned long long)s.ncols, (unsigned long long)s.as, (unsigned long long)s.asl, (unsigned long long)s.rs);
}
inline int64_t vmp_mat_value(uint64_t e) { return small_val(e + 7, 1 << 8); }
inline int64_t vmp_vec_value(uint64_t e) { return small_val(e + 70001, 1 << 8); }
inline ApiCase gen_vmp(const MODULE* mod, VmpShape s, const char* cfg) {
  const uint64_t N = s.N;
  ApiCase c;
  if (s.variant == 2) s.asl = N;
  c.id = vmp_id(s, cfg);
  size_t pmb = bytes_of_vmp_pmat(mod, s.nrows, s.ncols);
  std::vector<int64_t> mat(s.nrows * s.ncols * N);
  for (size_t e = 0; e < mat.size(); ++e) mat[e] = vmp_mat_value(e);
  if (s.variant == 0) {
    int ir = c.add("pmat", R_OUT, pmb);
    int ia = c.add("mat", R_IN, mat.size() * 8);
    int it = c.add("tmp", R_SCRATCH, vmp_prepare_contiguous_tmp_bytes(mod, s.nrows, s.ncols));
    memcpy(c.bufs[ia].init.data(), mat.data(), mat.size() * 8);
    memset(c.bufs[ir].mask.data(), 2, pmb);
    c.call = [mod, s, ir, ia, it](uint8_t** p) { vmp_prepare_contiguous(mod, (VMP_PMAT*)p[ir], (const int64_t*)p[ia], s.nrows, s.ncols, p[it]); };
    return c;
  }
  int ir = c.add("res_dft", R_OUT, dft_bytes(FFT64, N, s.rs));
  int ip = c.add("pmat", R_IN, pmb);
  {
    std::vector<uint8_t> tmp(vmp_prepare_contiguous_tmp_bytes(mod, s.nrows, s.ncols) + 64);
    vmp_prepare_contiguous(mod, (VMP_PMAT*)c.bufs[ip].init.data(), mat.data(), s.nrows, s.ncols, tmp.data());
  }
  const uint64_t col_max = std::min(s.ncols, s.rs);
  int ia, it;
  if (s.variant == 1) {
    size_t ae = limbvec_elems(N, s.as, s.asl);
    ia = c.add("a", R_IN, ae * 8);
    for (size_t e = 0; e < ae; ++e) put_i64(c.bufs[ia].init, e, vmp_vec_value(e));
    it = c.add("tmp", R_SCRATCH, vmp_apply_dft_tmp_bytes(mod, s.rs, s.as, s.nrows, s.ncols));
  } else {
    ia = c.add("a_dft", R_IN, dft_bytes(FFT64, N, s.as));
    std::vector<int64_t> pol(N * std::max<uint64_t>(s.as, 1));
    for (size_t e = 0; e < N * s.as; ++e) pol[e] = vmp_vec_value(e);
    if (s.as) vec_znx_dft(mod, (VEC_ZNX_DFT*)c.bufs[ia].init.data(), s.as, pol.data(), s.as, N);
    it = c.add("tmp", R_SCRATCH, vmp_apply_dft_to_dft_tmp_bytes(mod, s.rs, s.as, s.nrows, s.ncols));
  }
  for (uint64_t i = 0; i < s.rs; ++i) memset(&c.bufs[ir].mask[i * N * 8], i < col_max ? 2 : 1, N * 8);  // columns >= ncols: exactly zero
  c.nontrivial = col_max > 0;
  c.call = [mod, s, ir, ip, ia, it](uint8_t** p) {
    if (s.variant == 1) vmp_apply_dft(mod, (VEC_ZNX_DFT*)p[ir], s.rs, (const int64_t*)p[ia], s.as, s.asl, (const VMP_PMAT*)p[ip], s.nrows, s.ncols, p[it]);
    else vmp_apply_dft_to_dft(mod, (VEC_ZNX_DFT*)p[ir], s.rs, (const VEC_ZNX_DFT*)p[ia], s.as, (const VMP_PMAT*)p[ip], s.nrows, s.ncols, p[it]);
  };
  return c;
}

}  // namespace vf
