// Giant objects: DFT / big vectors whose byte size exceeds 4 GiB (limb offsets inside ONE object beyond 32-bit byte arithmetic).
// A limb count is a caller-chosen uint64_t, so 2049 limbs of an NTT120 DFT vector at N = 65536 (4 GiB + 2 MiB) or 8193 limbs of an
// FFT64 one are legal arguments; every limb below min(res_size, a_size) is really processed, so the objects are really that large
// (thorough tier only: about 6 - 9 GiB resident and 10 - 30 s per case).  Oracle: dft followed by the inverse returns the input
// exactly on the probed limbs (first, middle, the two around the 4 GiB mark, last) and exact zero on the others.
#pragma once
#include <sys/mman.h>
#include "apiops.hpp"
#include "oracle.hpp"

namespace vf {

struct BigMap {
  uint8_t* p = 0; size_t len = 0;
  explicit BigMap(size_t bytes) { len = (bytes + 4095) / 4096 * 4096 + 4096; void* q = mmap(0, len, PROT_READ | PROT_WRITE, MAP_PRIVATE | MAP_ANONYMOUS | MAP_NORESERVE, -1, 0);
    if (q == MAP_FAILED) machinery_error("mmap of %zu bytes failed", len); p = (uint8_t*)q; }
  ~BigMap() { if (p) munmap(p, len); }
  BigMap(const BigMap&) = delete; BigMap& operator=(const BigMap&) = delete;
};

// the giant cases need real memory: they run only when the machine has it to spare (an OOM kill would look like a crash of the library)
inline bool giant_memory_ok(double need_gib = 20) {
  FILE* f = fopen("/proc/meminfo", "r"); if (!f) return false;
  char line[256]; double avail_kb = 0;
  while (fgets(line, sizeof line, f)) if (!strncmp(line, "MemAvailable:", 13)) avail_kb = atof(line + 13);
  fclose(f);
  return avail_kb / (1024.0 * 1024.0) >= need_gib;
}

// t: module type; variant 0: vec_znx_idft (non-destructive), 1: vec_znx_idft_tmp_a
inline void giant_dft_roundtrip(Ctx& ctx, MODULE_TYPE t, int variant) {
  const uint64_t N = 65536;
  const size_t dft_limb = t == FFT64 ? N * 8 : N * 32, big_limb = t == FFT64 ? N * 8 : N * 16;
  const uint64_t L = (UINT64_C(1) << 32) / dft_limb + 1;   // the last limb starts at byte offset 2^32
  std::string id = sfmt("giant|%s|vec_znx_dft + %s|N=65536|limbs=%llu (DFT vector of %.2f GiB)", t == FFT64 ? "fft64" : "ntt120", variant ? "vec_znx_idft_tmp_a" : "vec_znx_idft",
                        (unsigned long long)L, (double)(L * dft_limb) / (double)(1ull << 30));
  if (!ctx.want(id)) return;
  ctx.begin_case(id);
  MODULE* mod = get_module(N, t, CFG_NATIVE);
  BigMap a(L * N * 8), dft(L * dft_limb), big(L * big_limb), tmp(vec_znx_idft_tmp_bytes(mod) + 64);
  std::vector<uint64_t> probes = {0, L / 2, L - 3, L - 2, L - 1};
  int64_t* A = (int64_t*)a.p;
  for (uint64_t pl : probes) for (uint64_t j = 0; j < N; ++j) {
    int64_t v = t == FFT64 ? small_val(pl * N + j, 1 << 20) : probe62(pl * 7 + j);
    if (t == NTT120 && j == 0) v = INT64_MIN; if (t == NTT120 && j == 1) v = INT64_MAX;
    A[pl * N + j] = v;
  }
  vec_znx_dft(mod, (VEC_ZNX_DFT*)dft.p, L, A, L, N);
  if (variant == 0) vec_znx_idft(mod, (VEC_ZNX_BIG*)big.p, L, (const VEC_ZNX_DFT*)dft.p, L, tmp.p);
  else vec_znx_idft_tmp_a(mod, (VEC_ZNX_BIG*)big.p, L, (VEC_ZNX_DFT*)dft.p, L);
  std::string err;
  auto coef = [&](uint64_t i, uint64_t j) -> i128 { if (t == FFT64) return (i128)((int64_t*)big.p)[i * N + j]; i128 v; memcpy(&v, big.p + (i * N + j) * 16, 16); return v; };
  for (uint64_t i = 0; i < L && err.empty(); ++i) {
    const bool probed = std::find(probes.begin(), probes.end(), i) != probes.end();
    // unprobed limbs are zero polynomials: every 64th of them is read completely, the others on three coefficients
    const uint64_t stepj = (probed || i % 64 == 1) ? 1 : N / 3;
    for (uint64_t j = 0; j < N; j += stepj) {
      i128 want = probed ? (i128)A[i * N + j] : 0;
      if (coef(i, j) != want) { err = sfmt("limb %llu coefficient %llu comes back as %s, the input was %s", (unsigned long long)i, (unsigned long long)j, i128_str(coef(i, j)).c_str(), i128_str(want).c_str()); break; }
    }
  }
  if (!err.empty()) ctx.violation(id, err);
  ctx.end_case(true);
}

}  // namespace vf
