// binary128 oracles for the floating-point kernels (shared by C17 and C07).
#pragma once
#include <quadmath.h>
#include "bufs.hpp"
#include "oracle.hpp"
extern "C" {
#include "cplx/cplx_fft_internal.h"
#include "cplx/cplx_fft_private.h"
#include "reim/reim_fft_internal.h"
#include "reim/reim_fft_private.h"
#include "reim4/reim4_arithmetic.h"
#include "reim4/reim4_fftvec_internal.h"
#include "reim4/reim4_fftvec_private.h"
}
namespace vf {
#ifndef VF_Q128_DEFINED
#define VF_Q128_DEFINED
typedef __float128 q128;
#endif
static const q128 U53 = 0x1p-53Q;
inline q128 gamma_k(int k) { return k * U53 / (1 - k * U53); }

inline double val(uint64_t idx, int range) {
  static const double special[] = {0.0, -0.0, 1.0, -1.0, 0x1p300, -0x1p300, 0x1p-300, 3.5, 0x1p-520, -0x1.8p-515, 0x1p-1021, -0x1.4p-1000,
                                   0x1.8p-1061, -0x1p-1074, 0x1p500, -0x1.4p-1040};  // subnormal operands (times 2^500 they are ordinary numbers again)
  uint64_t h = (idx + 1) * 0x9E3779B97F4A7C15ull; h ^= h >> 31;
  if (range == 1 && idx % 9 == 0) return special[(h >> 8) % 16];
  return ((double)(int64_t)(h >> 20) - 8796093022208.0) / 4194304.0;
}

// structured rows of a reim4 vector (8 doubles per row): purely real, purely imaginary, one small integer in every slot, powers of
// two, zero real parts with SOME zero imaginary parts, all (signed) zero, dense - a value-keyed shortcut must be right on them
inline void structured_rows(double* u, uint64_t nrows) {
  for (uint64_t r = 0; r < nrows; ++r) {
    double* w = u + 8 * r;
    switch ((r + nrows) % 7) {
      case 0: for (int k = 0; k < 4; ++k) w[4 + k] = 0.0; break;
      case 1: for (int k = 0; k < 4; ++k) w[k] = 0.0; break;
      case 2: for (int k = 0; k < 4; ++k) { w[k] = 2.0; w[4 + k] = 1.0; } break;
      case 3: for (int k = 0; k < 4; ++k) { w[k] = ldexp(1.0, 3 * k - 4); w[4 + k] = -ldexp(1.0, 7 - 5 * k); } break;
      case 4: { const double im[4] = {0.0, 1.25, -2.5, 3.0}; for (int k = 0; k < 4; ++k) { w[k] = 0.0; w[4 + k] = im[k]; } break; }
      case 5: for (int k = 0; k < 8; ++k) w[k] = (k & 1) ? -0.0 : 0.0; break;
      default: break;
    }
  }
}

// ---- reim4 dot products and convolutions -----------------------------------------------------------
inline void r4_addmul_q(q128* acc, q128* accabs, const double* u, const double* v) {
  for (int k = 0; k < 4; ++k) {
    q128 a = u[k], b = u[k + 4], c = v[k], d = v[k + 4];
    acc[k] += a * c - b * d; acc[k + 4] += a * d + b * c;
    accabs[k] += fabsq(a * c) + fabsq(b * d); accabs[k + 4] += fabsq(a * d) + fabsq(b * c);
  }
}
inline bool within(const double* got, const q128* exact, const q128* absum, int n, int kops, std::string& err, const char* what) {
  for (int i = 0; i < n; ++i) {
    q128 tol = gamma_k(kops) * absum[i] + (q128)kops * 0x1p-1074Q;  // + one subnormal rounding per operation (gradual underflow)
    q128 e = fabsq((q128)got[i] - exact[i]);
    if (!(e <= tol)) { err = sfmt("%s: component %d is %.17g, exact %.17g, error %.3g exceeds the a-priori bound %.3g", what, i, got[i], (double)exact[i], (double)e, (double)tol); return false; }
  }
  return true;
}
// ---- pointwise mul / addmul -----------------------------------------------------------------------
#ifndef VF_PCM_DEFINED
#define VF_PCM_DEFINED
struct PCm { void* f; int64_t m; };
#endif
typedef void (*pw_f)(const void*, void*, const void*, const void*);
struct PW { const char* name; pw_f f; uint64_t minm; bool addmul; int layout; };  // layout 0 reim, 1 reim4, 2 cplx
inline void idx_of(int layout, uint64_t m, uint64_t i, uint64_t& re, uint64_t& im) {
  if (layout == 0) { re = i; im = i + m; }
  else if (layout == 1) { re = 8 * (i / 4) + (i % 4); im = re + 4; }
  else { re = 2 * i; im = 2 * i + 1; }
}

// the 14 pointwise kernels with their minimum size (unroll width) and layout
inline std::vector<PW> pointwise_kernels() {
  static const PW pw[] = {
      {"reim_fftvec_mul_ref", (pw_f)reim_fftvec_mul_ref, 1, false, 0}, {"reim_fftvec_mul_fma", (pw_f)reim_fftvec_mul_fma, 4, false, 0},
      {"reim_fftvec_addmul_ref", (pw_f)reim_fftvec_addmul_ref, 1, true, 0}, {"reim_fftvec_addmul_fma", (pw_f)reim_fftvec_addmul_fma, 4, true, 0},
      {"reim4_fftvec_mul_ref", (pw_f)reim4_fftvec_mul_ref, 4, false, 1}, {"reim4_fftvec_mul_fma", (pw_f)reim4_fftvec_mul_fma, 4, false, 1},
      {"reim4_fftvec_addmul_ref", (pw_f)reim4_fftvec_addmul_ref, 4, true, 1}, {"reim4_fftvec_addmul_fma", (pw_f)reim4_fftvec_addmul_fma, 4, true, 1},
      {"cplx_fftvec_mul_ref", (pw_f)cplx_fftvec_mul_ref, 1, false, 2}, {"cplx_fftvec_mul_fma", (pw_f)cplx_fftvec_mul_fma, 8, false, 2},
      {"cplx_fftvec_addmul_ref", (pw_f)cplx_fftvec_addmul_ref, 1, true, 2}, {"cplx_fftvec_addmul_fma", (pw_f)cplx_fftvec_addmul_fma, 4, true, 2},
      {"cplx_fftvec_addmul_sse", (pw_f)cplx_fftvec_addmul_sse, 2, true, 2}, {"cplx_fftvec_addmul_avx512", (pw_f)cplx_fftvec_addmul_avx512, 8, true, 2},
  };
  return std::vector<PW>(pw, pw + sizeof(pw) / sizeof(pw[0]));
}

// structured extreme operand combinations for the pointwise kernels (complex index i, class i % 6): a subnormal factor times 2^500
// (an ordinary product), two small factors whose product is subnormal, a subnormal accumulator with a zero product, a subnormal
// times one; every sixth slot keeps its dense value.  Gradual underflow must be honoured everywhere.
inline void extreme_triples(int layout, uint64_t m, double* r, double* a, double* b) {
  const double s = 0x1.8p-1061;
  for (uint64_t i = 0; i < m; ++i) {
    uint64_t re, im; idx_of(layout, m, i, re, im);
    switch (i % 6) {
      case 0: a[re] = s; a[im] = 0.0; b[re] = 0x1p500; b[im] = 0.0; r[re] = 0.0; r[im] = 0.0; break;
      case 1: a[re] = 0x1p500; a[im] = 0.0; b[re] = 0.0; b[im] = s; r[re] = -0.0; r[im] = 0x1p-70; break;
      case 2: a[re] = 0x1p-600; a[im] = 0x1p-600; b[re] = 0x1p-480; b[im] = 0.0; r[re] = 0.0; r[im] = 0.0; break;
      case 3: a[re] = 0.0; a[im] = 0.0; b[re] = 1.0; b[im] = 1.0; r[re] = s; r[im] = -s; break;
      case 4: a[re] = s; a[im] = s; b[re] = 1.0; b[im] = 0.0; r[re] = 0.0; r[im] = 0.0; break;
      default: break;
    }
  }
}

// judges r (after the call) against the exact complex product; r0 = content of r before the call
inline std::string judge_pointwise(const PW& k, uint64_t m, const double* r, const double* r0, const double* a, const double* b) {
  for (uint64_t i = 0; i < m; ++i) {
    uint64_t re, im; idx_of(k.layout, m, i, re, im);
    q128 ar = a[re], ai = a[im], br = b[re], bi = b[im];
    q128 er = ar * br - ai * bi, ei = ar * bi + ai * br;
    q128 sr = fabsq(ar * br) + fabsq(ai * bi), si = fabsq(ar * bi) + fabsq(ai * br);
    if (k.addmul) { er += r0[re]; ei += r0[im]; sr += fabsq((q128)r0[re]); si += fabsq((q128)r0[im]); }
    q128 tolr = gamma_k(4) * sr + 6 * 0x1p-1074Q, toli = gamma_k(4) * si + 6 * 0x1p-1074Q;  // + subnormal roundings (gradual underflow must be honoured)
    q128 dr = fabsq((q128)r[re] - er), di = fabsq((q128)r[im] - ei);
    if (!(dr <= tolr) || !(di <= toli)) return sfmt("complex number %llu: got (%.17g, %.17g), exact (%.17g, %.17g)", (unsigned long long)i, r[re], r[im], (double)er, (double)ei);
  }
  return "";
}
}  // namespace vf
