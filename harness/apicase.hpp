// apicase: one description per API call (buffers with role and declared extent, expected image)
// and a generic executor.  Different properties are different oracles over the same cases.
#pragma once
#include <setjmp.h>
#include <signal.h>
#include "bufs.hpp"

namespace vf {

enum Role { R_IN, R_OUT, R_INOUT, R_SCRATCH };

struct Buf {
  std::string name;
  Role role = R_IN;
  size_t bytes = 0;
  std::vector<uint8_t> init;  // IN / INOUT: initial content
  std::vector<uint8_t> exp;   // OUT / INOUT: expected content where mask == 1
  std::vector<uint8_t> mask;  // OUT / INOUT: 0 = must stay as before the call, 1 = must equal exp,
                              //              2 = written, value not judged by the byte-exact model
  int alias_of = -1;          // shares storage (same pointer) with that buffer
};

struct ApiCase {
  std::string id;
  std::vector<Buf> bufs;
  std::function<void(uint8_t**)> call;  // p[i] = pointer of bufs[i]
  bool nontrivial = true;
  int add(const std::string& name, Role r, size_t bytes) {
    Buf b; b.name = name; b.role = r; b.bytes = bytes;
    if (r == R_IN || r == R_INOUT) b.init.assign(bytes, 0);
    if (r == R_OUT || r == R_INOUT) { b.exp.assign(bytes, 0); b.mask.assign(bytes, 0); }
    bufs.push_back(b);
    return (int)bufs.size() - 1;
  }
};

struct ExecOpts {
  int prefill = 0;          // pattern for OUT and SCRATCH storage (0x00 / 0xFF / sNaN-like)
  size_t off[12] = {0};     // byte offset of each storage group's start from a 64-byte boundary
  int adjacent = 0;  // 1 / 2: all storage groups packed back to back in ONE block, in ascending / descending buffer order (disjoint but touching operands)
  bool protect_inputs = false;  // read-only operands that share no storage with an output live in their own read-only mapping during the call
};

struct ExecResult {
  std::vector<std::vector<uint8_t>> before, after;  // per buffer
  bool guards_ok = true;
  int input_write_fault = -1;  // index of the read-only operand the call tried to write into (protect_inputs), else -1
  unsigned csr_before = 0, csr_after = 0;  // MXCSR control bits (rounding mode, flush-to-zero, denormals-are-zero, masks)
};

inline int root_of(const ApiCase& c, int i) { while (c.bufs[i].alias_of >= 0) i = c.bufs[i].alias_of; return i; }

// write trap for protect_inputs: a SIGSEGV inside the protected call returns to execute()
struct InputTrap { sigjmp_buf jb; volatile int armed = 0; volatile uintptr_t addr = 0; bool installed = false;
                   uintptr_t lo[12], hi[12]; volatile int nreg = 0; struct sigaction old; };
inline InputTrap& input_trap() { static InputTrap t; return t; }
inline void input_trap_handler(int sig, siginfo_t* si, void* uc) {
  InputTrap& t = input_trap();
  uintptr_t a = (uintptr_t)si->si_addr;
  if (t.armed) for (int i = 0; i < t.nreg; ++i) if (a >= t.lo[i] && a < t.hi[i]) { t.armed = 0; t.addr = a; siglongjmp(t.jb, 1); }
  // not one of the protected operands: whoever handled SIGSEGV before (Engine B's write trap, the sanitizer, or nobody) decides
  if ((t.old.sa_flags & SA_SIGINFO) && t.old.sa_sigaction) { t.old.sa_sigaction(sig, si, uc); return; }
  if (!(t.old.sa_flags & SA_SIGINFO) && t.old.sa_handler != SIG_DFL && t.old.sa_handler != SIG_IGN && t.old.sa_handler) { t.old.sa_handler(sig); return; }
  signal(sig, SIG_DFL); raise(sig);
}
inline void input_trap_install() {
  InputTrap& t = input_trap();
  if (t.installed) return;
  struct sigaction sa; memset(&sa, 0, sizeof sa); sa.sa_sigaction = input_trap_handler; sa.sa_flags = SA_SIGINFO | SA_NODEFER; sigemptyset(&sa.sa_mask);
  sigaction(SIGSEGV, &sa, &t.old);
  t.installed = true;
}

inline void execute(const ApiCase& c, const ExecOpts& o, ExecResult& r) {
  const int nb = (int)c.bufs.size();
  std::vector<size_t> gbytes(nb, 0);
  std::vector<GBuf> store(nb);
  for (int i = 0; i < nb; ++i) { int g = root_of(c, i); gbytes[g] = std::max(gbytes[g], c.bufs[i].bytes); }
  // a storage group is read-only when every buffer in it is a pure input
  std::vector<char> ro(nb, 0);
  if (o.protect_inputs && !o.adjacent) for (int i = 0; i < nb; ++i) if (root_of(c, i) == i && c.bufs[i].bytes) { bool all_in = true; for (int j = 0; j < nb; ++j) if (root_of(c, j) == i && c.bufs[j].role != R_IN) all_in = false; ro[i] = all_in; }
  // base address of every storage group
  std::vector<uint8_t*> basep(nb, (uint8_t*)0);
  GBuf arena;
  if (o.adjacent) {
    size_t tot = 0; for (int i = 0; i < nb; ++i) if (root_of(c, i) == i) tot += (gbytes[i] + 7) / 8 * 8;
    arena.init(tot, o.off[0]);
    prefill(arena.p, tot, o.prefill);
    size_t pos = 0;
    for (int k = 0; k < nb; ++k) { int i = o.adjacent == 1 ? k : nb - 1 - k; if (root_of(c, i) != i) continue; basep[i] = arena.p + pos; pos += (gbytes[i] + 7) / 8 * 8; }
  } else for (int i = 0; i < nb; ++i) {
    if (root_of(c, i) != i) continue;
    if (ro[i]) store[i].init_pages(gbytes[i], i < 12 ? o.off[i] : 0); else store[i].init(gbytes[i], i < 12 ? o.off[i] : 0);
    prefill(store[i].p, gbytes[i], o.prefill);
    basep[i] = store[i].p;
  }
  // inputs are written after the prefill, roots first
  for (int pass = 0; pass < 2; ++pass)
    for (int i = 0; i < nb; ++i) {
      const Buf& b = c.bufs[i];
      bool isroot = root_of(c, i) == i;
      if ((pass == 0) != isroot) continue;
      if ((b.role == R_IN || b.role == R_INOUT) && b.bytes) memcpy(basep[root_of(c, i)], b.init.data(), b.bytes);
    }
  std::vector<uint8_t*> ptr(nb);
  r.before.assign(nb, {});
  r.after.assign(nb, {});
  for (int i = 0; i < nb; ++i) {
    ptr[i] = basep[root_of(c, i)];
    r.before[i].assign(ptr[i], ptr[i] + c.bufs[i].bytes);
  }
  r.input_write_fault = -1;
  r.csr_before = __builtin_ia32_stmxcsr() & 0xFFC0u;
  if (o.protect_inputs && !o.adjacent) {
    input_trap_install();
    for (int i = 0; i < nb; ++i) if (ro[i]) store[i].protect(true);
    InputTrap& t = input_trap();
    t.nreg = 0;
    for (int i = 0; i < nb && t.nreg < 12; ++i) if (ro[i]) { t.lo[t.nreg] = (uintptr_t)store[i].base; t.hi[t.nreg] = (uintptr_t)store[i].base + store[i].map_len - 4096; t.nreg = t.nreg + 1; }
    if (sigsetjmp(t.jb, 1) == 0) { t.armed = 1; c.call(ptr.data()); t.armed = 0; }
    else { for (int i = 0; i < nb; ++i) if (ro[i] && store[i].contains((const void*)t.addr)) r.input_write_fault = i; }
    t.nreg = 0;
    for (int i = 0; i < nb; ++i) if (ro[i]) store[i].protect(false);
  } else c.call(ptr.data());
  r.csr_after = __builtin_ia32_stmxcsr() & 0xFFC0u;
  r.guards_ok = true;
  for (int i = 0; i < nb; ++i) {
    r.after[i].assign(ptr[i], ptr[i] + c.bufs[i].bytes);
    if (!o.adjacent && root_of(c, i) == i && !store[i].guards_ok()) r.guards_ok = false;
  }
  if (o.adjacent && !arena.guards_ok()) r.guards_ok = false;
}

inline std::string hexbytes(const uint8_t* p, size_t n) {
  std::string s;
  for (size_t i = 0; i < n; ++i) s += sfmt("%02x", p[i]);
  return s;
}

// Byte-exact model judgement: OUT/INOUT buffers against exp/mask, IN buffers unchanged (unless they
// share storage with an output, where only the part outside every aliased output must be unchanged).
// Returns "" or a description of the first discrepancy.
inline std::string judge_model(const ApiCase& c, const ExecResult& r, bool check_outputs = true, bool check_inputs = true) {
  const int nb = (int)c.bufs.size();
  if (r.input_write_fault >= 0) return sfmt("the call writes into its read-only operand '%s' (the operand was mapped read-only for the duration of the call)", c.bufs[r.input_write_fault].name.c_str());
  if (!r.guards_ok) return "a guard zone outside a declared extent was overwritten";
  for (int i = 0; i < nb; ++i) {
    const Buf& b = c.bufs[i];
    if ((b.role == R_OUT || b.role == R_INOUT) && check_outputs) {
      for (size_t k = 0; k < b.bytes; ++k) {
        uint8_t got = r.after[i][k];
        if (b.mask[k] == 1 && got != b.exp[k]) {
          size_t e = k / 8 * 8;
          size_t n = std::min<size_t>(8, b.bytes - e);
          return sfmt("output '%s' byte %zu (element %zu): got %s expected %s", b.name.c_str(), k, k / 8,
                      hexbytes(&r.after[i][e], n).c_str(), hexbytes(&b.exp[e], n).c_str());
        }
        if (b.mask[k] == 0 && got != r.before[i][k]) {
          size_t e = k / 8 * 8;
          size_t n = std::min<size_t>(8, b.bytes - e);
          return sfmt("output '%s' byte %zu (element %zu) lies outside the written extent but changed: %s -> %s",
                      b.name.c_str(), k, k / 8, hexbytes(&r.before[i][e], n).c_str(), hexbytes(&r.after[i][e], n).c_str());
        }
      }
    }
    if (b.role == R_IN && check_inputs) {
      // extent covered by an aliased output may legitimately change
      size_t covered = 0;
      int g = root_of(c, i);
      for (int j = 0; j < nb; ++j)
        if (j != i && root_of(c, j) == g && (c.bufs[j].role == R_OUT || c.bufs[j].role == R_INOUT))
          covered = std::max(covered, c.bufs[j].bytes);
      for (size_t k = covered; k < b.bytes; ++k)
        if (r.after[i][k] != b.init[k])
          return sfmt("read-only input '%s' byte %zu (element %zu) was modified: %02x -> %02x", b.name.c_str(), k, k / 8,
                      b.init[k], r.after[i][k]);
    }
  }
  return "";
}

// compares the OUT / INOUT images of two executions of (variants of) the same case
inline std::string diff_outputs(const ApiCase& c, const ExecResult& x, const ExecResult& y, const char* what,
                                bool only_written = false) {
  for (size_t i = 0; i < c.bufs.size(); ++i) {
    const Buf& b = c.bufs[i];
    if (b.role != R_OUT && b.role != R_INOUT) continue;
    for (size_t k = 0; k < b.bytes; ++k) {
      if (only_written && b.mask[k] == 0) continue;
      if (x.after[i][k] != y.after[i][k]) {
        size_t e = k / 8 * 8;
        size_t n = std::min<size_t>(8, b.bytes - e);
        return sfmt("output '%s' element %zu differs %s: %s vs %s", b.name.c_str(), k / 8, what,
                    hexbytes(&x.after[i][e], n).c_str(), hexbytes(&y.after[i][e], n).c_str());
      }
    }
  }
  return "";
}

// ---- probe values ----------------------------------------------------------------------------
// injective in idx (idx < 2^60), |v| <= 2^62-1, extremes included at idx 0 and 1
// data salt of the case generators (0 by default; Engine C uses a second salt so that two threads running the same
// entry point work on different data)
inline uint64_t& gen_salt() { static uint64_t s = 0; return s; }
inline int64_t probe62(uint64_t idx) {
  if (gen_salt()) idx = idx * 3 + 1000003 * gen_salt() + 2;
  if (idx == 0) return (INT64_C(1) << 62) - 1;
  if (idx == 1) return -((INT64_C(1) << 62) - 1);
  uint64_t v = (idx * 0x9E3779B97F4A7C15ull) & ((UINT64_C(1) << 61) - 1);
  return (idx & 1) ? -(int64_t)v - 1 : (int64_t)v;
}

inline void put_i64(std::vector<uint8_t>& v, size_t elem, int64_t x) { memcpy(&v[elem * 8], &x, 8); }
inline int64_t get_i64(const std::vector<uint8_t>& v, size_t elem) { int64_t x; memcpy(&x, &v[elem * 8], 8); return x; }

}  // namespace vf
