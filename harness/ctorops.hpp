// Constructor ops: create an object, use it once, delete it; the returned hash covers everything the use produced.
// narrow list: Engine B / Engine C alphabets (C12, C15).  wide list: the constructor-environment enumeration of C11 / C15
// (every constructor x every size x every content of freshly allocated heap memory).
#pragma once
#include <functional>
#include <string>
#include <vector>
#include <sys/mman.h>
#include <sys/wait.h>
#include <unistd.h>
#include "apiops.hpp"
extern "C" {
#include "reim/reim_fft_private.h"
#include "cplx/cplx_fft_private.h"
#include "q120/q120_ntt.h"
#include "q120/q120_arithmetic.h"
#include "reim4/reim4_fftvec_public.h"
}

namespace vf {

struct CtorOp { std::string name; std::function<uint64_t()> run; };

inline uint64_t ct_hash(const GBuf& b, uint64_t h = 0xcbf29ce484222325ull) { return fnv(b.p, b.bytes, h); }
inline void ct_fill_d(GBuf& b, uint64_t salt) { for (size_t i = 0; i < b.bytes / 8; ++i) { uint64_t h = (i + salt + 1) * 0x9E3779B97F4A7C15ull; b.as<double>()[i] = ((double)(int64_t)(h >> 40) - 8388608.0) / 64.0; } }

inline std::vector<CtorOp> ctor_ops(bool wide) {
  std::vector<CtorOp> ops;
  auto add = [&](const std::string& nm, std::function<uint64_t()> f) { ops.push_back({nm, f}); };
  std::vector<uint64_t> modN = wide ? std::vector<uint64_t>{2, 4, 8, 16, 32, 64, 128, 256, 512, 1024, 2048, 4096, 16384} : std::vector<uint64_t>{8, 16, 32, 64, 2048};  // 8 / 16 / 32: half, equal and double the dimension of a module that is alive in the hidden-state explorations (object lifetimes must be independent)
  for (uint64_t N : modN) for (int t = 0; t < 2; ++t) {
    add(sfmt("new_module_info(%s,N=%llu) + dft + idft + delete_module_info", t ? "NTT120" : "FFT64", (unsigned long long)N), [N, t] {
      MODULE* m = new_module_info(N, t ? NTT120 : FFT64);
      GBuf a(N * 8, 8), d((t ? 32 : 8) * N, 16), b((t ? 16 : 8) * N, 24), tmp(vec_znx_idft_tmp_bytes(m) + 64, 0);
      for (uint64_t i = 0; i < N; ++i) a.as<int64_t>()[i] = small_val(i + 3, 1 << 20);
      vec_znx_dft(m, (VEC_ZNX_DFT*)d.p, 1, a.as<int64_t>(), 1, N);
      vec_znx_idft(m, (VEC_ZNX_BIG*)b.p, 1, (VEC_ZNX_DFT*)d.p, 1, tmp.p);
      uint64_t h = ct_hash(d, ct_hash(b));
      delete_module_info(m);
      return h; });
  }
  // a tour of the module entry points on a module that lives only for the tour (fixed exponents and parameters, so that two tours on
  // modules of different dimension make the same calls): what one object leaves behind - a cache keyed on its address, a table it
  // registered - must not reach the next object, even when the allocator places that one at the very same address
  for (uint64_t N : std::vector<uint64_t>{8, 16, 32}) for (int t = 0; t < 2; ++t)
    add(sfmt("new_module_info(%s,N=%llu) + tour of the element-wise entry points (rotate, automorphism, add, normalize; in and out of place) + delete_module_info", t ? "NTT120" : "FFT64", (unsigned long long)N), [N, t] {
      MODULE* m = new_module_info(N, t ? NTT120 : FFT64);
      GBuf a(3 * N * 8, 8), b(3 * N * 8, 16), r(3 * N * 8, 24), tmp(vec_znx_normalize_base2k_tmp_bytes(m) + 64, 0);
      for (uint64_t i = 0; i < 3 * N; ++i) { a.as<int64_t>()[i] = probe62(i + 3) >> 8; b.as<int64_t>()[i] = probe62(i + 1003) >> 8; }
      uint64_t h = 0xcbf29ce484222325ull;
      vec_znx_rotate(m, 3, r.as<int64_t>(), 3, N, a.as<int64_t>(), 3, N); h = ct_hash(r, h);
      vec_znx_automorphism(m, 5, r.as<int64_t>(), 3, N, a.as<int64_t>(), 2, N); h = ct_hash(r, h);
      vec_znx_automorphism(m, 5, r.as<int64_t>(), 3, N, r.as<int64_t>(), 3, N); h = ct_hash(r, h);
      vec_znx_rotate(m, 3, r.as<int64_t>(), 3, N, r.as<int64_t>(), 3, N); h = ct_hash(r, h);
      vec_znx_add(m, r.as<int64_t>(), 3, N, a.as<int64_t>(), 3, N, b.as<int64_t>(), 2, N); h = ct_hash(r, h);
      vec_znx_sub(m, r.as<int64_t>(), 2, N, r.as<int64_t>(), 2, N, b.as<int64_t>(), 3, N); h = ct_hash(r, h);
      vec_znx_negate(m, r.as<int64_t>(), 3, N, b.as<int64_t>(), 3, N); h = ct_hash(r, h);
      vec_znx_normalize_base2k(m, 13, r.as<int64_t>(), 2, N, a.as<int64_t>(), 3, N, tmp.p); h = ct_hash(r, h);
      if (!t) {
        VEC_ZNX_BIG* x = new_vec_znx_big(m, 3); VEC_ZNX_BIG* y = new_vec_znx_big(m, 3);
        vec_znx_big_add_small2(m, x, 3, a.as<int64_t>(), 3, N, b.as<int64_t>(), 3, N);
        vec_znx_big_automorphism(m, 5, y, 3, x, 3); vec_znx_big_rotate(m, 3, x, 3, y, 2);
        vec_znx_big_automorphism(m, 5, x, 3, x, 3); vec_znx_big_rotate(m, 3, y, 3, y, 3);
        GBuf t2(vec_znx_big_normalize_base2k_tmp_bytes(m) + 64, 0);
        vec_znx_big_normalize_base2k(m, 13, r.as<int64_t>(), 3, N, x, 3, t2.p); h = ct_hash(r, h);
        vec_znx_big_normalize_base2k(m, 13, r.as<int64_t>(), 3, N, y, 3, t2.p); h = ct_hash(r, h);
        delete_vec_znx_big(x); delete_vec_znx_big(y);
      }
      delete_module_info(m);
      return h; });
  // two objects of one kind with overlapping lifetimes: deleting the first must leave the second intact
  add("two q120 product precomps of each kind, the first deleted before the second is used", [] {
    auto* pa1 = q120_new_vec_mat1col_product_baa_precomp(); auto* pa = q120_new_vec_mat1col_product_baa_precomp();
    auto* pb1 = q120_new_vec_mat1col_product_bbb_precomp(); auto* pb = q120_new_vec_mat1col_product_bbb_precomp();
    auto* pc1 = q120_new_vec_mat1col_product_bbc_precomp(); auto* pc = q120_new_vec_mat1col_product_bbc_precomp();
    q120_delete_vec_mat1col_product_baa_precomp(pa1); q120_delete_vec_mat1col_product_bbb_precomp(pb1); q120_delete_vec_mat1col_product_bbc_precomp(pc1);
    GBuf scratch(512, 0); memset(scratch.p, 0x5A, 512);
    GBuf r(32, 8), x(32 * 5, 16), y(32 * 5, 24); for (size_t i = 0; i < 20; ++i) { x.as<uint64_t>()[i] = (uint64_t)probe62(i) & 0xFFFFFFFFull; y.as<uint64_t>()[i] = (uint64_t)probe62(i + 50) & 0xFFFFFFFFull; }
    q120_vec_mat1col_product_baa_ref(pa, 5, (q120b*)r.p, (q120a*)x.p, (q120a*)y.p); uint64_t h = ct_hash(r);
    q120_vec_mat1col_product_bbb_ref(pb, 5, (q120b*)r.p, (q120b*)x.p, (q120b*)y.p); h = ct_hash(r, h);
    q120_vec_mat1col_product_bbc_ref(pc, 5, (q120b*)r.p, (q120b*)x.p, (q120c*)y.p); h = ct_hash(r, h);
    q120_delete_vec_mat1col_product_baa_precomp(pa); q120_delete_vec_mat1col_product_bbb_precomp(pb); q120_delete_vec_mat1col_product_bbc_precomp(pc);
    return h; });
  add("two modules of one dimension and one of another (both types), the first deleted before the second is used", [] {
    uint64_t h = 0xcbf29ce484222325ull;
    for (int t = 0; t < 2; ++t) {
      const uint64_t N = 16;
      MODULE* m1 = new_module_info(N, t ? NTT120 : FFT64); MODULE* m = new_module_info(N, t ? NTT120 : FFT64);
      MODULE* m3 = new_module_info(2 * N, t ? NTT120 : FFT64);   // created while the two others are alive
      delete_module_info(m1);
      MODULE* m4 = new_module_info(4 * N, t ? NTT120 : FFT64);   // allocations after the delete (may recycle what was freed)
      GBuf a(N * 8, 8), d((t ? 32 : 8) * N, 16), b((t ? 16 : 8) * N, 24), tmp(vec_znx_idft_tmp_bytes(m) + 64, 0);
      for (uint64_t i = 0; i < N; ++i) a.as<int64_t>()[i] = small_val(i + 3, 1 << 20);
      vec_znx_dft(m, (VEC_ZNX_DFT*)d.p, 1, a.as<int64_t>(), 1, N);
      vec_znx_idft(m, (VEC_ZNX_BIG*)b.p, 1, (VEC_ZNX_DFT*)d.p, 1, tmp.p);
      h = ct_hash(d, ct_hash(b, h));
      delete_module_info(m); delete_module_info(m3); delete_module_info(m4);
    }
    return h; });
  if (wide) for (uint64_t N : {8, 64, 1024}) {
    // the FFT64 product objects: prepared scalar, prepared matrix, normalisation through a fresh module
    add(sfmt("new_module_info(FFT64,N=%llu) + svp_prepare/apply + vmp_prepare/apply + big_normalize + delete", (unsigned long long)N), [N] {
      MODULE* m = new_module_info(N, FFT64);
      GBuf a(2 * N * 8, 8), mat(4 * N * 8, 16), res(8 * N * 2, 16), big(8 * N * 2, 8), out(2 * N * 8, 24);
      for (uint64_t i = 0; i < 2 * N; ++i) a.as<int64_t>()[i] = small_val(i + 3, 1 << 8);
      for (uint64_t i = 0; i < 4 * N; ++i) mat.as<int64_t>()[i] = small_val(i + 77, 1 << 8);
      SVP_PPOL* pp = new_svp_ppol(m); VMP_PMAT* pm = new_vmp_pmat(m, 2, 2); VEC_ZNX_DFT* dd = new_vec_znx_dft(m, 2); VEC_ZNX_BIG* bb = new_vec_znx_big(m, 2);
      GBuf t1(vmp_prepare_contiguous_tmp_bytes(m, 2, 2), 8), t2(vmp_apply_dft_tmp_bytes(m, 2, 2, 2, 2), 8), t3(vec_znx_big_normalize_base2k_tmp_bytes(m), 8), t4(vec_znx_idft_tmp_bytes(m), 8);
      svp_prepare(m, pp, mat.as<int64_t>());
      svp_apply_dft(m, dd, 2, pp, a.as<int64_t>(), 2, N);
      vec_znx_idft(m, bb, 2, dd, 2, t4.p);
      vec_znx_big_normalize_base2k(m, 12, out.as<int64_t>(), 2, N, bb, 2, t3.p);
      uint64_t h = ct_hash(out);
      vmp_prepare_contiguous(m, pm, mat.as<int64_t>(), 2, 2, t1.p);
      vmp_apply_dft(m, dd, 2, a.as<int64_t>(), 2, N, pm, 2, 2, t2.p);
      vec_znx_idft_tmp_a(m, bb, 2, dd, 2);
      vec_znx_big_normalize_base2k(m, 12, out.as<int64_t>(), 2, N, bb, 2, t3.p);
      h = ct_hash(out, h);
      delete_svp_ppol(pp); delete_vmp_pmat(pm); delete_vec_znx_dft(dd); delete_vec_znx_big(bb);
      delete_module_info(m);
      return h; });
  }
  std::vector<uint64_t> qn = wide ? std::vector<uint64_t>{1, 2, 4, 8, 16, 32, 64, 128, 256, 512, 1024, 2048, 4096, 16384, 65536} : std::vector<uint64_t>{256};
  for (uint64_t n : qn) for (int inv = 0; inv < 2; ++inv)
    add(sfmt("q120_new_%s_bb_precomp(n=%llu) + transform + delete", inv ? "intt" : "ntt", (unsigned long long)n), [n, inv] {
      q120_ntt_precomp* p = inv ? q120_new_intt_bb_precomp(n) : q120_new_ntt_bb_precomp(n);
      GBuf d(32 * n, 8); for (size_t i = 0; i < 4 * n; ++i) d.as<uint64_t>()[i] = (uint64_t)probe62(i) * 3;
      if (inv) q120_intt_bb_avx2(p, (q120b*)d.p); else q120_ntt_bb_avx2(p, (q120b*)d.p);
      uint64_t h = ct_hash(d);
      if (inv) q120_del_intt_bb_precomp(p); else q120_del_ntt_bb_precomp(p);
      return h; });
  std::vector<uint32_t> fm = wide ? std::vector<uint32_t>{1, 2, 4, 8, 16, 32, 64, 128, 256, 512, 1024, 2048, 4096, 8192, 32768} : std::vector<uint32_t>{64, 4096};
  for (uint32_t m : fm) {
    add(sfmt("new_reim_fft_precomp(m=%u) + reim_fft + delete", m), [m] { auto* p = new_reim_fft_precomp(m, 1); GBuf d(16 * m, 8); ct_fill_d(d, m); reim_fft(p, d.as<double>()); uint64_t h = ct_hash(d); free(p); return h; });
    add(sfmt("new_cplx_ifft_precomp(m=%u) + cplx_ifft + delete", m), [m] { auto* p = new_cplx_ifft_precomp(m, 1); GBuf d(16 * m, 8); ct_fill_d(d, m); cplx_ifft(p, d.p); uint64_t h = ct_hash(d); free(p); return h; });
    if (!wide) continue;
    add(sfmt("new_reim_ifft_precomp(m=%u) + reim_ifft + delete", m), [m] { auto* p = new_reim_ifft_precomp(m, 0); GBuf d(16 * m, 8); ct_fill_d(d, m); reim_ifft(p, d.as<double>()); uint64_t h = ct_hash(d); free(p); return h; });
    add(sfmt("new_cplx_fft_precomp(m=%u) + cplx_fft + delete", m), [m] { auto* p = new_cplx_fft_precomp(m, 0); GBuf d(16 * m, 8); ct_fill_d(d, m); cplx_fft(p, d.p); uint64_t h = ct_hash(d); free(p); return h; });
    if (m > 1024) continue;
    add(sfmt("conversion / pointwise tables (m=%u): create + use + delete", m), [m] {
      GBuf x(16 * m, 8), r(16 * m, 16), y(16 * m, 24), i32(8 * m, 8);
      ct_fill_d(x, m + 1); ct_fill_d(y, m + 2);
      uint64_t h = 0xcbf29ce484222325ull;
      { auto* p = new_reim_to_znx64_precomp(m, 4.0, 63); reim_to_znx64(p, r.as<int64_t>(), x.p); h = ct_hash(r, h); free(p); }
      { auto* p = new_reim_to_znx64_precomp(m, 2.0, 40); reim_to_znx64(p, r.as<int64_t>(), x.p); h = ct_hash(r, h); free(p); }
      { auto* p = new_reim_from_znx64_precomp(m, 50); for (size_t i = 0; i < 2 * m; ++i) y.as<int64_t>()[i] = probe62(i + 5) >> 24; reim_from_znx64(p, r.p, y.as<int64_t>()); h = ct_hash(r, h); free(p); ct_fill_d(y, m + 2); }
      { auto* p = new_reim_to_tnx_precomp(m, 4.0, 20); reim_to_tnx(p, r.as<double>(), x.as<double>()); h = ct_hash(r, h); free(p); }
      { auto* p = new_reim_fftvec_mul_precomp(m); reim_fftvec_mul(p, r.as<double>(), x.as<double>(), y.as<double>()); h = ct_hash(r, h); free(p); }
      { auto* p = new_reim_fftvec_addmul_precomp(m); reim_fftvec_addmul(p, r.as<double>(), x.as<double>(), y.as<double>()); h = ct_hash(r, h); free(p); }
      { auto* p = new_cplx_fftvec_mul_precomp(m); cplx_fftvec_mul(p, r.p, x.p, y.p); h = ct_hash(r, h); free(p); }
      { auto* p = new_cplx_fftvec_addmul_precomp(m); cplx_fftvec_addmul(p, r.p, x.p, y.p); h = ct_hash(r, h); free(p); }
      for (size_t i = 0; i < 2 * m; ++i) i32.as<int32_t>()[i] = (int32_t)(probe62(i + 9) >> 31);
      { auto* p = new_cplx_from_znx32_precomp(m); cplx_from_znx32(p, r.p, i32.as<int32_t>()); h = ct_hash(r, h); free(p); }
      { auto* p = new_cplx_from_tnx32_precomp(m); cplx_from_tnx32(p, r.p, i32.as<int32_t>()); h = ct_hash(r, h); free(p); }
      { auto* p = new_cplx_to_tnx32_precomp(m, 4.0, 18); for (size_t i = 0; i < 2 * m; ++i) x.as<double>()[i] = 4.0 * (double)((int64_t)(probe62(i + m) >> 46)) + 1.0; cplx_to_tnx32(p, i32.as<int32_t>(), x.p); h = ct_hash(i32, h); free(p); }
      if (m >= 4) {
        { auto* p = new_reim4_fftvec_mul_precomp(m); reim4_fftvec_mul(p, r.as<double>(), y.as<double>(), y.as<double>()); h = ct_hash(r, h); free(p); }
        { auto* p = new_reim4_from_cplx_precomp(m); reim4_from_cplx(p, r.as<double>(), y.p); h = ct_hash(r, h); free(p); }
        { auto* p = new_reim4_to_cplx_precomp(m); reim4_to_cplx(p, r.p, y.as<double>()); h = ct_hash(r, h); free(p); }
      }
      return h; });
  }
  add("q120_new_vec_mat1col_product_{baa,bbb,bbc}_precomp + product + delete", [] {
    auto* pa = q120_new_vec_mat1col_product_baa_precomp(); auto* pb = q120_new_vec_mat1col_product_bbb_precomp(); auto* pc = q120_new_vec_mat1col_product_bbc_precomp();
    GBuf r(32, 8), x(32 * 5, 16), y(32 * 5, 24); for (size_t i = 0; i < 20; ++i) { x.as<uint64_t>()[i] = (uint64_t)probe62(i) & 0xFFFFFFFFull; y.as<uint64_t>()[i] = (uint64_t)probe62(i + 50) & 0xFFFFFFFFull; }
    q120_vec_mat1col_product_baa_ref(pa, 5, (q120b*)r.p, (q120a*)x.p, (q120a*)y.p); uint64_t h = ct_hash(r);
    q120_vec_mat1col_product_bbb_ref(pb, 5, (q120b*)r.p, (q120b*)x.p, (q120b*)y.p); h = ct_hash(r, h);
    q120_vec_mat1col_product_bbc_ref(pc, 5, (q120b*)r.p, (q120b*)x.p, (q120c*)y.p); h = ct_hash(r, h);
    q120_delete_vec_mat1col_product_baa_precomp(pa); q120_delete_vec_mat1col_product_bbb_precomp(pb); q120_delete_vec_mat1col_product_bbc_precomp(pc);
    return h; });
  return ops;
}

// Runs every constructor op in forked children (fresh heap each), once per content of freshly allocated memory
// (0x00, 0xFF, 0xA5): the results must be bit-identical.  report(id, message) is called for a discrepancy or a crash;
// visit(id) for every (op) evaluated.  Returns the number of (op, content) executions.
inline uint64_t run_ctor_env(const std::vector<CtorOp>& ops, size_t lo, size_t hi, const std::function<bool(const std::string&)>& want,
                             const std::function<void(const std::string&, const std::string&)>& report, const std::function<void(const std::string&, bool)>& visit,
                             bool check_csr = false) {
  static const int POI[3] = {0x00, 0xFF, 0xA5};
  static const int RES[3] = {0, 32, 48};  // address of malloc blocks modulo 64 (malloc only promises a multiple of 16)
  static const int PFR[3] = {-1, 0xDD, 0x00};  // content of a block from the moment it is freed (left alone / 0xDD / 0x00): an object that is used after a sibling was deleted must not notice
  uint64_t* sh = (uint64_t*)mmap(0, 4096, PROT_READ | PROT_WRITE, MAP_SHARED | MAP_ANONYMOUS, -1, 0);
  if (sh == MAP_FAILED) machinery_error("mmap");
  uint64_t runs = 0;
  for (size_t k = lo; k < hi && k < ops.size(); ++k) {
    std::string id = "ctor-env|" + ops[k].name;
    if (!want(id)) continue;
    visit(id, true);
    bool bad = false;
    for (int e = 0; e < 3 && !bad; ++e) {
      sh[e] = 0; sh[3 + e] = 0;
      fflush(stdout);
      pid_t p = fork();
      if (p < 0) machinery_error("fork");
      if (p == 0) {
        alloc_track().poison = POI[e]; alloc_track().residue = RES[e];
        if (PFR[e] >= 0) { alloc_track().reset(); alloc_track().on = 1; alloc_track().poison_free = PFR[e]; }
        unsigned c0 = __builtin_ia32_stmxcsr() & 0xFFC0u;
        sh[e] = ops[k].run();
        unsigned c1 = __builtin_ia32_stmxcsr() & 0xFFC0u;
        sh[6] = c0; sh[7] = c1;
        sh[3 + e] = 1; _exit(0); }
      int st; waitpid(p, &st, 0);
      ++runs;
      if (check_csr && WIFEXITED(st) && WEXITSTATUS(st) == 0 && sh[3 + e] && sh[6] != sh[7]) { report(id, sfmt("creating / using / deleting the object leaves the floating-point control register of the calling thread changed (MXCSR control bits 0x%x -> 0x%x): every later floating-point result of that thread depends on it", (unsigned)sh[6], (unsigned)sh[7])); bad = true; break; }
      if (!WIFEXITED(st) || WEXITSTATUS(st) != 0 || !sh[3 + e]) { report(id, sfmt("creating / using / deleting the object crashes (or is stopped by the sanitizer) when freshly allocated memory is filled with 0x%02x and malloc blocks start at %d modulo 64", POI[e], RES[e])); bad = true; }
      else if (e > 0 && sh[e] != sh[0]) { report(id, sfmt("the results differ between freshly allocated memory filled with 0x00 (blocks at 0 mod 64) and with 0x%02x (blocks at %d mod 64): the constructor (or the use) depends on uninitialised heap memory, on the alignment malloc happens to return, or on the content of memory that has already been freed", POI[e], RES[e])); bad = true; }
    }
    visit(id, false);
  }
  munmap(sh, 4096);
  return runs;
}

}  // namespace vf
