// The entry-point table: enumerates every covered module-level API call over its shape box.
// Work is split in groups (family, N, module type, cfg); run_group() generates the cases of a group.
#pragma once
#include "apiops.hpp"

namespace vf {

enum Family { F_VEC, F_NORM, F_DFT, F_SVP_PREPARE, F_SVP_APPLY, F_SMALL, F_VMP };

struct ApiGroup {
  Family fam;
  uint64_t N;
  int mtype;   // 0 fft64, 1 ntt120
  CpuCfg cfg;
  int sub;     // vec op index / norm variant / dft variant / vmp variant
};

struct BoxOpts {
  std::vector<uint64_t> Ns = {2, 4, 8, 16, 32};
  uint64_t max_size = 3;       // limb counts 0..max_size
  std::vector<uint64_t> extra_sizes = {6, 11};  // additional (larger) limb counts, combined with the small ones
  uint64_t vmp_max_dim = 3;    // nrows, ncols in 1..vmp_max_dim
  uint64_t vmp_max_size = 4;   // a_size, res_size in 0..vmp_max_size
  bool all_strides = false;    // {N, N+1} or {N, N+1, N+3, 2N+5}
  std::vector<CpuCfg> cf = {CFG_NATIVE, CFG_GENERIC};
  std::vector<uint64_t> ks = {1, 10, 62};
  bool one_stride = false;     // the top layer: a single stride (N+1) per operand
  bool wide = false;           // the wide layer: its own VMP shape list, no long-source extras
  bool inplace = false;        // also the same-pointer calls: res==a, res==b, res==a==b, a==b (element-wise ops), res==a (normalisation), res==a_dft (inverse DFTs)
};

// a second, sparse layer at large ring dimensions (a change keyed to a size threshold above the small box is still met)
inline BoxOpts large_layer(bool thorough, const std::vector<CpuCfg>& cf) {
  BoxOpts o; o.Ns = thorough ? std::vector<uint64_t>{256, 4096, 65536} : std::vector<uint64_t>{256, 2048, 16384};
  o.max_size = 1; o.extra_sizes = {3}; o.vmp_max_dim = 2; o.vmp_max_size = 2; o.ks = {19}; o.cf = cf; return o;
}

// the largest supported ring dimension in every tier (an index or a count kept in 16 bits wraps exactly there): N = 65536, limb counts
// {0,1,2}, one stride, native dispatch
inline BoxOpts top_layer() {
  BoxOpts o; o.Ns = {65536}; o.max_size = 2; o.extra_sizes = {}; o.vmp_max_dim = 1; o.vmp_max_size = 2; o.ks = {19}; o.cf = {CFG_NATIVE}; o.one_stride = true; return o;
}

// a third, sparse layer of WIDE shapes at small ring dimensions: limb / row / column counts around 16, 32, 64, 128, 256 (a counter or an
// index kept in 8 bits, a threshold tuned for "many limbs")
inline BoxOpts wide_layer(const std::vector<CpuCfg>& cf) {
  BoxOpts o; o.Ns = {4, 16}; o.max_size = 1; o.extra_sizes = {33, 65, 129, 257}; o.vmp_max_dim = 0; o.vmp_max_size = 0; o.ks = {19}; o.cf = cf; o.wide = true; return o;
}

inline std::vector<ApiGroup> api_groups(const BoxOpts& o) {
  std::vector<ApiGroup> g;
  for (uint64_t N : o.Ns)
    for (auto& c : o.cf) {
      for (int op = 0; op < NVECOPS; ++op)
        for (int mt = 0; mt < 2; ++mt) {
          if (mt == 1 && VECOPS[op].fft64_only) continue;
          g.push_back({F_VEC, N, mt, c, op});
        }
      for (int v = 0; v < 3; ++v) g.push_back({F_NORM, N, 0, c, v});
      for (int v = 0; v < 3; ++v) {
        g.push_back({F_DFT, N, 0, c, v});
        if (c.avx2) g.push_back({F_DFT, N, 1, c, v});  // NTT120 dft/idft exist only with avx2
      }
      g.push_back({F_SVP_PREPARE, N, 0, c, 0});
      g.push_back({F_SVP_APPLY, N, 0, c, 0});
      g.push_back({F_SMALL, N, 0, c, 0});
      for (int v = 0; v < 3; ++v) g.push_back({F_VMP, N, 0, c, v});
    }
  return g;
}

inline void run_group(const ApiGroup& G, const BoxOpts& o, const std::function<void(ApiCase&)>& fn0) {
  const uint64_t N = G.N;
  // everything outside fn0 is case generation (it calls the library): a crash there is attributed to the group
  const std::string gdesc = sfmt("entry-point group family=%d sub=%d N=%llu module=%s cfg=%s", (int)G.fam, G.sub, (unsigned long long)G.N, G.mtype ? "ntt120" : "fft64", G.cfg.name);
  auto arm = [&]() { if (g_ctx()) g_ctx()->generating(gdesc); };
  auto fn = [&](ApiCase& c) { fn0(c); arm(); };
  arm();
  struct Disarm { ~Disarm() { if (g_ctx()) g_ctx()->generating_done(); } } disarm_at_exit;
  MODULE_TYPE t = G.mtype == 0 ? FFT64 : NTT120;
  MODULE* mod = get_module(N, t, G.cfg);
  const char* cfg = G.cfg.name;
  std::vector<uint64_t> strides = o.all_strides ? std::vector<uint64_t>{N, N + 1, N + 3, 2 * N + 5} : std::vector<uint64_t>{N, N + 1};
  if (o.one_stride) strides = {N + 1};
  std::vector<uint64_t> one = {N};
  const uint64_t S = o.max_size;
  std::vector<uint64_t> SZ; for (uint64_t i = 0; i <= S; ++i) SZ.push_back(i); for (uint64_t e : o.extra_sizes) SZ.push_back(e);
  std::vector<uint64_t> SZ0 = {0};
  switch (G.fam) {
    case F_VEC: {
      const VecOp& op = VECOPS[G.sub];
      std::vector<int64_t> ps = {0};
      if (op.has_p) ps = op.model == 'r' ? std::vector<int64_t>{1, (int64_t)N + 3, (int64_t)(2 * N)} : std::vector<int64_t>{3, (int64_t)(2 * N - 1), (int64_t)(2 * N + 1)};  // incl. the identity maps X^(2N) and X -> X^(2N+1)
      const std::vector<uint64_t>& rsls = op.res_big ? one : strides;
      const std::vector<uint64_t>& asls = (op.a_big || op.nin < 1) ? one : strides;
      const std::vector<uint64_t>& bsls = (op.b_big || op.nin < 2) ? one : strides;
      for (uint64_t rs : SZ) for (uint64_t as : (op.nin >= 1 ? SZ : SZ0)) for (uint64_t bs : (op.nin >= 2 ? SZ : SZ0))
        for (uint64_t rsl : rsls) for (uint64_t asl : asls) for (uint64_t bsl : bsls) for (int64_t p : ps) {
          VecShape s; s.N = N; s.rs = rs; s.as = as; s.bs = bs; s.rsl = rsl; s.asl = asl; s.bsl = bsl; s.p = p;
          ApiCase c = gen_vecop(mod, op, s, mtname(t), cfg);
          fn(c);
          if (o.inplace) for (int al : {AL_RES_A, AL_RES_B, AL_RES_A_B, AL_A_B}) {
            VecShape sa = canon_shape(op, s); sa.alias = al;
            if (!alias_ok(op, sa)) continue;
            ApiCase ca = gen_vecop(mod, op, sa, mtname(t), cfg);
            fn(ca);
          }
        }
      break;
    }
    case F_NORM: {
      for (uint64_t k : o.ks)
        for (uint64_t rs : SZ) for (uint64_t rsl : strides) {
          if (G.sub < 2) {
            std::vector<uint64_t> AS = SZ; if (N <= 64 && rs <= 3 && !o.wide) AS.push_back(40);  // one long source: many limbs are only read for their carry
            for (uint64_t as : AS) for (uint64_t asl : (G.sub == 0 ? strides : one)) {
              NormShape s; s.N = N; s.k = k; s.rs = rs; s.rsl = rsl; s.as = as; s.asl = asl; s.variant = G.sub; s.dataset = (int)((rs + as) % 3);
              ApiCase c = gen_normalize(mod, s, cfg);
              fn(c);
              if (o.inplace && (rsl == asl || rs <= 1)) { s.alias = 1; ApiCase ca = gen_normalize(mod, s, cfg); fn(ca); }
            }
          } else {
            std::vector<std::vector<uint64_t>> RG;
            for (uint64_t end = 0; end <= 5; ++end) for (uint64_t begin = 0; begin <= end; ++begin) for (uint64_t step = 1; step <= 3; ++step) RG.push_back({begin, end, step});
            if (o.one_stride) { RG.clear(); RG.push_back({0, 2, 1}); RG.push_back({0, 3, 2}); RG.push_back({1, 1, 1}); }
            if (N <= 64 && rs <= 3) { RG.push_back({0, 40, 1}); RG.push_back({1, 80, 2}); }  // long ranges
            if (o.wide) { RG.clear(); for (auto& q : std::vector<std::vector<uint64_t>>{{0, 257, 1}, {1, 258, 2}, {3, 300, 4}, {0, 129, 1}, {0, 260, 129}, {255, 257, 1}, {0, 1024, 4}}) RG.push_back(q); }
            for (auto& rg : RG) { const uint64_t begin = rg[0], end = rg[1], step = rg[2];
              NormShape s; s.N = N; s.k = k; s.rs = rs; s.rsl = rsl; s.variant = 2; s.begin = begin; s.end = end; s.step = step; s.dataset = (int)((rs + end) % 3);
              ApiCase c = gen_normalize(mod, s, cfg);
              fn(c);
              if (o.inplace && begin == 0 && (rs <= 1 || (step == 1 && rsl == N))) { s.alias = 1; ApiCase ca = gen_normalize(mod, s, cfg); fn(ca); }
            }
          }
        }
      break;
    }
    case F_DFT: {
      for (uint64_t rs : SZ) for (uint64_t as : SZ)
        for (uint64_t asl : (G.sub == 0 ? (o.one_stride ? strides : std::vector<uint64_t>{N, N + 1, N + 3}) : one)) {
          DftShape s; s.N = N; s.rs = rs; s.as = as; s.asl = asl; s.variant = G.sub;
          ApiCase c = gen_dft(mod, t, s, cfg);
          fn(c);
          if (o.inplace && G.sub != 0) { s.alias = 1; ApiCase ca = gen_dft(mod, t, s, cfg); fn(ca); }
        }
      break;
    }
    case F_SVP_PREPARE: { ApiCase c = gen_svp_prepare(mod, N, cfg); fn(c); break; }
    case F_SVP_APPLY: {
      for (uint64_t rs : SZ) for (uint64_t as : SZ) for (uint64_t asl : (o.one_stride ? strides : std::vector<uint64_t>{N, N + 3})) {
        SvpShape s; s.N = N; s.rs = rs; s.as = as; s.asl = asl;
        ApiCase c = gen_svp_apply(mod, s, cfg);
        fn(c);
      }
      break;
    }
    case F_SMALL: { ApiCase c = gen_small_product(mod, N, cfg); fn(c); ApiCase c2 = gen_small_product(mod, N, cfg, 2); fn(c2); break; }
    case F_VMP: {
      if (o.wide) {
        for (auto& q : std::vector<std::vector<uint64_t>>{{17, 3, 17, 3}, {3, 17, 3, 18}, {33, 2, 33, 3}, {2, 33, 3, 33}, {65, 2, 66, 2}, {2, 65, 2, 64}, {129, 2, 129, 1}, {1, 129, 1, 130},
                                                          {257, 1, 257, 1}, {1, 257, 2, 257}, {256, 3, 255, 3}, {3, 256, 3, 255}, {128, 2, 300, 2}, {2, 128, 2, 300}, {513, 3, 513, 3}, {600, 3, 600, 3}, {1025, 1, 1025, 1}, {1100, 4, 1100, 3}, {3, 513, 3, 513}, {1, 1025, 1, 1025}, {512, 3, 512, 3}, {2049, 2, 2049, 1}}) {
          VmpShape s; s.N = N; s.nrows = q[0]; s.ncols = q[1]; s.as = q[2]; s.rs = q[3]; s.asl = N + 3; s.variant = G.sub; ApiCase c = gen_vmp(mod, s, cfg); fn(c);
        }
        break;
      }
      if (G.sub != 0 && !o.one_stride) for (auto& q : std::vector<std::vector<uint64_t>>{{7, 9, 8, 9}, {9, 7, 10, 5}, {1, 12, 1, 11}, {12, 1, 13, 1}, {8, 8, 8, 7}, {6, 6, 3, 5}, {5, 8, 2, 7}, {4, 4, 1, 3}, {3, 6, 2, 3}}) {
        VmpShape s; s.N = N; s.nrows = q[0]; s.ncols = q[1]; s.as = q[2]; s.rs = q[3]; s.asl = N + 3; s.variant = G.sub; ApiCase c = gen_vmp(mod, s, cfg); fn(c);
      }
      for (uint64_t nr = 1; nr <= o.vmp_max_dim; ++nr) for (uint64_t nc = 1; nc <= o.vmp_max_dim; ++nc) {
        if (G.sub == 0) { VmpShape s; s.N = N; s.nrows = nr; s.ncols = nc; s.variant = 0; ApiCase c = gen_vmp(mod, s, cfg); fn(c); continue; }
        for (uint64_t as = 0; as <= o.vmp_max_size; ++as) for (uint64_t rs = 0; rs <= o.vmp_max_size; ++rs)
          for (uint64_t asl : (G.sub == 1 ? (o.one_stride ? strides : std::vector<uint64_t>{N, N + 3}) : one)) {
            VmpShape s; s.N = N; s.nrows = nr; s.ncols = nc; s.as = as; s.rs = rs; s.asl = asl; s.variant = G.sub;
            ApiCase c = gen_vmp(mod, s, cfg);
            fn(c);
          }
      }
      break;
    }
  }
}

}  // namespace vf
