// Engine B: explicit-state exploration of the library's hidden state ("library state machine").
// State  = writable non-RELRO segment of libspq.so (.data+.bss: every `static` of the library) +
//          the exploring thread's TLS block of the library + every heap block the library owns
//          (page arena behind the wrapped allocator), canonicalised (heap pointers -> block ids).
// Search = DFS where fork() is the checkpoint: a child executes one op, canonicalises, inserts the
//          state in a shared-memory set and recurses if the state is new.
// Invariants on every transition are evaluated by the caller-supplied hooks (C15: I-hist; C12: I-imm,
// I-warm).
#pragma once
#include <dlfcn.h>
#include <link.h>
#include <setjmp.h>
#include <signal.h>
#include "bufs.hpp"
extern "C" {
#include "arithmetic/vec_znx_arithmetic.h"
#include "cplx/cplx_fft.h"
#include "reim/reim_fft.h"
#include "reim4/reim4_fftvec_public.h"
#include "q120/q120_ntt.h"
#include "q120/q120_arithmetic.h"
}

namespace vf {

struct LibImage {
  uint8_t* stat = 0; size_t stat_len = 0;      // writable, non-RELRO part of libspq.so (page aligned start)
  uint8_t* tls = 0; size_t tls_len = 0;        // this thread's TLS block of libspq.so
  uint8_t* arena = 0; size_t arena_len = 0;
  std::string path;
};
inline LibImage& lib_image() { static LibImage I; return I; }

inline int lsm_phdr_cb(struct dl_phdr_info* info, size_t, void*) {
  if (!info->dlpi_name || !strstr(info->dlpi_name, "libspq.so")) return 0;
  LibImage& I = lib_image();
  I.path = info->dlpi_name;
  uintptr_t relro_lo = 0, relro_hi = 0;
  for (int i = 0; i < info->dlpi_phnum; ++i) if (info->dlpi_phdr[i].p_type == PT_GNU_RELRO) { relro_lo = info->dlpi_addr + info->dlpi_phdr[i].p_vaddr; relro_hi = relro_lo + info->dlpi_phdr[i].p_memsz; }
  for (int i = 0; i < info->dlpi_phnum; ++i) {
    const ElfW(Phdr)& ph = info->dlpi_phdr[i];
    if (ph.p_type == PT_LOAD && (ph.p_flags & PF_W)) {
      uintptr_t lo = info->dlpi_addr + ph.p_vaddr, hi = lo + ph.p_memsz;
      if (relro_hi > lo && relro_hi <= hi) lo = (relro_hi + 4095) & ~(uintptr_t)4095;  // RELRO is page-granular
      if (lo < hi) { I.stat = (uint8_t*)lo; I.stat_len = hi - lo; }
    }
    if (ph.p_type == PT_TLS) { I.tls = (uint8_t*)info->dlpi_tls_data; I.tls_len = ph.p_memsz; }
  }
  return 1;
}
inline void lsm_locate() {
  dl_iterate_phdr(lsm_phdr_cb, 0);
  LibImage& I = lib_image();
  if (!I.stat && !I.path.empty()) { static uint8_t dummy[8]; I.stat = dummy; I.stat_len = 0; }
  if (I.path.empty()) machinery_error("libspq.so is not loaded as a shared object (Engine B needs the shared link)");
}

// ---- arena behind the wrapped allocator ------------------------------------------------------
inline void lsm_arena_init(size_t bytes) {
  LibImage& I = lib_image();
  I.arena = (uint8_t*)mmap(0, bytes, PROT_READ | PROT_WRITE, MAP_PRIVATE | MAP_ANONYMOUS | MAP_NORESERVE, -1, 0);
  if (I.arena == MAP_FAILED) machinery_error("arena mmap failed");
  I.arena_len = bytes;
  AllocTrack& at = alloc_track();
  at.arena = I.arena; at.arena_size = bytes; at.arena_used = 0;
  at.reset();
}
inline void lsm_arena_page_align() { AllocTrack& at = alloc_track(); at.arena_used = (at.arena_used + 4095) & ~(size_t)4095; }
// Everything the library allocated so far (modules, tables built by the harness) is sealed read-only for good:
// such objects are immutable after creation, so any later write traps, and their content need not be re-hashed.
struct RootSeal { size_t bytes = 0; int nblocks = 0; };
inline RootSeal& root_seal() { static RootSeal r; return r; }
inline void lsm_seal_root() {
  LibImage& I = lib_image(); AllocTrack& at = alloc_track();
  lsm_arena_page_align();
  root_seal().bytes = at.arena_used; root_seal().nblocks = at.n;
  if (at.arena_used && mprotect(I.arena, at.arena_used, PROT_READ)) machinery_error("mprotect(root) failed");
}

// ---- write protection with a trap ----------------------------------------------------------------
struct TrapInfo { volatile int armed; volatile uintptr_t addr; sigjmp_buf jb; };
inline TrapInfo& trap_info() { static TrapInfo t; return t; }
inline void lsm_segv(int, siginfo_t* si, void*) {
  TrapInfo& t = trap_info();
  if (!t.armed) { signal(SIGSEGV, SIG_DFL); raise(SIGSEGV); return; }
  t.addr = (uintptr_t)si->si_addr;
  t.armed = 0;
  siglongjmp(t.jb, 1);
}
inline void lsm_install_trap() {
  struct sigaction sa; memset(&sa, 0, sizeof sa);
  sa.sa_sigaction = lsm_segv; sa.sa_flags = SA_SIGINFO | SA_NODEFER;
  sigaction(SIGSEGV, &sa, 0);
}
inline void lsm_protect(bool on) {
  LibImage& I = lib_image();
  AllocTrack& at = alloc_track();
  int prot = on ? PROT_READ : (PROT_READ | PROT_WRITE);
  if (I.stat_len) { uintptr_t lo = (uintptr_t)I.stat & ~(uintptr_t)4095; size_t len = ((uintptr_t)I.stat + I.stat_len - lo + 4095) & ~(size_t)4095; if (mprotect((void*)lo, len, prot)) machinery_error("mprotect(static) failed"); }
  size_t used = (at.arena_used + 4095) & ~(size_t)4095, root = root_seal().bytes;
  if (on) at.arena_used = used;  // whatever the protected call allocates starts on a fresh (unprotected) page
  if (used > root && mprotect(I.arena + root, used - root, prot)) machinery_error("mprotect(arena) failed");
}
// describes where a trapped address lies
inline std::string lsm_where(uintptr_t a) {
  LibImage& I = lib_image();
  if (a >= (uintptr_t)I.stat && a < (uintptr_t)I.stat + I.stat_len) {
    Dl_info di; std::string s = sfmt("library static storage (.data/.bss offset 0x%zx", (size_t)(a - (uintptr_t)I.stat));
    if (dladdr((void*)a, &di) && di.dli_sname) s += sfmt(", near symbol %s", di.dli_sname);
    return s + ")";
  }
  if (a >= (uintptr_t)I.arena && a < (uintptr_t)I.arena + I.arena_len) {
    AllocTrack& at = alloc_track();
    for (int i = 0; i < at.n; ++i) if (a >= (uintptr_t)at.rec[i].p && a < (uintptr_t)at.rec[i].p + at.rec[i].size) return sfmt("library-owned heap block #%d (%zu bytes) at offset %zu", i, at.rec[i].size, (size_t)(a - (uintptr_t)at.rec[i].p));
    return "library arena (padding)";
  }
  return sfmt("address %p", (void*)a);
}

// ---- canonical state hash -------------------------------------------------------------------------
inline uint64_t lsm_canon_hash() {
  LibImage& I = lib_image();
  AllocTrack& at = alloc_track();
  const int nb = at.n;
  std::vector<int> id(nb, -1);
  std::vector<int> order;
  auto block_of = [&](uint64_t v, uint64_t& off) -> int {
    if (v < (uint64_t)(uintptr_t)I.arena || v >= (uint64_t)(uintptr_t)I.arena + at.arena_used) return -1;
    for (int i = 0; i < nb; ++i) if (at.rec[i].live && v >= (uint64_t)(uintptr_t)at.rec[i].p && v < (uint64_t)(uintptr_t)at.rec[i].p + at.rec[i].size) { off = v - (uint64_t)(uintptr_t)at.rec[i].p; return i; }
    return -1;
  };
  uint64_t h = 0xcbf29ce484222325ull;
  auto scan = [&](const uint8_t* p, size_t len) {
    size_t i = 0;
    // unaligned head
    while (i < len && ((uintptr_t)(p + i) & 7)) { h = (h ^ p[i]) * 0x100000001b3ull; ++i; }
    for (; i + 8 <= len; i += 8) {
      uint64_t v; memcpy(&v, p + i, 8);
      uint64_t off; int b = block_of(v, off);
      if (b >= 0) { if (id[b] < 0) { id[b] = (int)order.size(); order.push_back(b); } v = 0xB10C000000000000ull | ((uint64_t)id[b] << 32) | off; }
      h = fnv(&v, 8, h);
    }
    for (; i < len; ++i) h = (h ^ p[i]) * 0x100000001b3ull;
  };
  // floating-point control state (rounding mode, flush-to-zero, ...) is hidden state too; the sticky exception flags are not
  uint64_t csr = __builtin_ia32_stmxcsr() & 0xFFC0u; h = fnv(&csr, 8, h);
  scan(I.stat, I.stat_len);
  uint64_t sep = 0x5EA5EA5EA5ull; h = fnv(&sep, 8, h);
  if (I.tls) scan(I.tls, I.tls_len);
  for (size_t k = 0; k < order.size(); ++k) { int b = order[k]; h = fnv(&sep, 8, h); uint64_t sz = at.rec[b].size; h = fnv(&sz, 8, h); scan((const uint8_t*)at.rec[b].p, at.rec[b].size); }
  // live blocks not referenced from the library's own state (caller-owned modules / tables): by content
  std::vector<uint64_t> rest;
  for (int i = root_seal().nblocks; i < nb; ++i) if (at.rec[i].live && id[i] < 0) {
    uint64_t save = h; h = 0x1234567ull; uint64_t sz = at.rec[i].size; h = fnv(&sz, 8, h);
    size_t before = order.size();
    scan((const uint8_t*)at.rec[i].p, at.rec[i].size);
    // blocks first referenced from here are hashed as part of this one
    for (size_t k = before; k < order.size(); ++k) { int b = order[k]; uint64_t s2 = at.rec[b].size; h = fnv(&s2, 8, h); scan((const uint8_t*)at.rec[b].p, at.rec[b].size); }
    rest.push_back(h); h = save;
  }
  std::sort(rest.begin(), rest.end());
  for (uint64_t r : rest) h = fnv(&r, 8, h);
  return h;
}

// ---- shared-memory state set -----------------------------------------------------------------------
struct StateSet {
  static const uint64_t CAP = 1ull << 22;
  volatile uint64_t* tab;
  volatile uint64_t* counters;  // [0] states [1] transitions [2] max depth [3] self loops
  StateSet() : tab(0), counters(0) {
    counters = (volatile uint64_t*)mmap(0, 4096, PROT_READ | PROT_WRITE, MAP_SHARED | MAP_ANONYMOUS, -1, 0);
    if (counters == MAP_FAILED) machinery_error("state set mmap failed");
    clear();
  }
  // a fresh table (MADV_DONTNEED does not empty a shared anonymous mapping)
  void clear() {
    if (tab) munmap((void*)tab, CAP * 8);
    tab = (volatile uint64_t*)mmap(0, CAP * 8, PROT_READ | PROT_WRITE, MAP_SHARED | MAP_ANONYMOUS | MAP_NORESERVE, -1, 0);
    if (tab == MAP_FAILED) machinery_error("state set mmap failed");
    for (int i = 0; i < 8; ++i) counters[i] = 0;
  }
  bool insert(uint64_t h) {
    if (h == 0) h = 1;
    uint64_t i = (h * 0x9E3779B97F4A7C15ull) >> 42;
    for (uint64_t probe = 0; probe < CAP; ++probe, i = (i + 1) & (CAP - 1)) {
      uint64_t cur = tab[i];
      if (cur == h) return false;
      if (cur == 0) { if (__sync_bool_compare_and_swap(&tab[i], 0, h)) { __sync_fetch_and_add(&counters[0], 1); return true; } if (tab[i] == h) return false; }
    }
    machinery_error("state set full");
  }
};

// ---- ops -------------------------------------------------------------------------------------------
struct LsmOp {
  std::string name;
  std::string family;            // ops of one family share a lazily built slot / cache
  std::string warm_key;          // (function, dimension): after one execution the op must not write shared storage; "" for module/table ops (never)
  bool tls_cached = false;       // keeps its table in thread-local storage (no static write allowed at all)
  std::function<uint64_t()> run;       // executes the call on fresh deterministic inputs, returns a hash of all outputs
  std::function<uint64_t()> explicit_run;  // same computation through freshly built explicit tables (may be empty)
};

inline uint64_t hash_buf(const GBuf& b, uint64_t h = 0xcbf29ce484222325ull) { return fnv(b.p, b.bytes, h); }

}  // namespace vf
