// Engine D: exact-integer envelope model of the q120 lazy arithmetic.
// A state is (transform, n, prime, stage) with an exact upper bound U of every lane at that point;
// transitions are the stage kinds of the code with transfer functions written from the kernels
// (q120_ntt_avx2.c, q120_arithmetic_{ref,avx2}.c).  Every constant is read from the real precomputed
// objects, so the model follows whatever the precomputation chose.  Side conditions are invariants.
#pragma once
#include "oracle.hpp"
extern "C" {
#include "q120/q120_arithmetic.h"
#include "q120/q120_arithmetic_private.h"
#include "q120/q120_ntt.h"
#include "q120/q120_ntt_private.h"
}

namespace vf {

static const u128 TWO64 = (u128)1 << 64;
static const u128 TWO32 = (u128)1 << 32;

struct EnvStage {
  std::string kind;      // first, iter, iter_red, first_red (+ "inv-" prefix for the inverse)
  uint64_t nn = 0;       // butterfly span (0 for the twiddle-only stage)
  int meta = 0;          // index into level_metadata
  bool reduce = false;
  u128 Uin[4], Uout[4];  // per prime
};
struct EnvResult {
  std::vector<EnvStage> stages;
  std::vector<std::string> failures;  // violated side conditions
  uint64_t states = 0, transitions = 0;
  double tightest = 0;  // max over all intermediate values of value / 2^64
};

struct EnvCtx {
  EnvResult* r; int k; uint64_t q; std::string where;
  void need(bool c, const std::string& what) { if (!c) r->failures.push_back(where + sfmt(" prime %d: ", k) + what); }
  void track(u128 v) { double t = (double)v / 18446744073709551616.0; if (t > r->tightest) r->tightest = t; }
};

// x <= U  ->  bound of split_precompmul_si256(x, (t1<<32)+t, h, mask) with t, t1 < q
inline u128 tf_split_mul(EnvCtx& c, u128 U, uint64_t h, uint64_t mask) {
  u128 lo = U < mask ? U : (u128)mask;
  u128 hi = U >> h;
  c.need(lo < TWO32, sfmt("low part of the split multiplication needs 32 bits: min(U,mask)=%s", i128_str((i128)lo).c_str()));
  c.need(hi < TWO32, sfmt("high part U>>h of the split multiplication does not fit 32 bits (h=%llu)", (unsigned long long)h));
  u128 res = lo * (c.q - 1) + hi * (c.q - 1);
  c.track(res);
  c.need(res < TWO64, "split multiplication result can exceed 64 bits");
  return res;
}
// modq_red(x, h, mask, cst)
inline u128 tf_red(EnvCtx& c, u128 U, const q120_ntt_reduc_step_precomp& rm) {
  u128 hi = U >> rm.h;
  c.need(hi < TWO32, "reduction: U>>h does not fit 32 bits");
  c.need(rm.modulo_red_cst[c.k] < TWO32, "reduction constant does not fit 32 bits");
  u128 lo = U < rm.mask ? U : (u128)rm.mask;
  u128 res = lo + hi * rm.modulo_red_cst[c.k];
  c.track(res);
  c.need(res < TWO64, "reduction result can exceed 64 bits");
  return res;
}

// forward butterfly level (ntt_iter / ntt_iter_red)
inline u128 tf_ntt_iter(EnvCtx& c, u128 U, uint64_t nn, const q120_ntt_step_precomp& md, const q120_ntt_reduc_step_precomp& rm) {
  if (md.reduce) U = tf_red(c, U, rm);
  u128 q2 = md.q2bs[c.k];
  c.need(q2 >= U, sfmt("lazy subtraction a+q2bs-b can go negative: q2bs=%llu < U=%s", (unsigned long long)md.q2bs[c.k], i128_str((i128)U).c_str()));
  c.need(2 * U < TWO64, "a+b can exceed 64 bits");
  c.need(U + q2 < TWO64, "a+q2bs can exceed 64 bits");
  c.track(2 * U); c.track(U + q2);
  u128 out = std::max(2 * U, U + q2);
  if (nn > 2) out = std::max(out, tf_split_mul(c, U + q2, md.half_bs, md.mask));
  return out;
}
// inverse butterfly level (intt_iter / intt_iter_red)
inline u128 tf_intt_iter(EnvCtx& c, u128 U, uint64_t nn, const q120_ntt_step_precomp& md, const q120_ntt_reduc_step_precomp& rm) {
  if (md.reduce) U = tf_red(c, U, rm);
  u128 q2 = md.q2bs[c.k];
  // first pair of each block: b is not multiplied
  c.need(q2 >= U, sfmt("lazy subtraction a+q2bs-b (first pair) can go negative: q2bs=%llu < U=%s", (unsigned long long)md.q2bs[c.k], i128_str((i128)U).c_str()));
  c.need(2 * U < TWO64, "a+b can exceed 64 bits");
  c.need(U + q2 < TWO64, "a+q2bs can exceed 64 bits");
  c.track(2 * U); c.track(U + q2);
  u128 out = std::max(2 * U, U + q2);
  if (nn > 2) {
    u128 S = tf_split_mul(c, U, md.half_bs, md.mask);
    c.need(q2 >= S, sfmt("lazy subtraction a+q2bs-b.omega can go negative: q2bs=%llu < %s", (unsigned long long)md.q2bs[c.k], i128_str((i128)S).c_str()));
    c.need(U + S < TWO64, "a+b.omega can exceed 64 bits");
    c.track(U + S);
    out = std::max(out, U + S);
  }
  return out;
}

// The tables are read directly by the model.  A library that builds (part of) them on first use is still a correct library as far
// as C03 / C04 are concerned: run one transform on zeros first, and report whether the tables are there afterwards.
inline bool ntt_tables_ready(q120_ntt_precomp* pc, bool inverse) {
  const uint64_t n = pc->n;
  GBuf z(32 * n, 0);
  memset(z.p, 0, z.bytes);
  if (inverse) q120_intt_bb_avx2(pc, (q120b*)z.p); else q120_ntt_bb_avx2(pc, (q120b*)z.p);
  return pc->level_metadata != 0 && (n < 2 || pc->powomega != 0);
}

inline EnvResult envelope_ntt(const q120_ntt_precomp* pc, bool inverse) {
  EnvResult R;
  const uint64_t n = pc->n;
  if (n == 1) return R;
  for (int k = 0; k < 4; ++k) {
    EnvCtx c{&R, k, PRIMES_VEC[k], ""};
    u128 U = TWO64 - 1;  // any 64-bit lane content
    int mi = 0, si = 0;
    auto stage = [&](const std::string& kind, uint64_t nn, int meta, bool red, u128 in, u128 out) {
      if (k == 0) { EnvStage s; s.kind = kind; s.nn = nn; s.meta = meta; s.reduce = red; R.stages.push_back(s); }
      R.stages[si].Uin[k] = in; R.stages[si].Uout[k] = out; ++si;
      R.states++; R.transitions++;
    };
    if (!inverse) {
      const q120_ntt_step_precomp& m0 = pc->level_metadata[mi];
      c.where = sfmt("ntt n=%llu stage first", (unsigned long long)n);
      u128 o = tf_split_mul(c, U, m0.half_bs, m0.mask);
      stage("first", 0, mi, false, U, o); U = o; ++mi;
      for (uint64_t nn = n; nn >= 2; nn /= 2) {
        const q120_ntt_step_precomp& md = pc->level_metadata[mi];
        c.where = sfmt("ntt n=%llu level nn=%llu", (unsigned long long)n, (unsigned long long)nn);
        u128 o2 = tf_ntt_iter(c, U, nn, md, pc->reduc_metadata);
        stage(md.reduce ? "iter_red" : "iter", nn, mi, md.reduce, U, o2); U = o2; ++mi;
      }
    } else {
      for (uint64_t nn = 2; nn <= n; nn *= 2) {
        const q120_ntt_step_precomp& md = pc->level_metadata[mi];
        c.where = sfmt("intt n=%llu level nn=%llu", (unsigned long long)n, (unsigned long long)nn);
        u128 o2 = tf_intt_iter(c, U, nn, md, pc->reduc_metadata);
        stage(md.reduce ? "inv-iter_red" : "inv-iter", nn, mi, md.reduce, U, o2); U = o2; ++mi;
      }
      const q120_ntt_step_precomp& ml = pc->level_metadata[mi];
      c.where = sfmt("intt n=%llu stage last", (unsigned long long)n);
      u128 in = U;
      if (ml.reduce) U = tf_red(c, U, pc->reduc_metadata);
      u128 o = tf_split_mul(c, U, ml.half_bs, ml.mask);
      stage(ml.reduce ? "inv-first_red" : "inv-first", 0, mi, ml.reduce, in, o); U = o;
    }
  }
  return R;
}

// ---- table facts the transfer functions rely on, on EVERY table entry -----------------------------
inline void check_ntt_tables(const q120_ntt_precomp* pc, bool inverse, std::vector<std::string>& fails, uint64_t& words_checked) {
  const uint64_t n = pc->n;
  if (n == 1) return;
  for (int k = 0; k < 4; ++k) {
    const uint64_t q = PRIMES_VEC[k];
    uint64_t om = powmod(OMEGAS_VEC[k], 65536 / n, q);
    if (powmod(om, n, q) != q - 1) fails.push_back(sfmt("n=%llu prime %d: omega is not a primitive 2n-th root of unity", (unsigned long long)n, k));
    uint64_t omi = invmod(om, q), ninv = invmod(n % q, q);
    const uint64_t* po = pc->powomega + k;
    auto word = [&](const uint64_t* p, uint64_t expect_t, uint64_t half_bs, const char* what, uint64_t idx) {
      uint64_t w = *p, t = w & 0xFFFFFFFFull, t1 = w >> 32;
      ++words_checked;
      if (t != expect_t) fails.push_back(sfmt("n=%llu prime %d %s[%llu]: twiddle %llu is not the expected power of omega (%llu)", (unsigned long long)n, k, what, (unsigned long long)idx, (unsigned long long)t, (unsigned long long)expect_t));
      else if (t >= q || t1 != (uint64_t)(((u128)t << half_bs) % q)) fails.push_back(sfmt("n=%llu prime %d %s[%llu]: high half is not t*2^half_bs mod q", (unsigned long long)n, k, what, (unsigned long long)idx));
    };
    int mi = 0;
    if (!inverse) {
      for (uint64_t i = 0; i < n; ++i) word(po + 4 * i, powmod(om, i, q), pc->level_metadata[mi].half_bs, "first", i);
      po += 4 * n; ++mi;
      for (uint64_t nn = n; nn >= 4; nn /= 2) {
        uint64_t half = nn / 2, m = n / half;
        for (uint64_t i = 1; i < half; ++i) word(po + 4 * (i - 1), powmod(om, i * m, q), pc->level_metadata[mi].half_bs, "level", i);
        po += 4 * (half - 1); ++mi;
      }
    } else {
      mi = 1;
      for (uint64_t nn = 4; nn <= n; nn *= 2) {
        uint64_t half = nn / 2, m = n / half;
        for (uint64_t i = 1; i < half; ++i) word(po + 4 * (i - 1), powmod(omi, i * m, q), pc->level_metadata[mi].half_bs, "inv-level", i);
        po += 4 * (half - 1); ++mi;
      }
      for (uint64_t i = 0; i < n; ++i) word(po + 4 * i, mulmod(powmod(omi, i, q), ninv, q), pc->level_metadata[mi].half_bs, "inv-last", i);
    }
    // reduction constant = 2^h mod q, lazy offsets multiples of q
    if (pc->reduc_metadata.modulo_red_cst[k] != (uint64_t)(((u128)1 << pc->reduc_metadata.h) % q)) fails.push_back(sfmt("n=%llu prime %d: modulo_red_cst is not 2^h mod q", (unsigned long long)n, k));
    if (pc->reduc_metadata.mask != ((UINT64_C(1) << pc->reduc_metadata.h) - 1)) fails.push_back(sfmt("n=%llu: reduction mask is not 2^h-1", (unsigned long long)n));
    // levels with a lazy offset: forward 1..log2(n), inverse 0..log2(n)
    for (uint64_t j = inverse ? 0 : 1; j <= ilog2(n); ++j) {
      const q120_ntt_step_precomp& md = pc->level_metadata[j];
      if (md.q2bs[k] % q != 0) fails.push_back(sfmt("n=%llu prime %d level %llu: q2bs is not a multiple of q", (unsigned long long)n, k, (unsigned long long)j));
    }
  }
}

// ---- products ---------------------------------------------------------------------------------------
struct ProdEnv { std::vector<std::string> failures; uint64_t states = 0; double tightest = 0; u128 bound[4]; };
// kind: 0 baa, 1 bbb, 2 bbc (also the x2 forms: same accumulator shape per result); avx2: operands of mul_epu32 must fit 32 bits
inline ProdEnv envelope_product(int kind, bool avx2, uint64_t ell, const void* precomp) {
  ProdEnv E;
  const u128 M32 = TWO32 - 1, P = M32 * M32;  // maximal 32x32 product
  auto need = [&](bool c, const std::string& w) { if (!c) E.failures.push_back(sfmt("%s ell=%llu: ", avx2 ? "avx2" : "ref", (unsigned long long)ell) + w); };
  auto track = [&](u128 v) { double t = (double)v / 18446744073709551616.0; if (t > E.tightest) E.tightest = t; };
  for (int k = 0; k < 4; ++k) {
    E.states++;
    if (kind == 0) {
      const q120_mat1col_product_baa_precomp* p = (const q120_mat1col_product_baa_precomp*)precomp;
      u128 mask = ((u128)1 << p->h) - 1;
      u128 acc1 = (u128)ell * std::min(mask, P), acc2 = (u128)ell * (P >> p->h);
      need(acc1 < TWO64 && acc2 < TWO64, "accumulator can exceed 64 bits");
      if (avx2) need(acc2 < TWO32 && p->h_pow_red[k] < TWO32, "acc2 or 2^h mod q does not fit the 32-bit multiplier operand");
      u128 t = acc1 + acc2 * p->h_pow_red[k];
      track(t); need(t < TWO64, "final recombination can exceed 64 bits");
      E.bound[k] = t;
    } else if (kind == 1) {
      const q120_mat1col_product_bbb_precomp* p = (const q120_mat1col_product_bbb_precomp*)precomp;
      u128 hi = P >> 32;
      u128 s1 = (u128)ell * M32, s2 = (u128)ell * (hi + 2 * M32), s3 = (u128)ell * (2 * hi + M32), s4 = (u128)ell * hi;
      need(s2 < TWO64 && s3 < TWO64, "partial sum can exceed 64 bits");
      u128 mask = ((u128)1 << p->h) - 1;
      u128 parts[8] = {std::min(s1, mask), s1 >> p->h, std::min(s2, mask), s2 >> p->h, std::min(s3, mask), s3 >> p->h, std::min(s4, mask), s4 >> p->h};
      u128 cst[8] = {1, p->s1h_pow_red[k], p->s2l_pow_red[k], p->s2h_pow_red[k], p->s3l_pow_red[k], p->s3h_pow_red[k], p->s4l_pow_red[k], p->s4h_pow_red[k]};
      u128 t = 0;
      for (int i = 0; i < 8; ++i) {
        if (avx2 && i > 0) need(parts[i] < TWO32 && cst[i] < TWO32, sfmt("operand %d of the recombination does not fit the 32-bit multiplier", i));
        t += parts[i] * cst[i];
      }
      track(t); need(t < TWO64, "final recombination can exceed 64 bits");
      E.bound[k] = t;
    } else {
      const q120_mat1col_product_bbc_precomp* p = (const q120_mat1col_product_bbc_precomp*)precomp;
      u128 s1 = (u128)ell * 2 * M32, s2 = (u128)ell * 2 * (P >> 32);
      need(s1 < TWO64 && s2 < TWO64, "partial sum can exceed 64 bits");
      u128 mask = ((u128)1 << p->h) - 1;
      u128 s2l = std::min(s2, mask), s2h = s2 >> p->h;
      if (avx2) need(s2l < TWO32 && s2h < TWO32 && p->s2l_pow_red[k] < TWO32 && p->s2h_pow_red[k] < TWO32, "operand of the recombination does not fit the 32-bit multiplier");
      u128 t = s1 + s2l * p->s2l_pow_red[k] + s2h * p->s2h_pow_red[k];
      track(t); need(t < TWO64, "final recombination can exceed 64 bits");
      E.bound[k] = t;
    }
  }
  return E;
}

// table facts of the product precomputations
inline void check_product_tables(const q120_mat1col_product_baa_precomp* a, const q120_mat1col_product_bbb_precomp* b, const q120_mat1col_product_bbc_precomp* c, std::vector<std::string>& fails) {
  for (int k = 0; k < 4; ++k) {
    const uint64_t q = PRIMES_VEC[k];
    auto p2 = [&](unsigned e) { return (uint64_t)powmod(2, e, q); };
    if (a->h_pow_red[k] % q != p2(a->h)) fails.push_back(sfmt("baa precomp prime %d: h_pow_red is not 2^h mod q", k));
    if (b->s1h_pow_red[k] % q != p2(b->h) || b->s2l_pow_red[k] % q != p2(32) || b->s2h_pow_red[k] % q != p2(32 + b->h) || b->s3l_pow_red[k] % q != p2(64) ||
        b->s3h_pow_red[k] % q != p2(64 + b->h) || b->s4l_pow_red[k] % q != p2(96) || b->s4h_pow_red[k] % q != p2(96 + b->h))
      fails.push_back(sfmt("bbb precomp prime %d: a recombination constant is not the stated power of two mod q", k));
    if (c->s2l_pow_red[k] % q != p2(32) || c->s2h_pow_red[k] % q != p2(32 + c->h)) fails.push_back(sfmt("bbc precomp prime %d: a recombination constant is not the stated power of two mod q", k));
  }
}

}  // namespace vf
