// binary128 evaluation-map oracle and runners for the eight FFT implementations (shared by C06 and C07).
#pragma once
#include <quadmath.h>
#include "bufs.hpp"
#include "oracle.hpp"
extern "C" {
#include "cplx/cplx_fft_internal.h"
#include "cplx/cplx_fft_private.h"
#include "reim/reim_fft_internal.h"
#include "reim/reim_fft_private.h"
}
namespace vf {
#ifndef VF_Q128_DEFINED
#define VF_Q128_DEFINED
typedef __float128 q128;
#endif
struct cq { q128 re, im; };
inline cq cmul(cq a, cq b) { return {a.re * b.re - a.im * b.im, a.re * b.im + a.im * b.re}; }
inline cq cadd(cq a, cq b) { return {a.re + b.re, a.im + b.im}; }
inline cq csub(cq a, cq b) { return {a.re - b.re, a.im - b.im}; }

struct Tables {
  uint64_t m; unsigned lg;
  std::vector<cq> W;            // W[t] = exp(i pi t / (2m)), t < 4m
  std::vector<long double> Wr, Wi;
  explicit Tables(uint64_t mm) : m(mm), lg(ilog2(mm)) {
    W.resize(4 * m); Wr.resize(4 * m); Wi.resize(4 * m);
    for (uint64_t t = 0; t < 4 * m; ++t) {
      // exact symmetries keep the table consistent: reduce to the first octant
      q128 ang = M_PIq * (q128)t / (q128)(2 * m);
      W[t] = {cosq(ang), sinq(ang)};
      Wr[t] = (long double)W[t].re; Wi[t] = (long double)W[t].im;
    }
    for (uint64_t q4 = 0; q4 < 4; ++q4) { cq e = {q4 == 0 ? 1.0Q : q4 == 2 ? -1.0Q : 0.0Q, q4 == 1 ? 1.0Q : q4 == 3 ? -1.0Q : 0.0Q}; W[q4 * m] = e; Wr[q4 * m] = (long double)e.re; Wi[q4 * m] = (long double)e.im; }
  }
  uint64_t expo(uint64_t j) const { return 1 + 4 * (uint64_t)bitrev((uint32_t)j, lg); }  // evaluation point of output j
  // plain DFT with kernel exp(+2 pi i r k / m), natural order in and out (iterative radix 2)
  void dft(std::vector<cq>& a) const {
    for (uint64_t i = 0; i < m; ++i) { uint64_t j = bitrev((uint32_t)i, lg); if (i < j) std::swap(a[i], a[j]); }
    for (uint64_t len = 2; len <= m; len <<= 1) {
      uint64_t step = 4 * m / len;  // zeta_len = W[4m/len]
      for (uint64_t s = 0; s < m; s += len)
        for (uint64_t k = 0; k < len / 2; ++k) { cq u = a[s + k], v = cmul(a[s + k + len / 2], W[k * step]); a[s + k] = cadd(u, v); a[s + k + len / 2] = csub(u, v); }
    }
  }
  // forward map: in = coefficients (natural order), out[j] = P(omega^(e_j))
  void forward(const std::vector<cq>& in, std::vector<cq>& out) const {
    std::vector<cq> b(m);
    for (uint64_t k = 0; k < m; ++k) b[k] = cmul(in[k], W[k]);
    dft(b);
    out.resize(m);
    for (uint64_t j = 0; j < m; ++j) out[j] = b[bitrev((uint32_t)j, lg)];
  }
  // m * inverse map: in[j] = value at omega^(e_j), out[k] = omega^(-k) sum_r y_r zeta^(-rk)
  void inverse_times_m(const std::vector<cq>& in, std::vector<cq>& out) const {
    std::vector<cq> y(m);
    for (uint64_t j = 0; j < m; ++j) { cq v = in[j]; y[bitrev((uint32_t)j, lg)] = {v.re, -v.im}; }
    dft(y);
    out.resize(m);
    for (uint64_t k = 0; k < m; ++k) { cq c = {y[k].re, -y[k].im}; out[k] = cmul(c, W[(4 * m - k) % (4 * m)]); }
  }
};

enum Impl { REIM_F_REF, REIM_F_AVX, CPLX_F_REF, CPLX_F_AVX, REIM_I_REF, REIM_I_AVX, CPLX_I_REF, CPLX_I_AVX, NIMPL };
static const char* const IN[] = {"reim_fft_ref", "reim_fft_avx2_fma", "cplx_fft_ref", "cplx_fft_avx2_fma", "reim_ifft_ref", "reim_ifft_avx2_fma", "cplx_ifft_ref", "cplx_ifft_avx2_fma"};
inline bool is_inv(int i) { return i >= REIM_I_REF; }
inline bool is_cplx(int i) { return i == CPLX_F_REF || i == CPLX_F_AVX || i == CPLX_I_REF || i == CPLX_I_AVX; }
inline uint64_t min_m(int i) { return (i == CPLX_F_AVX || i == CPLX_I_AVX) ? 8 : 1; }

struct Runner {
  int impl; uint64_t m; void* pc; std::vector<std::pair<uint8_t*, size_t>> blocks;
  Runner(int im, uint64_t mm) : impl(im), m(mm) {
    AllocTrack& at = alloc_track(); int n0 = at.n; at.on = 1;
    if (is_cplx(impl)) pc = is_inv(impl) ? (void*)new_cplx_ifft_precomp(m, 0) : (void*)new_cplx_fft_precomp(m, 0);
    else pc = is_inv(impl) ? (void*)new_reim_ifft_precomp(m, 0) : (void*)new_reim_fft_precomp(m, 0);
    at.on = 0;
    for (int i = n0; i < at.n; ++i) if (at.rec[i].live) blocks.push_back({(uint8_t*)at.rec[i].p, at.rec[i].size});
  }
  ~Runner() { free(pc); }
  uint64_t table_hash() const { uint64_t h = 1469598103934665603ull; for (auto& b : blocks) h = fnv(b.first, b.second, h); return h; }
  void run(double* d) const {
    switch (impl) {
      case REIM_F_REF: reim_fft_ref((REIM_FFT_PRECOMP*)pc, d); break;
      case REIM_F_AVX: reim_fft_avx2_fma((REIM_FFT_PRECOMP*)pc, d); break;
      case CPLX_F_REF: cplx_fft_ref((CPLX_FFT_PRECOMP*)pc, d); break;
      case CPLX_F_AVX: cplx_fft_avx2_fma((CPLX_FFT_PRECOMP*)pc, d); break;
      case REIM_I_REF: reim_ifft_ref((REIM_IFFT_PRECOMP*)pc, d); break;
      case REIM_I_AVX: reim_ifft_avx2_fma((REIM_IFFT_PRECOMP*)pc, d); break;
      case CPLX_I_REF: cplx_ifft_ref((CPLX_IFFT_PRECOMP*)pc, d); break;
      case CPLX_I_AVX: cplx_ifft_avx2_fma((CPLX_IFFT_PRECOMP*)pc, d); break;
    }
  }
  // layout helpers: position of re / im of complex number k
  inline uint64_t pre(uint64_t k) const { return is_cplx(impl) ? 2 * k : k; }
  inline uint64_t pim(uint64_t k) const { return is_cplx(impl) ? 2 * k + 1 : k + m; }
};

inline double bound_of(uint64_t m) { return 8.0 * (ilog2(m) + 1) * 0x1p-53; }

}  // namespace vf
