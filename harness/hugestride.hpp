// Limb vectors with HUGE strides (sl around 2^28 .. 2^32 elements, i.e. limb offsets that do not fit 32-bit element or byte arithmetic).
// A stride is a caller-chosen uint64_t and "stride >= N" is its whole contract, so offsets i*sl beyond 2^31 / 2^32 are legal inputs; a
// library that computes a limb offset in int / uint32_t arithmetic (or stores a stride in 32 bits) is only wrong for them.
// The whole extent of such a vector (tens of gigabytes) is reserved as PROT_NONE virtual memory (MAP_NORESERVE); only the pages that hold
// a limb are made accessible.  Bytes of those pages outside the limb carry a canary; everything else traps (SIGSEGV is attributed to the
// published case by the worker pool).  Used by C08 (element-wise family, exact model) and C11 (every strided entry point, differential
// against the same call on compact copies).
#pragma once
#include <sys/mman.h>
#include "vecops.hpp"

namespace vf {

struct SparseVec {
  uint8_t* base = 0; size_t map_len = 0;
  int64_t* p = 0;
  uint64_t N = 0, size = 0, sl = 0;
  static const uint8_t CAN = 0xC7;
  std::vector<std::pair<size_t, size_t>> win;  // accessible windows (offset from base, length), page granular, merged
  SparseVec() {}
  SparseVec(const SparseVec&) = delete;
  SparseVec& operator=(const SparseVec&) = delete;
  // off = byte offset of limb 0 inside its page (multiple of 8)
  void init(uint64_t n, uint64_t sz, uint64_t stride, size_t off = 0) {
    release();
    N = n; size = sz; sl = stride;
    const size_t PG = 4096;
    size_t ext = sz ? ((sz - 1) * stride + n) * 8 : 0;
    map_len = PG + (off + ext + PG - 1) / PG * PG + PG;
    void* q = mmap(0, map_len, PROT_NONE, MAP_PRIVATE | MAP_ANONYMOUS | MAP_NORESERVE, -1, 0);
    if (q == MAP_FAILED) machinery_error("mmap of %zu bytes (PROT_NONE, NORESERVE) failed", map_len);
    base = (uint8_t*)q;
    p = (int64_t*)(base + PG + off);
    for (uint64_t i = 0; i < sz; ++i) {
      size_t lo = (PG + off + i * stride * 8) / PG * PG, hi = (PG + off + i * stride * 8 + n * 8 + PG - 1) / PG * PG;
      if (!win.empty() && lo <= win.back().first + win.back().second) {
        size_t e = std::max(win.back().first + win.back().second, hi);
        win.back().second = e - win.back().first;
      } else win.push_back({lo, hi - lo});
    }
    for (auto& w : win) {
      if (mprotect(base + w.first, w.second, PROT_READ | PROT_WRITE)) machinery_error("mprotect");
      memset(base + w.first, CAN, w.second);
    }
  }
  int64_t* limb(uint64_t i) { return p + i * sl; }
  bool in_payload(size_t byte_off_from_p) const {
    uint64_t e = byte_off_from_p / 8;
    return sl && e / sl < size && e % sl < N;
  }
  // every accessible byte outside the limbs still holds the canary
  bool canaries_ok() const {
    const uint8_t* p8 = (const uint8_t*)p;
    for (auto& w : win)
      for (size_t o = 0; o < w.second; ++o) {
        const uint8_t* a = base + w.first + o;
        if (a >= p8 && in_payload((size_t)(a - p8))) continue;
        if (*a != CAN) return false;
      }
    return true;
  }
  void release() { if (base) munmap(base, map_len); base = 0; p = 0; win.clear(); }
  ~SparseVec() { release(); }
};

// the stride alphabet: byte offset of limb 1 beyond 2^31 / 2^32, element offset beyond 2^31 / 2^32, and a stride whose low 32 bits are
// a small legal-looking stride (truncation to 32 bits gives N+1)
inline std::vector<uint64_t> huge_strides(uint64_t N) {
  return {(UINT64_C(1) << 28) + N + 1, (UINT64_C(1) << 29) + N, (UINT64_C(1) << 31) + N + 3, (UINT64_C(1) << 32) + N + 1};
}

inline void model_limb(char model, uint64_t N, int64_t p, const int64_t* la, const int64_t* lb, int64_t* lr) {
  switch (model) {
    case 'z': for (uint64_t j = 0; j < N; ++j) lr[j] = 0; break;
    case 'c': for (uint64_t j = 0; j < N; ++j) lr[j] = la[j]; break;
    case 'n': for (uint64_t j = 0; j < N; ++j) lr[j] = -la[j]; break;
    case '+': for (uint64_t j = 0; j < N; ++j) lr[j] = la[j] + lb[j]; break;
    case '-': for (uint64_t j = 0; j < N; ++j) lr[j] = la[j] - lb[j]; break;
    case 'r': ref_rotate(N, p, lr, la); break;
    case 'a': ref_automorphism(N, p, lr, la); break;
  }
}

// element-wise family on huge strides: every non-empty subset of {res, a, b} gets the huge stride (big operands keep stride N by
// definition), limb counts 2 and 3 (so that i*sl is exercised for i = 1 and 2), exact model per limb.
inline void huge_stride_vecops(Ctx& ctx, uint64_t N, int opi, int mtype, const CpuCfg& cfg) {
  const VecOp& op = VECOPS[opi];
  MODULE* mod = get_module(N, mtype == 0 ? FFT64 : NTT120, cfg);
  const char* mt = mtype == 0 ? "fft64" : "ntt120";
  std::vector<int64_t> la(N), lb(N), lr(N);
  for (uint64_t H : huge_strides(N))
    for (int mask = 1; mask < 8; ++mask) {
      const bool hr = mask & 1, ha = mask & 2, hb = mask & 4;
      if ((hr && op.res_big) || (ha && (op.a_big || op.nin < 1)) || (hb && (op.b_big || op.nin < 2))) continue;
      for (uint64_t sz : {2, 3}) {
        VecShape s; s.N = N; s.rs = sz; s.as = sz == 2 ? 3 : 2; s.bs = sz; s.rsl = hr ? H : N + 1; s.asl = ha ? H : N + 1; s.bsl = hb ? H : N;
        s.p = op.model == 'r' ? 3 : op.model == 'a' ? 5 : 0;
        s = canon_shape(op, s);
        std::string id = vecshape_id(op, s, mt, cfg.name) + "|huge-stride";
        if (!ctx.want(id)) continue;
        ctx.begin_case(id);
        SparseVec R, A, B;
        R.init(N, s.rs, s.rsl, 8 * (sz & 1)); A.init(N, s.as, s.asl, 16); B.init(N, s.bs, s.bsl, 0);
        for (uint64_t i = 0; i < s.rs; ++i) prefill(R.limb(i), N * 8, 1);
        for (uint64_t i = 0; i < s.as; ++i) for (uint64_t j = 0; j < N; ++j) A.limb(i)[j] = vec_a_value(i * N + j);
        for (uint64_t i = 0; i < s.bs; ++i) for (uint64_t j = 0; j < N; ++j) B.limb(i)[j] = vec_b_value(i * N + j);
        call_vecop(mod, op, s, R.p, op.nin >= 1 ? A.p : 0, op.nin >= 2 ? B.p : 0);
        std::string err;
        for (uint64_t i = 0; i < s.rs && err.empty(); ++i) {
          for (uint64_t j = 0; j < N; ++j) { la[j] = (op.nin >= 1 && i < s.as) ? vec_a_value(i * N + j) : 0; lb[j] = (op.nin >= 2 && i < s.bs) ? vec_b_value(i * N + j) : 0; }
          model_limb(op.model, N, s.p, la.data(), lb.data(), lr.data());
          for (uint64_t j = 0; j < N; ++j) if (R.limb(i)[j] != lr[j]) { err = sfmt("limb %llu coefficient %llu is %lld, the model says %lld", (unsigned long long)i, (unsigned long long)j, (long long)R.limb(i)[j], (long long)lr[j]); break; }
        }
        for (uint64_t i = 0; i < s.as && err.empty(); ++i) for (uint64_t j = 0; j < N; ++j) if (A.limb(i)[j] != vec_a_value(i * N + j)) { err = "input a modified"; break; }
        for (uint64_t i = 0; i < s.bs && err.empty(); ++i) for (uint64_t j = 0; j < N; ++j) if (B.limb(i)[j] != vec_b_value(i * N + j)) { err = "input b modified"; break; }
        if (err.empty() && !(R.canaries_ok() && A.canaries_ok() && B.canaries_ok())) err = "bytes outside the limbs were written";
        if (!err.empty()) ctx.violation(id, err);
        ctx.end_case(true);
      }
    }
}

// ---- every other strided entry point: differential against the same call on compact (stride N) copies, results must be bit-identical ----
struct HsData { std::vector<int64_t> v; uint64_t N, size; const int64_t* limb(uint64_t i) const { return v.data() + i * N; } };
inline HsData hs_data(uint64_t N, uint64_t size, uint64_t seed, int bits) {
  HsData d; d.N = N; d.size = size; d.v.resize(N * size);
  Rng r(seed);
  for (auto& x : d.v) x = r.sym((INT64_C(1) << bits) - 1);
  return d;
}
inline void hs_fill(SparseVec& V, const HsData& d) { for (uint64_t i = 0; i < d.size; ++i) memcpy(V.limb(i), d.limb(i), d.N * 8); }
inline bool hs_same(SparseVec& V, const HsData& d) { for (uint64_t i = 0; i < d.size; ++i) if (memcmp(V.limb(i), d.limb(i), d.N * 8)) return false; return true; }

inline void huge_stride_transforms(Ctx& ctx, uint64_t N, const CpuCfg& cfg) {
  MODULE* mod = get_module(N, FFT64, cfg);
  MODULE* modn = cfg.avx2 ? get_module(N, NTT120, cfg) : 0;
  const uint64_t k = 10;
  for (uint64_t H : huge_strides(N))
    for (uint64_t sz : {2, 3}) {
      auto idof = [&](const char* what) { return sfmt("huge-stride|%s|%s|N=%llu|sl=%llu|limbs=%llu", what, cfg.name, (unsigned long long)N, (unsigned long long)H, (unsigned long long)sz); };
      // 1. vec_znx_normalize_base2k: huge res, huge a, both
      for (int mask = 1; mask < 4; ++mask) {
        std::string id = idof(mask == 1 ? "vec_znx_normalize_base2k(res huge)" : mask == 2 ? "vec_znx_normalize_base2k(a huge)" : "vec_znx_normalize_base2k(res and a huge)");
        if (!ctx.want(id)) continue;
        ctx.begin_case(id);
        const uint64_t rs = sz, as = sz == 2 ? 3 : 2;
        HsData da = hs_data(N, as, 17 + sz, 45);
        SparseVec R, A; R.init(N, rs, (mask & 1) ? H : N + 1, 8); A.init(N, as, (mask & 2) ? H : N + 3, 16);
        hs_fill(A, da);
        for (uint64_t i = 0; i < rs; ++i) prefill(R.limb(i), N * 8, 1);
        GBuf tmp(vec_znx_normalize_base2k_tmp_bytes(mod)), tmp2(vec_znx_normalize_base2k_tmp_bytes(mod)), ref(N * rs * 8);
        vec_znx_normalize_base2k(mod, k, R.p, rs, R.sl, A.p, as, A.sl, tmp.p);
        vec_znx_normalize_base2k(mod, k, ref.as<int64_t>(), rs, N, da.v.data(), as, N, tmp2.p);
        std::string err;
        for (uint64_t i = 0; i < rs; ++i) if (memcmp(R.limb(i), ref.as<int64_t>() + i * N, N * 8)) { err = sfmt("limb %llu differs from the same call with stride N", (unsigned long long)i); break; }
        if (err.empty() && !hs_same(A, da)) err = "source modified";
        if (err.empty() && !(R.canaries_ok() && A.canaries_ok() && tmp.guards_ok())) err = "bytes outside the limbs / scratch were written";
        if (!err.empty()) ctx.violation(id, err);
        ctx.end_case(true);
      }
      // 2./3. big normalisations into a huge-stride result
      for (int v = 0; v < 2; ++v) {
        std::string id = idof(v == 0 ? "vec_znx_big_normalize_base2k(res huge)" : "vec_znx_big_range_normalize_base2k(res huge)");
        if (!ctx.want(id)) continue;
        ctx.begin_case(id);
        const uint64_t as = v == 0 ? 3 : 5, rs = sz;
        HsData da = hs_data(N, as, 23 + sz, 45);
        GBuf big(bytes_of_vec_znx_big(mod, as)); memcpy(big.p, da.v.data(), N * as * 8);
        SparseVec R; R.init(N, rs, H, 24);
        for (uint64_t i = 0; i < rs; ++i) prefill(R.limb(i), N * 8, 2);
        uint64_t tb = v == 0 ? vec_znx_big_normalize_base2k_tmp_bytes(mod) : vec_znx_big_range_normalize_base2k_tmp_bytes(mod);
        GBuf tmp(tb), tmp2(tb), ref(N * rs * 8);
        if (v == 0) { vec_znx_big_normalize_base2k(mod, k, R.p, rs, R.sl, (VEC_ZNX_BIG*)big.p, as, tmp.p);
                      vec_znx_big_normalize_base2k(mod, k, ref.as<int64_t>(), rs, N, (VEC_ZNX_BIG*)big.p, as, tmp2.p); }
        else { vec_znx_big_range_normalize_base2k(mod, k, R.p, rs, R.sl, (VEC_ZNX_BIG*)big.p, 0, 5, 2, tmp.p);
               vec_znx_big_range_normalize_base2k(mod, k, ref.as<int64_t>(), rs, N, (VEC_ZNX_BIG*)big.p, 0, 5, 2, tmp2.p); }
        std::string err;
        for (uint64_t i = 0; i < rs; ++i) if (memcmp(R.limb(i), ref.as<int64_t>() + i * N, N * 8)) { err = sfmt("limb %llu differs from the same call with stride N", (unsigned long long)i); break; }
        if (err.empty() && memcmp(big.p, da.v.data(), N * as * 8)) err = "source modified";
        if (err.empty() && !(R.canaries_ok() && tmp.guards_ok() && big.guards_ok())) err = "bytes outside the limbs / scratch were written";
        if (!err.empty()) ctx.violation(id, err);
        ctx.end_case(true);
      }
      // 4. vec_znx_dft from a huge-stride source (both module types), 5. svp_apply_dft, 6. vmp_apply_dft
      for (int v = 0; v < 4; ++v) {
        if (v == 1 && !modn) continue;
        const char* names[4] = {"vec_znx_dft fft64(a huge)", "vec_znx_dft ntt120(a huge)", "svp_apply_dft(a huge)", "vmp_apply_dft(a huge)"};
        std::string id = idof(names[v]);
        if (!ctx.want(id)) continue;
        ctx.begin_case(id);
        const uint64_t as = sz, rs = v == 3 ? 2 : sz + 1;
        HsData da = hs_data(N, as, 31 + sz + v, v == 1 ? 62 : 20);
        SparseVec A; A.init(N, as, H, 8 * (v & 1));
        hs_fill(A, da);
        const MODULE* M = v == 1 ? modn : mod;
        size_t ob = v == 1 ? N * 32 * rs : bytes_of_vec_znx_dft(mod, rs);
        GBuf out(ob), ref(ob);
        prefill(out.p, ob, 1); prefill(ref.p, ob, 1);
        std::string err;
        if (v <= 1) {
          vec_znx_dft(M, (VEC_ZNX_DFT*)out.p, rs, A.p, as, A.sl);
          vec_znx_dft(M, (VEC_ZNX_DFT*)ref.p, rs, da.v.data(), as, N);
        } else if (v == 2) {
          HsData dp = hs_data(N, 1, 77, 10);
          GBuf pp(bytes_of_svp_ppol(mod));
          svp_prepare(mod, (SVP_PPOL*)pp.p, dp.v.data());
          svp_apply_dft(mod, (VEC_ZNX_DFT*)out.p, rs, (SVP_PPOL*)pp.p, A.p, as, A.sl);
          svp_apply_dft(mod, (VEC_ZNX_DFT*)ref.p, rs, (SVP_PPOL*)pp.p, da.v.data(), as, N);
        } else {
          const uint64_t nr = as, nc = 2;
          HsData dm = hs_data(N, nr * nc, 91, 10);
          GBuf pm(bytes_of_vmp_pmat(mod, nr, nc)), t0(vmp_prepare_contiguous_tmp_bytes(mod, nr, nc));
          vmp_prepare_contiguous(mod, (VMP_PMAT*)pm.p, dm.v.data(), nr, nc, t0.p);
          uint64_t tb = vmp_apply_dft_tmp_bytes(mod, rs, as, nr, nc);
          GBuf t1(tb), t2(tb);
          vmp_apply_dft(mod, (VEC_ZNX_DFT*)out.p, rs, A.p, as, A.sl, (VMP_PMAT*)pm.p, nr, nc, t1.p);
          vmp_apply_dft(mod, (VEC_ZNX_DFT*)ref.p, rs, da.v.data(), as, N, (VMP_PMAT*)pm.p, nr, nc, t2.p);
          if (!t1.guards_ok()) err = "write outside the scratch space";
        }
        if (err.empty() && memcmp(out.p, ref.p, ob)) err = "result differs from the same call with stride N";
        if (err.empty() && !hs_same(A, da)) err = "source modified";
        if (err.empty() && !(A.canaries_ok() && out.guards_ok())) err = "bytes outside the limbs / the output were written";
        if (!err.empty()) ctx.violation(id, err);
        ctx.end_case(true);
      }
    }
}

}  // namespace vf
