// Guarded buffers of exactly the declared extent, CPU-mask hook, limb-vector helpers.
#pragma once
#include <sys/mman.h>
#include "common.hpp"
#include "allocwrap.hpp"

#if defined(__SANITIZE_ADDRESS__)
#define VF_ASAN 1
extern "C" void __asan_poison_memory_region(void const volatile* addr, size_t size);
extern "C" void __asan_unpoison_memory_region(void const volatile* addr, size_t size);
#else
#define VF_ASAN 0
#endif

// ---- CPU-feature mask consulted by the library's dispatchers (hook, guard SPQLIOS_VERIF) ----
extern "C" {
int vf_cpu_allow_avx2 = 1;
int vf_cpu_allow_fma = 1;
int spqlios_verif_cpu_allows(const char* feature) {
  if (!strcmp(feature, "avx2")) return vf_cpu_allow_avx2;
  if (!strcmp(feature, "fma")) return vf_cpu_allow_fma;
  return 1;
}
}

namespace vf {

struct CpuCfg { const char* name; int avx2, fma; };
static const CpuCfg CFG_NATIVE = {"native", 1, 1};
static const CpuCfg CFG_GENERIC = {"generic", 0, 0};
static const CpuCfg CFG_AVX2_NOFMA = {"avx2-nofma", 1, 0};
static const CpuCfg CFG_FMA_NOAVX2 = {"fma-noavx2", 0, 1};
inline void set_cfg(const CpuCfg& c) { vf_cpu_allow_avx2 = c.avx2; vf_cpu_allow_fma = c.fma; }
inline std::vector<CpuCfg> cfgs(bool thorough) {
  std::vector<CpuCfg> v = {CFG_NATIVE, CFG_GENERIC};
  if (thorough) { v.push_back(CFG_AVX2_NOFMA); v.push_back(CFG_FMA_NOAVX2); }
  return v;
}

// A buffer of exactly `bytes` bytes whose start is (64-aligned base + off).  Under ASan the
// allocation ends exactly at the end of the payload (right red zone) and the `off` leading bytes
// are poisoned (left red zone); without ASan both sides carry canaries that are checked.
struct GBuf {
  uint8_t* base = 0;
  uint8_t* p = 0;
  size_t bytes = 0, off = 0, lg = 0, rg = 0, total = 0;
  static const uint8_t CAN = 0xC7;
  GBuf() {}
  GBuf(size_t nbytes, size_t offset = 0) { init(nbytes, offset); }
  GBuf(const GBuf&) = delete;
  GBuf& operator=(const GBuf&) = delete;
  void init(size_t nbytes, size_t offset = 0) {
    release();
    bytes = nbytes; off = offset;
#if VF_ASAN
    lg = off; rg = 0;
#else
    lg = 256 + off; rg = 256;
    lg = (lg + 63) / 64 * 64 + off;  // keeps (base+lg) % 64 == off
#endif
    total = lg + bytes + rg;
    size_t alloc = (total + 63) / 64 * 64;
    if (alloc == 0) alloc = 64;
#if VF_ASAN
    // aligned_alloc(64, n) requires n % 64 == 0 in strict mode; use posix_memalign with the exact size
    void* q = 0;
    if (__real_posix_memalign(&q, 64, total ? total : 1)) machinery_error("posix_memalign");
    base = (uint8_t*)q;
    p = base + lg;
    if (lg) __asan_poison_memory_region(base, lg);
#else
    base = (uint8_t*)__real_aligned_alloc(64, alloc);
    if (!base) machinery_error("aligned_alloc");
    p = base + lg;
    memset(base, CAN, lg);
    memset(p + bytes, CAN, rg);
#endif
  }
  // page mode: the buffer lives in its own mapping (start at `offset` from a page boundary) so that it can be made read-only
  // for the duration of a call: a write into a const operand faults even if the old value is put back afterwards
  bool paged = false; size_t map_len = 0;
  void init_pages(size_t nbytes, size_t offset = 0) {
    release();
    bytes = nbytes; off = offset; lg = rg = 0; paged = true;
    map_len = (offset + nbytes + 4095) / 4096 * 4096 + 4096;  // one spare page behind: reading past the end is not this trap's business
    void* q = mmap(0, map_len, PROT_READ | PROT_WRITE, MAP_PRIVATE | MAP_ANONYMOUS, -1, 0);
    if (q == MAP_FAILED) machinery_error("mmap");
    base = (uint8_t*)q; p = base + offset; total = map_len;
  }
  void protect(bool on) { if (paged && base && mprotect(base, map_len, on ? PROT_READ : (PROT_READ | PROT_WRITE))) machinery_error("mprotect"); }
  bool contains(const void* a) const { return base && (const uint8_t*)a >= base && (const uint8_t*)a < base + (paged ? map_len : total); }
  void release() {
    if (base && paged) { munmap(base, map_len); base = p = 0; paged = false; return; }
    if (base) {
#if VF_ASAN
      if (lg) __asan_unpoison_memory_region(base, lg);
#endif
      __real_free(base);
    }
    base = p = 0;
  }
  ~GBuf() { release(); }
  // true iff the canaries are intact (always true under ASan, which traps instead)
  bool guards_ok() const {
#if !VF_ASAN
    for (size_t i = 0; i < lg; ++i) if (base[i] != CAN) return false;
    for (size_t i = 0; i < rg; ++i) if (p[bytes + i] != CAN) return false;
#endif
    return true;
  }
  void fill(uint8_t v) { if (bytes) memset(p, v, bytes); }
  template <class T> T* as() { return (T*)p; }
};

// number of int64 elements of a limb vector (size limbs, stride sl, ring dimension n)
inline size_t limbvec_elems(uint64_t n, uint64_t size, uint64_t sl) { return size ? (size - 1) * sl + n : 0; }

// prefill patterns for outputs / scratch
inline void prefill(void* p, size_t bytes, int pattern) {
  if (!bytes) return;
  if (pattern == 0) memset(p, 0, bytes);
  else if (pattern == 1) memset(p, 0xFF, bytes);
  else {
    // signalling-NaN-like pattern, 8 bytes periodic, tolerant of odd sizes
    static const uint8_t pat[8] = {0x01, 0x00, 0x00, 0x00, 0x00, 0x00, 0xF4, 0x7F};
    uint8_t* b = (uint8_t*)p;
    for (size_t i = 0; i < bytes; ++i) b[i] = pat[i & 7];
  }
}

}  // namespace vf
