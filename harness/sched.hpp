// Engine C: serialising scheduler with iterative context bounding.
// Harness threads run real API calls; exactly one thread runs at a time (futex hand-off).  Scheduling
// points are thread start / end and every interposed library-internal call (signature-agnostic
// assembly trampolines defined in the executable take precedence over the library's own symbols
// because libspq.so is built -fPIC with semantic interposition).
#pragma once
#include <dlfcn.h>
#include <linux/futex.h>
#include <pthread.h>
#include <sys/syscall.h>
#include "common.hpp"

namespace vf {

static const int SCHED_MAXT = 4;
struct SchedPoint { uint8_t running; uint8_t running_enabled; uint8_t n_enabled; uint8_t choice; const char* label; };

struct Sched {
  volatile int active = 0;
  int nthreads = 0;
  volatile int turn = -1;            // thread allowed to run (-1: controller)
  volatile int st[SCHED_MAXT];       // 0 = not finished, 1 = finished
  std::vector<int> prefix;           // forced choices
  std::vector<SchedPoint> points;    // recorded decisions of this execution
  int preemptions = 0;
  bool diverged = false;             // a forced choice was out of range: replay divergence (machinery error)
  std::vector<std::string> call_log; // labels of interposed calls in execution order (thread:label)
  bool log_calls = false;
};
inline Sched& sched() { static Sched s; return s; }
static __thread int sched_tid = -1;

inline void futex_wait(volatile int* addr, int val) { syscall(SYS_futex, addr, FUTEX_WAIT, val, 0, 0, 0); }
inline void futex_wake_all(volatile int* addr) { syscall(SYS_futex, addr, FUTEX_WAKE, 64, 0, 0, 0); }
inline void sched_wait_turn(int me) { Sched& S = sched(); for (;;) { int t = S.turn; if (t == me) return; futex_wait(&S.turn, t); } }

// decision taken by the running thread `cur` (cur = -1: the controller starting the execution)
inline void sched_decide(int cur, const char* label) {
  Sched& S = sched();
  int order[SCHED_MAXT], n = 0;
  bool cur_enabled = cur >= 0 && !S.st[cur];
  if (cur_enabled) order[n++] = cur;
  for (int t = 0; t < S.nthreads; ++t) if (t != cur && !S.st[t]) order[n++] = t;
  if (n == 0) { S.turn = -1; futex_wake_all(&S.turn); return; }  // everything finished: back to the controller
  int c = 0;
  size_t pos = S.points.size();
  if (pos < S.prefix.size()) { c = S.prefix[pos]; if (c >= n) { S.diverged = true; c = 0; } }
  SchedPoint p; p.running = (uint8_t)(cur < 0 ? 255 : cur); p.running_enabled = cur_enabled; p.n_enabled = (uint8_t)n; p.choice = (uint8_t)c; p.label = label;
  S.points.push_back(p);
  int next = order[c];
  if (cur_enabled && next != cur) S.preemptions++;
  if (next != cur) {
    S.turn = next;
    futex_wake_all(&S.turn);
    if (cur_enabled) sched_wait_turn(cur);
  }
}

extern "C" void vf_sched_point(const char* label) {
  Sched& S = sched();
  if (!S.active || sched_tid < 0) return;
  if (S.log_calls) S.call_log.push_back(sfmt("%d:%s", sched_tid, label));
  sched_decide(sched_tid, label);
}

struct SchedThreadArg { int id; std::function<void()> body; };
inline void* sched_thread_main(void* a) {
  SchedThreadArg* arg = (SchedThreadArg*)a;
  sched_tid = arg->id;
  sched_wait_turn(arg->id);
  arg->body();
  Sched& S = sched();
  S.st[arg->id] = 1;
  sched_decide(arg->id, "thread end");
  sched_tid = -1;
  return 0;
}

// one execution under the given forced prefix; returns false on replay divergence
inline bool sched_run(const std::vector<std::function<void()>>& bodies, const std::vector<int>& prefix) {
  Sched& S = sched();
  S.nthreads = (int)bodies.size();
  S.prefix = prefix; S.points.clear(); S.preemptions = 0; S.diverged = false; S.call_log.clear();
  for (int t = 0; t < SCHED_MAXT; ++t) S.st[t] = 0;
  S.turn = -1;
  S.active = 1;
  pthread_t th[SCHED_MAXT];
  SchedThreadArg args[SCHED_MAXT];
  for (int t = 0; t < S.nthreads; ++t) { args[t].id = t; args[t].body = bodies[t]; if (pthread_create(&th[t], 0, sched_thread_main, &args[t])) machinery_error("pthread_create failed"); }
  sched_decide(-1, "start");
  // wait until everything finished (turn returns to -1 with all st set)
  for (;;) { bool all = true; for (int t = 0; t < S.nthreads; ++t) if (!S.st[t]) all = false; if (all && S.turn == -1) break; int tv = S.turn; if (tv != -1) futex_wait(&S.turn, tv); else if (!all) sched_yield(); }
  for (int t = 0; t < S.nthreads; ++t) pthread_join(th[t], 0);
  S.active = 0;
  return !S.diverged;
}

// iterative context bounding: every schedule with at most `bound` preemptions
struct SchedExplore {
  uint64_t executions = 0, max_points = 0, capped = 0;
  // check(points) is called after each execution; returns false to stop
  void run(const std::vector<std::function<void()>>& bodies, int bound, const std::function<bool(const std::vector<int>& prefix)>& check, uint64_t max_exec, const std::function<bool()>& past_deadline) {
    std::vector<std::vector<int>> stack;
    stack.push_back({});
    while (!stack.empty()) {
      if (executions >= max_exec || past_deadline()) { capped = 1; return; }
      std::vector<int> prefix = stack.back(); stack.pop_back();
      if (!sched_run(bodies, prefix)) machinery_error("scheduler: divergence while replaying a schedule prefix (nondeterminism not captured)");
      ++executions;
      Sched& S = sched();
      std::vector<SchedPoint> pts = S.points;
      max_points = std::max<uint64_t>(max_points, pts.size());
      std::vector<int> choices(pts.size());
      for (size_t i = 0; i < pts.size(); ++i) choices[i] = pts[i].choice;
      if (!check(choices)) return;
      // preemptions before point i
      int pre = 0;
      std::vector<int> pre_before(pts.size(), 0);
      for (size_t i = 0; i < pts.size(); ++i) { pre_before[i] = pre; if (pts[i].running_enabled && pts[i].choice != 0) pre++; }
      for (size_t i = pts.size(); i-- > prefix.size();) {
        int cost = pre_before[i] + (pts[i].running_enabled ? 1 : 0);
        if (cost > bound) continue;
        for (int alt = 1; alt < pts[i].n_enabled; ++alt) { std::vector<int> np(choices.begin(), choices.begin() + i); np.push_back(alt); stack.push_back(np); }
      }
    }
  }
};

}  // namespace vf

// ---- interposition trampolines -------------------------------------------------------------------------
// name:  save argument registers, call vf_sched_point("name"), restore, tail-jump to the library's function
#define VF_INTERPOSE(name)                                                                                   \
  extern "C" { void* vf_real_##name = 0; }                                                                  \
  __asm__(".text\n.globl " #name "\n.type " #name ",@function\n" #name ":\n"                               \
          "  pushq %rbp\n  movq %rsp, %rbp\n  subq $192, %rsp\n"                                            \
          "  movq %rdi, 0(%rsp)\n  movq %rsi, 8(%rsp)\n  movq %rdx, 16(%rsp)\n  movq %rcx, 24(%rsp)\n"      \
          "  movq %r8, 32(%rsp)\n  movq %r9, 40(%rsp)\n  movq %rax, 48(%rsp)\n"                             \
          "  movdqu %xmm0, 64(%rsp)\n  movdqu %xmm1, 80(%rsp)\n  movdqu %xmm2, 96(%rsp)\n  movdqu %xmm3, 112(%rsp)\n" \
          "  movdqu %xmm4, 128(%rsp)\n  movdqu %xmm5, 144(%rsp)\n  movdqu %xmm6, 160(%rsp)\n  movdqu %xmm7, 176(%rsp)\n" \
          "  leaq vf_str_" #name "(%rip), %rdi\n  call vf_sched_point\n"                                    \
          "  movq 0(%rsp), %rdi\n  movq 8(%rsp), %rsi\n  movq 16(%rsp), %rdx\n  movq 24(%rsp), %rcx\n"      \
          "  movq 32(%rsp), %r8\n  movq 40(%rsp), %r9\n  movq 48(%rsp), %rax\n"                             \
          "  movdqu 64(%rsp), %xmm0\n  movdqu 80(%rsp), %xmm1\n  movdqu 96(%rsp), %xmm2\n  movdqu 112(%rsp), %xmm3\n" \
          "  movdqu 128(%rsp), %xmm4\n  movdqu 144(%rsp), %xmm5\n  movdqu 160(%rsp), %xmm6\n  movdqu 176(%rsp), %xmm7\n" \
          "  leave\n  jmp *vf_real_" #name "(%rip)\n"                                                        \
          ".size " #name ", .-" #name "\n"                                                                   \
          ".section .rodata\nvf_str_" #name ": .asciz \"" #name "\"\n.text\n");                              \
  static void __attribute__((constructor)) vf_resolve_##name() { vf_real_##name = dlsym(RTLD_NEXT, #name); }
