// Allocation tracking of the library's allocations.  Every check executable (and libspq.so) is
// linked with --wrap=malloc,free,aligned_alloc,calloc,realloc,posix_memalign; the wrappers below
// forward to the real allocator and, while tracking is switched on, record the live blocks.
#pragma once
#include <cstddef>
#include <cstdint>
#include <cstdlib>
#include <cstring>
#include <malloc.h>

extern "C" {
void* __real_malloc(size_t);
void __real_free(void*);
void* __real_aligned_alloc(size_t, size_t);
void* __real_calloc(size_t, size_t);
void* __real_realloc(void*, size_t);
int __real_posix_memalign(void**, size_t, size_t);
}

namespace vf {
struct AllocRec { void* p; size_t size; int live; };
static const int ALLOC_CAP = 1 << 15;
struct AllocTrack {
  volatile int on = 0;
  // content of freshly allocated (malloc / aligned_alloc / posix_memalign / grown realloc) memory: it is indeterminate, so the
  // harness decides it - -1 leaves whatever the allocator returns, 0..255 fills the block with that byte (calloc stays zero)
  volatile int poison = -1;
  void fresh(void* p, size_t s) { if (poison >= 0 && p && s) memset(p, poison, s); }
  // content of a block once it has been freed: equally indeterminate (the allocator may hand it out again, scribble its own lists into it
  // or unmap it) - 0..255 fills every tracked block with that byte at the moment it is freed, so that a later use of the freed object
  // (a table released too early, a reference count that went wrong) reads garbage instead of the old content; -1 leaves it alone
  volatile int poison_free = -1;
  // which ADDRESS a new block gets is an environment answer too: with recycle = 1 (and tracking on) a freed block is kept and handed
  // out again, most recent first, to the next request of exactly the same size - what a thread cache does.  A cache keyed on the
  // address of an object that has been deleted then meets a new object at that very address.
  volatile int recycle = 0;
  struct Freed { void* p; size_t size; };
  Freed pool[512]; int npool = 0;
  volatile int pool_lock = 0;   // the pool is used from several threads in the scheduler scenarios
  void lock() { while (__sync_lock_test_and_set(&pool_lock, 1)) {} }
  void unlock() { __sync_lock_release(&pool_lock); }
  void* take(size_t s, size_t align) {
    if (!recycle || !on) return 0;
    lock();
    void* r = 0;
    for (int i = npool - 1; i >= 0; --i) if (pool[i].size == s && ((uintptr_t)pool[i].p % (align ? align : 16)) == 0) { r = pool[i].p; pool[i] = pool[npool - 1]; npool--; break; }
    unlock();
    return r;
  }
  bool keep(void* p, size_t s) {
    if (!recycle || !on || !s || nshift || residue >= 0) return false;
    lock();
    bool ok = npool < 512;
    if (ok) { pool[npool].p = p; pool[npool].size = s; npool++; }
    unlock();
    return ok;
  }
  // address of malloc / calloc / realloc blocks modulo 64 (malloc only promises 16): -1 leaves the allocator alone, 0/16/32/48 makes
  // every such block start at that residue, its END still being the end of the underlying allocation (so overruns stay visible)
  volatile int residue = -1;
  struct Shift { void* p; void* base; };
  Shift shifts[4096]; int nshift = 0;
  void* shifted_alloc(size_t s) {
    void* b = 0;
    if (__real_posix_memalign(&b, 64, (size_t)residue + (s ? s : 1))) return 0;
    void* p = (uint8_t*)b + residue;
    if (nshift < 4096) { shifts[nshift].p = p; shifts[nshift].base = b; nshift++; }
    return p;
  }
  void* shifted_base(void* p) { for (int i = nshift - 1; i >= 0; --i) if (shifts[i].p == p) { void* b = shifts[i].base; shifts[i] = shifts[nshift - 1]; nshift--; return b; } return 0; }
  int n = 0;
  long allocs = 0, frees = 0, unknown_frees = 0;
  // arena mode (Engine B): page-granular blocks carved from one mapping so that they can be sealed
  uint8_t* arena = 0; size_t arena_size = 0, arena_used = 0;
  AllocRec rec[ALLOC_CAP];
  void reset() { n = 0; allocs = frees = unknown_frees = 0; }
  long live_blocks() const { long c = 0; for (int i = 0; i < n; ++i) c += rec[i].live; return c; }
  size_t live_bytes() const { size_t c = 0; for (int i = 0; i < n; ++i) if (rec[i].live) c += rec[i].size; return c; }
  void add(void* p, size_t s) { allocs++; if (n < ALLOC_CAP) { rec[n].p = p; rec[n].size = s; rec[n].live = 1; n++; } }
  bool in_arena(void* p) const { return arena && (uint8_t*)p >= arena && (uint8_t*)p < arena + arena_size; }
  size_t del(void* p) {
    if (!p) return 0;
    frees++;
    for (int i = n - 1; i >= 0; --i) if (rec[i].p == p && rec[i].live) { rec[i].live = 0; return rec[i].size; }
    unknown_frees++;
    return 0;
  }
  void* arena_alloc(size_t align, size_t s) {
    if (align < 64) align = 64;
    size_t start = (arena_used + align - 1) / align * align;
    size_t need = (s + 63) / 64 * 64;
    if (start + need > arena_size) return 0;
    arena_used = start + need;
    return arena + start;
  }
};
inline AllocTrack& alloc_track() { static AllocTrack t; return t; }
}  // namespace vf

extern "C" {
void* __wrap_malloc(size_t s) {
  vf::AllocTrack& t = vf::alloc_track();
  if (void* q = t.take(s, 16)) { t.add(q, s); t.fresh(q, s); return q; }
  if (t.on && t.arena) { void* p = t.arena_alloc(16, s); if (p) { t.add(p, s); t.fresh(p, s); return p; } }   // arena full: the ordinary allocator takes over
  void* p = (t.residue >= 0 && t.nshift < 4096) ? t.shifted_alloc(s) : __real_malloc(s);
  if (t.on && p) t.add(p, s);
  t.fresh(p, s);
  return p;
}
void __wrap_free(void* p) {
  vf::AllocTrack& t = vf::alloc_track();
  size_t fsz = 0;
  if (t.on) { fsz = t.del(p); if (fsz && t.poison_free >= 0) memset(p, t.poison_free, fsz); }
  if (fsz && t.keep(p, fsz)) return;
  if (t.in_arena(p)) return;
  if (t.nshift) { void* b = t.shifted_base(p); if (b) { __real_free(b); return; } }
  __real_free(p);
}
void* __wrap_aligned_alloc(size_t a, size_t s) {
  vf::AllocTrack& t = vf::alloc_track();
  if (void* q = t.take(s, a)) { t.add(q, s); t.fresh(q, s); return q; }
  if (t.on && t.arena) { void* p = t.arena_alloc(a, s); if (p) { t.add(p, s); t.fresh(p, s); return p; } }
  void* p = __real_aligned_alloc(a, s);
  if (t.on && p) t.add(p, s);
  t.fresh(p, s);
  return p;
}
void* __wrap_calloc(size_t n, size_t s) {
  vf::AllocTrack& t = vf::alloc_track();
  if (void* q = t.take(n * s, 16)) { memset(q, 0, n * s); t.add(q, n * s); return q; }
  if (t.on && t.arena) { void* p = t.arena_alloc(16, n * s); if (p) { memset(p, 0, n * s); t.add(p, n * s); return p; } }
  void* p;
  if (t.residue >= 0 && t.nshift < 4096) { p = t.shifted_alloc(n * s); if (p) memset(p, 0, n * s); }
  else p = __real_calloc(n, s);
  if (t.on && p) t.add(p, n * s);
  return p;
}
void* __wrap_realloc(void* q, size_t s) {
  vf::AllocTrack& t = vf::alloc_track();
  if (t.in_arena(q) || (t.on && t.arena)) {
    void* p = t.arena_alloc(16, s);
    if (!p) p = __real_malloc(s);   // arena full
    t.fresh(p, s);
    if (p && q) { size_t old = 0; for (int i = t.n - 1; i >= 0; --i) if (t.rec[i].p == q) { old = t.rec[i].size; break; } memcpy(p, q, old < s ? old : s); }
    if (t.on) { t.del(q); if (p) t.add(p, s); }
    return p;
  }
  if (t.residue >= 0 || (q && t.nshift)) {
    void* b = q ? t.shifted_base(q) : 0;
    if (q && !b && t.residue < 0) { void* p2 = __real_realloc(q, s); if (t.on) { t.del(q); if (p2) t.add(p2, s); } return p2; }
    // emulate: new block, copy (old size unknown for foreign blocks: only blocks made here are resized exactly)
    void* p2 = (t.residue >= 0 && t.nshift < 4096) ? t.shifted_alloc(s) : __real_malloc(s);
    if (p2 && q) { size_t old = b ? malloc_usable_size(b) - (size_t)((uint8_t*)q - (uint8_t*)b) : malloc_usable_size(q); memcpy(p2, q, old < s ? old : s); }
    if (q) { if (b) __real_free(b); else __real_free(q); }
    if (t.on) { t.del(q); if (p2) t.add(p2, s); }
    return p2;
  }
  void* p = __real_realloc(q, s);
  if (t.on) { t.del(q); if (p) t.add(p, s); }
  return p;
}
int __wrap_posix_memalign(void** r, size_t a, size_t s) {
  vf::AllocTrack& t = vf::alloc_track();
  if (void* q = t.take(s, a)) { *r = q; t.add(q, s); t.fresh(q, s); return 0; }
  if (t.on && t.arena) { void* p = t.arena_alloc(a, s); if (p) { *r = p; t.add(p, s); t.fresh(p, s); return 0; } }
  int rc = __real_posix_memalign(r, a, s);
  if (t.on && rc == 0) t.add(*r, s);
  if (rc == 0) t.fresh(*r, s);
  return rc;
}
}
