// apicase generators for the exported kernels (q120, reim, reim4, cplx, coefficient kernels).
// Every kernel has a recorded minimum size (its unroll width / dispatch domain); smaller sizes are
// out of domain and never generated.  Outputs of floating-point / lazy-modular kernels are marked
// "written, not judged byte-exactly" (mask 2); exact data-movement and integer kernels carry a model.
#pragma once
#include "apicase.hpp"
#include "oracle.hpp"
extern "C" {
#include "coeffs/coeffs_arithmetic.h"
#include "cplx/cplx_fft_internal.h"
#include "cplx/cplx_fft_private.h"
#include "q120/q120_arithmetic.h"
#include "q120/q120_arithmetic_private.h"
#include "q120/q120_ntt.h"
#include "q120/q120_ntt_private.h"
#include "reim/reim_fft_internal.h"
#include "reim/reim_fft_private.h"
#include "reim4/reim4_arithmetic.h"
#include "reim4/reim4_fftvec_internal.h"
#include "reim4/reim4_fftvec_private.h"
}

namespace vf {

struct KernelInfo { const void* table = 0; size_t table_bytes = 0; const char* family = ""; };
enum KFam { K_Q120_PROD, K_Q120_CONV, K_Q120_NTT, K_Q120_BLK, K_FFT, K_FFTVEC, K_CONV, K_REIM4, K_COEFF };
struct KernelGroup { KFam fam; uint64_t size; };

inline double kdouble(uint64_t idx) {
  static const double special[] = {0.0, -0.0, 1.0, -1.5, 0x1p40, -0x1p-40, 3.25, 1e-3};
  if (idx % 11 == 0) return special[(idx / 11) % 8];
  uint64_t h = (idx + 1) * 0x9E3779B97F4A7C15ull;
  return ((double)(int64_t)(h >> 40) - 8388608.0) / 1024.0;
}
inline void fill_doubles(Buf& b, uint64_t salt) { for (size_t i = 0; i < b.bytes / 8; ++i) { double v = kdouble(i + salt); memcpy(&b.init[i * 8], &v, 8); } }
inline void fill_u64(Buf& b, uint64_t salt, uint64_t mask = ~0ull) {
  for (size_t i = 0; i < b.bytes / 8; ++i) { uint64_t v = ((i + salt + 1) * 0x9E3779B97F4A7C15ull) & mask; if ((i + salt) % 13 == 0) v = mask; memcpy(&b.init[i * 8], &v, 8); }
}
inline void fill_u32(Buf& b, uint64_t salt) {
  for (size_t i = 0; i < b.bytes / 4; ++i) { uint32_t v = (uint32_t)(((i + salt + 1) * 0x9E3779B97F4A7C15ull) >> 32); if ((i + salt) % 13 == 0) v = ~0u; memcpy(&b.init[i * 4], &v, 4); }
}
inline int64_t vec_like_b(uint64_t e) { if (e == 0) return (INT64_C(1) << 62) - 1; if (e == 1) return (INT64_C(1) << 62) - 2; return probe62((UINT64_C(1) << 40) + e); }
inline void mask_all(Buf& b, uint8_t v) { if (b.bytes) memset(b.mask.data(), v, b.bytes); }

// allocation-tracked table constructor: returns the blocks allocated by ctor()
struct TrackedTable { void* obj = 0; std::vector<std::pair<uint8_t*, size_t>> blocks; };
template <class F> inline TrackedTable make_table(F ctor) {
  AllocTrack& at = alloc_track();
  int n0 = at.n, on0 = at.on;
  at.on = 1;
  TrackedTable t;
  t.obj = (void*)ctor();
  at.on = on0;
  for (int i = n0; i < at.n; ++i) if (at.rec[i].live) t.blocks.push_back({(uint8_t*)at.rec[i].p, at.rec[i].size});
  return t;
}

inline std::vector<KernelGroup> kernel_groups(bool thorough) {
  std::vector<KernelGroup> g;
  for (uint64_t ell : {0, 1, 2, 3, 7, 100, 10000}) g.push_back({K_Q120_PROD, ell});
  for (uint64_t nn : {1, 2, 4, 8, 64}) g.push_back({K_Q120_CONV, nn});
  for (uint64_t n = 1; n <= (thorough ? 65536u : 4096u); n *= 2) g.push_back({K_Q120_NTT, n});
  for (uint64_t nn : {2, 4, 8, 64}) g.push_back({K_Q120_BLK, nn});
  for (uint64_t m = 1; m <= (thorough ? 65536u : 4096u); m *= 2) g.push_back({K_FFT, m});
  for (uint64_t m = 1; m <= (thorough ? 4096u : 256u); m *= 2) { g.push_back({K_FFTVEC, m}); g.push_back({K_CONV, m}); }
  for (uint64_t m = 4; m <= (thorough ? 1024u : 64u); m *= 2) g.push_back({K_REIM4, m});
  for (uint64_t nn = 1; nn <= (thorough ? 1024u : 64u); nn *= 2) g.push_back({K_COEFF, nn});
  // sparse layer of large sizes (a path chosen by a size threshold - streaming stores, blocking, a wider unroll - is still met)
  for (uint64_t nn : {4096, 65536}) { g.push_back({K_Q120_CONV, nn}); g.push_back({K_COEFF, nn}); }
  for (uint64_t m : (thorough ? std::vector<uint64_t>{32768} : std::vector<uint64_t>{4096, 32768})) { g.push_back({K_FFTVEC, m}); g.push_back({K_CONV, m}); }
  for (uint64_t m : (thorough ? std::vector<uint64_t>{4096, 32768} : std::vector<uint64_t>{1024, 32768})) g.push_back({K_REIM4, m});
  if (!thorough) { g.push_back({K_FFT, 32768}); g.push_back({K_Q120_NTT, 65536}); }
  // large sizes first so that the load balances (the product groups keep their place: their size is ell)
  std::stable_sort(g.begin(), g.end(), [](const KernelGroup& a, const KernelGroup& b) {
    uint64_t ka = a.fam == K_Q120_PROD ? ~0ull : a.size, kb = b.fam == K_Q120_PROD ? ~0ull : b.size; return ka > kb; });
  return g;
}

#ifndef VF_PCM_DEFINED
#define VF_PCM_DEFINED
struct PCm { void* f; int64_t m; };
#endif
struct PCd { void* f; int64_t m; double divisor; };

typedef std::function<void(ApiCase&, const KernelInfo&)> KFn;

inline void run_kernel_group_base(const KernelGroup& G, bool thorough, const KFn& fn) {
  const uint64_t sz = G.size;
  switch (G.fam) {
    // --------------------------------------------------------------------------------------------
    case K_Q120_PROD: {
      const uint64_t ell = sz;
      static q120_mat1col_product_baa_precomp* paa = q120_new_vec_mat1col_product_baa_precomp();
      static q120_mat1col_product_bbb_precomp* pbb = q120_new_vec_mat1col_product_bbb_precomp();
      static q120_mat1col_product_bbc_precomp* pbc = q120_new_vec_mat1col_product_bbc_precomp();
      struct P { const char* name; int kind; void* f; };  // kind: 0 baa, 1 bbb, 2 bbc, 3 x2 1col, 4 x2 2cols
      P tab[] = {{"q120_vec_mat1col_product_baa_ref", 0, (void*)q120_vec_mat1col_product_baa_ref}, {"q120_vec_mat1col_product_baa_avx2", 0, (void*)q120_vec_mat1col_product_baa_avx2},
                 {"q120_vec_mat1col_product_bbb_ref", 1, (void*)q120_vec_mat1col_product_bbb_ref}, {"q120_vec_mat1col_product_bbb_avx2", 1, (void*)q120_vec_mat1col_product_bbb_avx2},
                 {"q120_vec_mat1col_product_bbc_ref", 2, (void*)q120_vec_mat1col_product_bbc_ref}, {"q120_vec_mat1col_product_bbc_avx2", 2, (void*)q120_vec_mat1col_product_bbc_avx2},
                 {"q120x2_vec_mat1col_product_bbc_ref", 3, (void*)q120x2_vec_mat1col_product_bbc_ref}, {"q120x2_vec_mat1col_product_bbc_avx2", 3, (void*)q120x2_vec_mat1col_product_bbc_avx2},
                 {"q120x2_vec_mat2cols_product_bbc_ref", 4, (void*)q120x2_vec_mat2cols_product_bbc_ref}, {"q120x2_vec_mat2cols_product_bbc_avx2", 4, (void*)q120x2_vec_mat2cols_product_bbc_avx2}};
      for (auto& k : tab) {
        ApiCase c;
        c.id = sfmt("kernel|%s|ell=%llu", k.name, (unsigned long long)ell);
        size_t rb = k.kind <= 2 ? 32 : k.kind == 3 ? 64 : 128;
        size_t xb = (k.kind <= 2 ? 32 : 64) * ell;
        size_t yb = (k.kind <= 2 ? 32 : k.kind == 3 ? 64 : 128) * ell;
        int ir = c.add("res", R_OUT, rb), ix = c.add("x", R_IN, xb), iy = c.add("y", R_IN, yb);
        mask_all(c.bufs[ir], 2);
        if (k.kind == 0) { fill_u64(c.bufs[ix], 1, 0xFFFFFFFFull); fill_u64(c.bufs[iy], 77, 0xFFFFFFFFull); }
        else if (k.kind == 1) { fill_u64(c.bufs[ix], 1); fill_u64(c.bufs[iy], 77); }
        else { fill_u64(c.bufs[ix], 1); fill_u32(c.bufs[iy], 77); }
        void* pc = k.kind == 0 ? (void*)paa : k.kind == 1 ? (void*)pbb : (void*)pbc;
        typedef void (*F)(void*, uint64_t, void*, const void*, const void*);
        F f = (F)k.f;
        c.call = [f, pc, ell, ir, ix, iy](uint8_t** p) { f(pc, ell, p[ir], p[ix], p[iy]); };
        KernelInfo ki; ki.table = pc; ki.table_bytes = k.kind == 0 ? sizeof(*paa) : k.kind == 1 ? sizeof(*pbb) : sizeof(*pbc); ki.family = "q120 product";
        fn(c, ki);
      }
      break;
    }
    // --------------------------------------------------------------------------------------------
    case K_Q120_CONV: {
      const uint64_t nn = sz;
      KernelInfo ki; ki.family = "q120 conversion";
      { ApiCase c; c.id = sfmt("kernel|q120_b_from_znx64_simple|nn=%llu", (unsigned long long)nn);
        int ir = c.add("res", R_OUT, 32 * nn), ix = c.add("x", R_IN, 8 * nn); mask_all(c.bufs[ir], 2);
        for (size_t i = 0; i < nn; ++i) put_i64(c.bufs[ix].init, i, i == 0 ? INT64_MIN : i == 1 ? INT64_MAX : probe62(i));
        c.call = [nn, ir, ix](uint8_t** p) { q120_b_from_znx64_simple(nn, (q120b*)p[ir], (const int64_t*)p[ix]); }; fn(c, ki); }
      { ApiCase c; c.id = sfmt("kernel|q120_c_from_znx64_simple|nn=%llu", (unsigned long long)nn);
        int ir = c.add("res", R_OUT, 32 * nn), ix = c.add("x", R_IN, 8 * nn); mask_all(c.bufs[ir], 2);
        for (size_t i = 0; i < nn; ++i) put_i64(c.bufs[ix].init, i, i == 0 ? INT64_MIN : i == 1 ? INT64_MAX : probe62(i));
        c.call = [nn, ir, ix](uint8_t** p) { q120_c_from_znx64_simple(nn, (q120c*)p[ir], (const int64_t*)p[ix]); }; fn(c, ki); }
      { ApiCase c; c.id = sfmt("kernel|q120_c_from_b_simple|nn=%llu", (unsigned long long)nn);
        int ir = c.add("res", R_OUT, 32 * nn), ix = c.add("x", R_IN, 32 * nn); mask_all(c.bufs[ir], 2); fill_u64(c.bufs[ix], 3);
        c.call = [nn, ir, ix](uint8_t** p) { q120_c_from_b_simple(nn, (q120c*)p[ir], (const q120b*)p[ix]); }; fn(c, ki); }
      { ApiCase c; c.id = sfmt("kernel|q120_b_to_znx128_simple|nn=%llu", (unsigned long long)nn);
        int ir = c.add("res", R_OUT, 16 * nn), ix = c.add("x", R_IN, 32 * nn); mask_all(c.bufs[ir], 2); fill_u64(c.bufs[ix], 5);
        c.call = [nn, ir, ix](uint8_t** p) { q120_b_to_znx128_simple(nn, (__int128_t*)p[ir], (const q120b*)p[ix]); }; fn(c, ki); }
      { ApiCase c; c.id = sfmt("kernel|q120_add_bbb_simple|nn=%llu", (unsigned long long)nn);
        int ir = c.add("res", R_OUT, 32 * nn), ix = c.add("x", R_IN, 32 * nn), iy = c.add("y", R_IN, 32 * nn); mask_all(c.bufs[ir], 2);
        fill_u64(c.bufs[ix], 5, (1ull << 63) - 1); fill_u64(c.bufs[iy], 9, (1ull << 63) - 1);
        c.call = [nn, ir, ix, iy](uint8_t** p) { q120_add_bbb_simple(nn, (q120b*)p[ir], (const q120b*)p[ix], (const q120b*)p[iy]); }; fn(c, ki); }
      { ApiCase c; c.id = sfmt("kernel|q120_add_ccc_simple|nn=%llu", (unsigned long long)nn);
        int ir = c.add("res", R_OUT, 32 * nn), ix = c.add("x", R_IN, 32 * nn), iy = c.add("y", R_IN, 32 * nn); mask_all(c.bufs[ir], 2);
        // c-layout operands are canonical pairs produced by the library's own conversion
        std::vector<int64_t> v(nn), w(nn);
        for (size_t i = 0; i < nn; ++i) { v[i] = probe62(i + 3); w[i] = probe62(i + 1000); }
        q120_c_from_znx64_simple(nn, (q120c*)c.bufs[ix].init.data(), v.data()); q120_c_from_znx64_simple(nn, (q120c*)c.bufs[iy].init.data(), w.data());
        c.call = [nn, ir, ix, iy](uint8_t** p) { q120_add_ccc_simple(nn, (q120c*)p[ir], (const q120c*)p[ix], (const q120c*)p[iy]); }; fn(c, ki); }
      break;
    }
    // --------------------------------------------------------------------------------------------
    case K_Q120_NTT: {
      const uint64_t n = sz;
      for (int inv = 0; inv < 2; ++inv) {
        TrackedTable tt = make_table([&] { return inv ? q120_new_intt_bb_precomp(n) : q120_new_ntt_bb_precomp(n); });
        q120_ntt_precomp* pc = (q120_ntt_precomp*)tt.obj;
        ApiCase c; c.id = sfmt("kernel|%s|n=%llu", inv ? "q120_intt_bb_avx2" : "q120_ntt_bb_avx2", (unsigned long long)n);
        int id = c.add("data", R_INOUT, 32 * n); mask_all(c.bufs[id], 2); fill_u64(c.bufs[id], 11);
        c.call = [pc, inv, id](uint8_t** p) { if (inv) q120_intt_bb_avx2(pc, (q120b*)p[id]); else q120_ntt_bb_avx2(pc, (q120b*)p[id]); };
        KernelInfo ki; ki.family = "q120 ntt";
        // the table consists of several blocks; expose the largest one (the omega powers)
        if (!tt.blocks.empty()) { size_t best = 0; for (size_t i = 0; i < tt.blocks.size(); ++i) if (tt.blocks[i].second > tt.blocks[best].second) best = i; ki.table = tt.blocks[best].first; ki.table_bytes = tt.blocks[best].second; }
        fn(c, ki);
        if (inv) q120_del_intt_bb_precomp(pc); else q120_del_ntt_bb_precomp(pc);
      }
      break;
    }
    // --------------------------------------------------------------------------------------------
    case K_Q120_BLK: {
      const uint64_t nn = sz;
      KernelInfo ki; ki.family = "q120 block";
      for (uint64_t blk = 0; blk < nn / 2; ++blk) {
        for (int lay = 0; lay < 2; ++lay) {
          ApiCase c; c.id = sfmt("kernel|%s|nn=%llu|blk=%llu", lay ? "q120x2_extract_1blk_from_q120c_ref" : "q120x2_extract_1blk_from_q120b_ref", (unsigned long long)nn, (unsigned long long)blk);
          int ir = c.add("dst", R_OUT, 64), ix = c.add("src", R_IN, 32 * nn); fill_u64(c.bufs[ix], 21 + lay);
          memcpy(c.bufs[ir].exp.data(), &c.bufs[ix].init[64 * blk], 64); mask_all(c.bufs[ir], 1);
          c.call = [nn, blk, lay, ir, ix](uint8_t** p) { if (lay) q120x2_extract_1blk_from_q120c_ref(nn, blk, (q120x2c*)p[ir], (const q120c*)p[ix]); else q120x2_extract_1blk_from_q120b_ref(nn, blk, (q120x2b*)p[ir], (const q120b*)p[ix]); };
          fn(c, ki);
        }
        for (uint64_t nrows = 0; nrows <= 3; ++nrows) {
          ApiCase c; c.id = sfmt("kernel|q120x2_extract_1blk_from_contiguous_q120b_ref|nn=%llu|blk=%llu|nrows=%llu", (unsigned long long)nn, (unsigned long long)blk, (unsigned long long)nrows);
          int ir = c.add("dst", R_OUT, 64 * nrows), ix = c.add("src", R_IN, 32 * nn * nrows); fill_u64(c.bufs[ix], 31);
          for (uint64_t r = 0; r < nrows; ++r) memcpy(&c.bufs[ir].exp[64 * r], &c.bufs[ix].init[32 * nn * r + 64 * blk], 64);
          mask_all(c.bufs[ir], 1);
          c.call = [nn, blk, nrows, ir, ix](uint8_t** p) { q120x2_extract_1blk_from_contiguous_q120b_ref(nn, nrows, blk, (q120x2b*)p[ir], (const q120b*)p[ix]); };
          fn(c, ki);
        }
        { ApiCase c; c.id = sfmt("kernel|q120x2b_save_1blk_to_q120b_ref|nn=%llu|blk=%llu", (unsigned long long)nn, (unsigned long long)blk);
          int ir = c.add("dest", R_OUT, 32 * nn), ix = c.add("src", R_IN, 64); fill_u64(c.bufs[ix], 41);
          memcpy(&c.bufs[ir].exp[64 * blk], c.bufs[ix].init.data(), 64); memset(&c.bufs[ir].mask[64 * blk], 1, 64);
          c.call = [nn, blk, ir, ix](uint8_t** p) { q120x2b_save_1blk_to_q120b_ref(nn, blk, (q120b*)p[ir], (const q120x2b*)p[ix]); };
          fn(c, ki); }
      }
      break;
    }
    // --------------------------------------------------------------------------------------------
    case K_FFT: {
      const uint64_t m = sz;
      for (int cfgi = 0; cfgi < 2; ++cfgi) {
        const CpuCfg& cfg = cfgi ? CFG_GENERIC : CFG_NATIVE;
        for (int which = 0; which < 4; ++which) {
          static const char* nm[] = {"reim_fft", "reim_ifft", "cplx_fft", "cplx_ifft"};
          set_cfg(cfg);
          TrackedTable tt = make_table([&]() -> void* {
            switch (which) { case 0: return new_reim_fft_precomp(m, 0); case 1: return new_reim_ifft_precomp(m, 0); case 2: return new_cplx_fft_precomp(m, 0); default: return new_cplx_ifft_precomp(m, 0); } });
          set_cfg(CFG_NATIVE);
          void* pc = tt.obj;
          ApiCase c; c.id = sfmt("kernel|%s|%s|m=%llu", nm[which], cfg.name, (unsigned long long)m);
          int id = c.add("data", R_INOUT, 16 * m); mask_all(c.bufs[id], 2); fill_doubles(c.bufs[id], 7);
          c.call = [pc, which, id](uint8_t** p) {
            switch (which) { case 0: reim_fft((REIM_FFT_PRECOMP*)pc, (double*)p[id]); break; case 1: reim_ifft((REIM_IFFT_PRECOMP*)pc, (double*)p[id]); break;
                             case 2: cplx_fft((CPLX_FFT_PRECOMP*)pc, p[id]); break; default: cplx_ifft((CPLX_IFFT_PRECOMP*)pc, p[id]); } };
          KernelInfo ki; ki.family = "fft";
          if (!tt.blocks.empty()) { size_t best = 0; for (size_t i = 0; i < tt.blocks.size(); ++i) if (tt.blocks[i].second > tt.blocks[best].second) best = i; ki.table = tt.blocks[best].first; ki.table_bytes = tt.blocks[best].second; }
          fn(c, ki);
          free(pc);
        }
      }
      break;
    }
    // --------------------------------------------------------------------------------------------
    case K_FFTVEC: {
      const uint64_t m = sz;
      typedef void (*pw_f)(const void*, void*, const void*, const void*);
      struct PW { const char* name; pw_f f; uint64_t minm; bool addmul; };
      PW tab[] = {
          {"reim_fftvec_mul_ref", (pw_f)reim_fftvec_mul_ref, 1, false}, {"reim_fftvec_mul_fma", (pw_f)reim_fftvec_mul_fma, 4, false},
          {"reim_fftvec_addmul_ref", (pw_f)reim_fftvec_addmul_ref, 1, true}, {"reim_fftvec_addmul_fma", (pw_f)reim_fftvec_addmul_fma, 4, true},
          {"reim4_fftvec_mul_ref", (pw_f)reim4_fftvec_mul_ref, 4, false}, {"reim4_fftvec_mul_fma", (pw_f)reim4_fftvec_mul_fma, 4, false},
          {"reim4_fftvec_addmul_ref", (pw_f)reim4_fftvec_addmul_ref, 4, true}, {"reim4_fftvec_addmul_fma", (pw_f)reim4_fftvec_addmul_fma, 4, true},
          {"cplx_fftvec_mul_ref", (pw_f)cplx_fftvec_mul_ref, 1, false}, {"cplx_fftvec_mul_fma", (pw_f)cplx_fftvec_mul_fma, 8, false},
          {"cplx_fftvec_addmul_ref", (pw_f)cplx_fftvec_addmul_ref, 1, true}, {"cplx_fftvec_addmul_fma", (pw_f)cplx_fftvec_addmul_fma, 4, true},
          {"cplx_fftvec_addmul_sse", (pw_f)cplx_fftvec_addmul_sse, 2, true}, {"cplx_fftvec_addmul_avx512", (pw_f)cplx_fftvec_addmul_avx512, 8, true},
      };
      for (auto& k : tab) {
        if (m < k.minm) continue;
        ApiCase c; c.id = sfmt("kernel|%s|m=%llu", k.name, (unsigned long long)m);
        int ir = c.add("r", k.addmul ? R_INOUT : R_OUT, 16 * m), ia = c.add("a", R_IN, 16 * m), ib = c.add("b", R_IN, 16 * m);
        mask_all(c.bufs[ir], 2); if (k.addmul) fill_doubles(c.bufs[ir], 5);
        fill_doubles(c.bufs[ia], 100); fill_doubles(c.bufs[ib], 200);
        pw_f f = k.f;
        c.call = [f, m, ir, ia, ib](uint8_t** p) { PCm pc{0, (int64_t)m}; f(&pc, p[ir], p[ia], p[ib]); };
        KernelInfo ki; ki.family = "fftvec"; fn(c, ki);
      }
      // twiddle kernels (a, b in place, omega read-only)
      struct TW { const char* name; void (*f)(const CPLX_FFTVEC_TWIDDLE_PRECOMP*, void*, void*, const void*); uint64_t minm; };
      TW tw[] = {{"cplx_fftvec_twiddle_fma", cplx_fftvec_twiddle_fma, 8}, {"cplx_fftvec_twiddle_avx512", cplx_fftvec_twiddle_avx512, 16}};
      for (auto& k : tw) {
        if (m < k.minm) continue;
        ApiCase c; c.id = sfmt("kernel|%s|m=%llu", k.name, (unsigned long long)m);
        int ia = c.add("a", R_INOUT, 16 * m), ib = c.add("b", R_INOUT, 16 * m), io = c.add("omega", R_IN, 32);
        mask_all(c.bufs[ia], 2); mask_all(c.bufs[ib], 2); fill_doubles(c.bufs[ia], 100); fill_doubles(c.bufs[ib], 200);
        double om[4] = {0.8, 0.6, 0.8, 0.6}; memcpy(c.bufs[io].init.data(), om, 32);
        auto f = k.f;
        c.call = [f, m, ia, ib, io](uint8_t** p) { CPLX_FFTVEC_TWIDDLE_PRECOMP pc; pc.m = m; pc.function = 0; f(&pc, p[ia], p[ib], p[io]); };
        KernelInfo ki; ki.family = "fftvec"; fn(c, ki);
      }
      break;
    }
    // --------------------------------------------------------------------------------------------
    case K_CONV: {
      const uint64_t m = sz;
      KernelInfo ki; ki.family = "conversion";
      { struct K { const char* name; void (*f)(const REIM_FROM_ZNX64_PRECOMP*, void*, const int64_t*); uint64_t minm; };
        K tab[] = {{"reim_from_znx64_ref", reim_from_znx64_ref, 1}, {"reim_from_znx64_bnd50_fma", reim_from_znx64_bnd50_fma, 2}};
        for (auto& k : tab) { if (m < k.minm) continue;
          ApiCase c; c.id = sfmt("kernel|%s|m=%llu", k.name, (unsigned long long)m);
          int ir = c.add("r", R_OUT, 16 * m), ix = c.add("x", R_IN, 16 * m);
          for (size_t i = 0; i < 2 * m; ++i) { int64_t v = probe62(i) >> 13; if (i == 0) v = (INT64_C(1) << 50) - 1; if (i == 1) v = -((INT64_C(1) << 50) - 1);
            put_i64(c.bufs[ix].init, i, v); double d = (double)v; memcpy(&c.bufs[ir].exp[i * 8], &d, 8); }
          mask_all(c.bufs[ir], 1);
          auto f = k.f; c.call = [f, m, ir, ix](uint8_t** p) { REIM_FROM_ZNX64_PRECOMP pc; pc.m = m; pc.function = 0; f(&pc, p[ir], (const int64_t*)p[ix]); };
          fn(c, ki); } }
      { struct K { const char* name; void (*f)(const REIM_TO_ZNX64_PRECOMP*, int64_t*, const void*); uint64_t minm; };
        K tab[] = {{"reim_to_znx64_ref", reim_to_znx64_ref, 1}, {"reim_to_znx64_avx2_bnd50_fma", reim_to_znx64_avx2_bnd50_fma, 2}, {"reim_to_znx64_avx2_bnd63_fma", reim_to_znx64_avx2_bnd63_fma, 2}};
        for (auto& k : tab) { if (m < k.minm) continue;
          ApiCase c; c.id = sfmt("kernel|%s|m=%llu", k.name, (unsigned long long)m);
          int ir = c.add("r", R_OUT, 16 * m), ix = c.add("x", R_IN, 16 * m);
          for (size_t i = 0; i < 2 * m; ++i) { double d = (double)(probe62(i + 5) >> 20) * 4.0 + 0.25; memcpy(&c.bufs[ix].init[i * 8], &d, 8);
            int64_t e = (int64_t)((probe62(i + 5) >> 20)); put_i64(c.bufs[ir].exp, i, e); }  // (4v + 0.25)/4 rounds to v
          mask_all(c.bufs[ir], 1);
          auto f = k.f; c.call = [f, m, ir, ix](uint8_t** p) { REIM_TO_ZNX64_PRECOMP pc; pc.m = m; pc.function = 0; pc.divisor = 4.0; f(&pc, (int64_t*)p[ir], p[ix]); };
          fn(c, ki); } }
      { for (int av = 0; av < 2; ++av) { if (av && m < 4) continue;
          ApiCase c; c.id = sfmt("kernel|%s|m=%llu", av ? "reim_to_tnx_avx" : "reim_to_tnx_ref", (unsigned long long)m);
          int ir = c.add("r", R_OUT, 16 * m), ix = c.add("x", R_IN, 16 * m); mask_all(c.bufs[ir], 2);
          for (size_t i = 0; i < 2 * m; ++i) { double d = kdouble(i) ; if (fabs(d) > 1e6) d = 0.5; memcpy(&c.bufs[ix].init[i * 8], &d, 8); }
          TrackedTable tt = make_table([&] { return new_reim_to_tnx_precomp(m, 2.0, 20); });
          REIM_TO_TNX_PRECOMP* pc = (REIM_TO_TNX_PRECOMP*)tt.obj;
          c.call = [pc, av, ir, ix](uint8_t** p) { if (av) reim_to_tnx_avx(pc, (double*)p[ir], (const double*)p[ix]); else reim_to_tnx_ref(pc, (double*)p[ir], (const double*)p[ix]); };
          KernelInfo k2 = ki; k2.table = pc; k2.table_bytes = sizeof(*pc); fn(c, k2); free(pc); } }
      { struct K { const char* name; void (*f)(const CPLX_FROM_ZNX32_PRECOMP*, void*, const int32_t*); uint64_t minm; double scale; };
        K tab[] = {{"cplx_from_znx32_ref", cplx_from_znx32_ref, 1, 1.0}, {"cplx_from_znx32_avx2_fma", cplx_from_znx32_avx2_fma, 8, 1.0},
                   {"cplx_from_tnx32_ref", (void (*)(const CPLX_FROM_ZNX32_PRECOMP*, void*, const int32_t*))cplx_from_tnx32_ref, 1, 0x1p-32},
                   {"cplx_from_tnx32_avx2_fma", (void (*)(const CPLX_FROM_ZNX32_PRECOMP*, void*, const int32_t*))cplx_from_tnx32_avx2_fma, 8, 0x1p-32}};
        for (auto& k : tab) { if (m < k.minm) continue;
          ApiCase c; c.id = sfmt("kernel|%s|m=%llu", k.name, (unsigned long long)m);
          int ir = c.add("r", R_OUT, 16 * m), ix = c.add("x", R_IN, 8 * m);
          for (size_t i = 0; i < 2 * m; ++i) { int32_t v = (int32_t)(probe62(i + 9) >> 31); if (i == 0) v = INT32_MIN; if (i == 1) v = INT32_MAX; memcpy(&c.bufs[ix].init[i * 4], &v, 4); }
          for (size_t i = 0; i < m; ++i) { int32_t re, im; memcpy(&re, &c.bufs[ix].init[i * 4], 4); memcpy(&im, &c.bufs[ix].init[(m + i) * 4], 4);
            double dr = re * k.scale, di = im * k.scale; memcpy(&c.bufs[ir].exp[i * 16], &dr, 8); memcpy(&c.bufs[ir].exp[i * 16 + 8], &di, 8); }
          mask_all(c.bufs[ir], 1);
          auto f = k.f; c.call = [f, m, ir, ix](uint8_t** p) { CPLX_FROM_ZNX32_PRECOMP pc; pc.m = m; pc.function = 0; f(&pc, p[ir], (const int32_t*)p[ix]); };
          fn(c, ki); } }
      { struct K { const char* name; void (*f)(const CPLX_TO_TNX32_PRECOMP*, int32_t*, const void*); uint64_t minm; };
        K tab[] = {{"cplx_to_tnx32_ref", cplx_to_tnx32_ref, 1}, {"cplx_to_tnx32_avx2_fma", cplx_to_tnx32_avx2_fma, 8}};
        for (auto& k : tab) { if (m < k.minm) continue;
          ApiCase c; c.id = sfmt("kernel|%s|m=%llu", k.name, (unsigned long long)m);
          int ir = c.add("r", R_OUT, 8 * m), ix = c.add("x", R_IN, 16 * m); mask_all(c.bufs[ir], 2);
          for (size_t i = 0; i < 2 * m; ++i) { double d = (double)((int64_t)(probe62(i + 9) >> 40)) * 0x1p-12; memcpy(&c.bufs[ix].init[i * 8], &d, 8); }
          auto f = k.f; c.call = [f, m, ir, ix](uint8_t** p) { CPLX_TO_TNX32_PRECOMP pc; pc.m = m; pc.function = 0; pc.divisor = 2.0; f(&pc, (int32_t*)p[ir], p[ix]); };
          fn(c, ki); } }
      break;
    }
    // --------------------------------------------------------------------------------------------
    case K_REIM4: {
      const uint64_t m = sz;
      KernelInfo ki; ki.family = "reim4";
      std::vector<uint64_t> blks;
      if (m / 4 <= 8 || (thorough && m <= 1024)) for (uint64_t b = 0; b < m / 4; ++b) blks.push_back(b);  /* large-size layer: four blocks */ else blks = {0, 1, m / 8, m / 4 - 1};
      for (uint64_t blk : blks) {
        for (int av = 0; av < 2; ++av) {
          { ApiCase c; c.id = sfmt("kernel|reim4_extract_1blk_from_reim_%s|m=%llu|blk=%llu", av ? "avx" : "ref", (unsigned long long)m, (unsigned long long)blk);
            int ir = c.add("dst", R_OUT, 64), ix = c.add("src", R_IN, 16 * m); fill_doubles(c.bufs[ix], 3);
            memcpy(&c.bufs[ir].exp[0], &c.bufs[ix].init[8 * 4 * blk], 32); memcpy(&c.bufs[ir].exp[32], &c.bufs[ix].init[8 * (m + 4 * blk)], 32); mask_all(c.bufs[ir], 1);
            c.call = [m, blk, av, ir, ix](uint8_t** p) { if (av) reim4_extract_1blk_from_reim_avx(m, blk, (double*)p[ir], (const double*)p[ix]); else reim4_extract_1blk_from_reim_ref(m, blk, (double*)p[ir], (const double*)p[ix]); };
            fn(c, ki); }
          { ApiCase c; c.id = sfmt("kernel|reim4_save_1blk_to_reim_%s|m=%llu|blk=%llu", av ? "avx" : "ref", (unsigned long long)m, (unsigned long long)blk);
            int ir = c.add("dest", R_OUT, 16 * m), ix = c.add("src", R_IN, 64); fill_doubles(c.bufs[ix], 3);
            memcpy(&c.bufs[ir].exp[8 * 4 * blk], &c.bufs[ix].init[0], 32); memcpy(&c.bufs[ir].exp[8 * (m + 4 * blk)], &c.bufs[ix].init[32], 32);
            memset(&c.bufs[ir].mask[8 * 4 * blk], 1, 32); memset(&c.bufs[ir].mask[8 * (m + 4 * blk)], 1, 32);
            c.call = [m, blk, av, ir, ix](uint8_t** p) { if (av) reim4_save_1blk_to_reim_avx(m, blk, (double*)p[ir], (const double*)p[ix]); else reim4_save_1blk_to_reim_ref(m, blk, (double*)p[ir], (const double*)p[ix]); };
            fn(c, ki); }
          for (uint64_t nrows = 0; nrows <= 4; ++nrows) {
            for (uint64_t sl : {(uint64_t)0, 2 * m, 2 * m + 4, 3 * m, 2 * m + 1, 2 * m + 2, 3 * m + 7}) {
              // sl == 0: the contiguous form (stride 2m implied)
              uint64_t esl = sl ? sl : 2 * m;
              ApiCase c; c.id = sfmt("kernel|reim4_extract_1blk_from_contiguous_reim%s_%s|m=%llu|blk=%llu|nrows=%llu|sl=%llu", sl ? "_sl" : "", av ? "avx" : "ref", (unsigned long long)m, (unsigned long long)blk, (unsigned long long)nrows, (unsigned long long)sl);
              size_t se = nrows ? (nrows - 1) * esl + 2 * m : 0;
              int ir = c.add("dst", R_OUT, 64 * nrows), ix = c.add("src", R_IN, 8 * se); fill_doubles(c.bufs[ix], 3);
              for (uint64_t r = 0; r < nrows; ++r) { memcpy(&c.bufs[ir].exp[64 * r], &c.bufs[ix].init[8 * (r * esl + 4 * blk)], 32); memcpy(&c.bufs[ir].exp[64 * r + 32], &c.bufs[ix].init[8 * (r * esl + m + 4 * blk)], 32); }
              mask_all(c.bufs[ir], 1);
              c.call = [m, blk, av, nrows, sl, ir, ix](uint8_t** p) {
                if (sl == 0) { if (av) reim4_extract_1blk_from_contiguous_reim_avx(m, nrows, blk, (double*)p[ir], (const double*)p[ix]); else reim4_extract_1blk_from_contiguous_reim_ref(m, nrows, blk, (double*)p[ir], (const double*)p[ix]); }
                else { if (av) reim4_extract_1blk_from_contiguous_reim_sl_avx(m, sl, nrows, blk, (double*)p[ir], (const double*)p[ix]); else reim4_extract_1blk_from_contiguous_reim_sl_ref(m, sl, nrows, blk, (double*)p[ir], (const double*)p[ix]); } };
              fn(c, ki);
            }
          }
        }
      }
      // dot products: nrows encoded through m (nrows = 0..16 at the smallest m only)
      if (m == 4) {
        for (uint64_t nrows = 0; nrows <= (thorough ? 64u : 16u); ++nrows) for (int av = 0; av < 2; ++av) for (int two = 0; two < 2; ++two) {
          ApiCase c; c.id = sfmt("kernel|reim4_vec_mat%s_product_%s|nrows=%llu", two ? "2cols" : "1col", av ? "avx2" : "ref", (unsigned long long)nrows);
          int ir = c.add("dst", R_OUT, two ? 128 : 64), iu = c.add("u", R_IN, 64 * nrows), iv = c.add("v", R_IN, (two ? 128 : 64) * nrows);
          mask_all(c.bufs[ir], 2); fill_doubles(c.bufs[iu], 3); fill_doubles(c.bufs[iv], 300);
          // structured rows of u: purely real, purely imaginary, one small integer in every slot, zero real parts with some zero
          // imaginary parts, all zero (a value-keyed shortcut must be right on them)
          for (uint64_t r = 0; r < nrows; ++r) {
            double w[8]; memcpy(w, &c.bufs[iu].init[64 * r], 64);
            switch ((r + nrows) % 6) {
              case 0: for (int k = 0; k < 4; ++k) w[4 + k] = 0.0; break;
              case 1: for (int k = 0; k < 4; ++k) w[k] = 0.0; break;
              case 2: for (int k = 0; k < 4; ++k) { w[k] = 2.0; w[4 + k] = 1.0; } break;
              case 3: { const double im[4] = {0.0, 1.25, -2.5, 3.0}; for (int k = 0; k < 4; ++k) { w[k] = 0.0; w[4 + k] = im[k]; } break; }
              case 4: for (int k = 0; k < 8; ++k) w[k] = (k & 1) ? -0.0 : 0.0; break;
              default: break;
            }
            memcpy(&c.bufs[iu].init[64 * r], w, 64);
          }
          c.call = [nrows, av, two, ir, iu, iv](uint8_t** p) {
            if (two) { if (av) reim4_vec_mat2cols_product_avx2(nrows, (double*)p[ir], (const double*)p[iu], (const double*)p[iv]); else reim4_vec_mat2cols_product_ref(nrows, (double*)p[ir], (const double*)p[iu], (const double*)p[iv]); }
            else { if (av) reim4_vec_mat1col_product_avx2(nrows, (double*)p[ir], (const double*)p[iu], (const double*)p[iv]); else reim4_vec_mat1col_product_ref(nrows, (double*)p[ir], (const double*)p[iu], (const double*)p[iv]); } };
          fn(c, ki);
        }
        for (uint64_t sa = 0; sa <= 4; ++sa) for (uint64_t sb = 0; sb <= 4; ++sb) for (uint64_t k = 0; k <= 9; ++k) for (int two = 0; two < 2; ++two) {
          ApiCase c; c.id = sfmt("kernel|reim4_convolution_%s_ref|k=%llu|sizea=%llu|sizeb=%llu", two ? "2coeff" : "1coeff", (unsigned long long)k, (unsigned long long)sa, (unsigned long long)sb);
          int ir = c.add("dest", R_OUT, two ? 128 : 64), ia = c.add("a", R_IN, 64 * sa), ib = c.add("b", R_IN, 64 * sb);
          mask_all(c.bufs[ir], 2); fill_doubles(c.bufs[ia], 3); fill_doubles(c.bufs[ib], 300);
          c.call = [k, sa, sb, two, ir, ia, ib](uint8_t** p) { if (two) reim4_convolution_2coeff_ref(k, (double*)p[ir], (const double*)p[ia], sa, (const double*)p[ib], sb); else reim4_convolution_1coeff_ref(k, (double*)p[ir], (const double*)p[ia], sa, (const double*)p[ib], sb); };
          fn(c, ki);
        }
        for (uint64_t sa = 0; sa <= 3; ++sa) for (uint64_t sb = 0; sb <= 3; ++sb) for (uint64_t off = 0; off <= 4; ++off) for (uint64_t size = 0; size <= 4; ++size) {
          ApiCase c; c.id = sfmt("kernel|reim4_convolution_ref|offset=%llu|size=%llu|sizea=%llu|sizeb=%llu", (unsigned long long)off, (unsigned long long)size, (unsigned long long)sa, (unsigned long long)sb);
          int ir = c.add("dest", R_OUT, 64 * size), ia = c.add("a", R_IN, 64 * sa), ib = c.add("b", R_IN, 64 * sb);
          mask_all(c.bufs[ir], 2); fill_doubles(c.bufs[ia], 3); fill_doubles(c.bufs[ib], 300);
          c.call = [off, size, sa, sb, ir, ia, ib](uint8_t** p) { reim4_convolution_ref((double*)p[ir], size, off, (const double*)p[ia], sa, (const double*)p[ib], sb); };
          fn(c, ki);
        }
      }
      // layout conversion cplx <-> reim4
      for (int dir = 0; dir < 2; ++dir) for (int av = 0; av < 2; ++av) {
        ApiCase c; c.id = sfmt("kernel|reim4_%s_cplx_%s|m=%llu", dir ? "to" : "from", av ? "fma" : "ref", (unsigned long long)m);
        int ir = c.add("r", R_OUT, 16 * m), ia = c.add("a", R_IN, 16 * m); fill_doubles(c.bufs[ia], 3);
        const double* in = (const double*)c.bufs[ia].init.data(); double* ex = (double*)c.bufs[ir].exp.data();
        for (uint64_t b = 0; b < m / 4; ++b) for (int j = 0; j < 4; ++j) {
          // the library's block holds the four complex numbers in the order 0,2,1,3 (reference kernel = definition)
          static const int perm[4] = {0, 2, 1, 3};
          if (!dir) { ex[8 * b + j] = in[8 * b + 2 * perm[j]]; ex[8 * b + 4 + j] = in[8 * b + 2 * perm[j] + 1]; }
          else { ex[8 * b + 2 * perm[j]] = in[8 * b + j]; ex[8 * b + 2 * perm[j] + 1] = in[8 * b + 4 + j]; }
        }
        mask_all(c.bufs[ir], 1);
        c.call = [m, dir, av, ir, ia](uint8_t** p) {
          if (!dir) { REIM4_FROM_CPLX_PRECOMP pc; pc.m = m; pc.function = 0; if (av) reim4_from_cplx_fma(&pc, (double*)p[ir], p[ia]); else reim4_from_cplx_ref(&pc, (double*)p[ir], p[ia]); }
          else { REIM4_TO_CPLX_PRECOMP pc; pc.m = m; pc.function = 0; if (av) reim4_to_cplx_fma(&pc, p[ir], (const double*)p[ia]); else reim4_to_cplx_ref(&pc, p[ir], (const double*)p[ia]); } };
        fn(c, ki);
      }
      break;
    }
    // --------------------------------------------------------------------------------------------
    case K_COEFF: {
      const uint64_t nn = sz;
      KernelInfo ki; ki.family = "coefficient kernel";
      std::vector<int64_t> ps = {0, 1, (int64_t)nn - 1, (int64_t)nn, (int64_t)nn + 1, (int64_t)(2 * nn - 1), -1, (int64_t)(2 * nn + 3), INT64_MAX, INT64_MIN + 1};
      for (int64_t p0 : ps) {
        struct K { const char* name; int kind; };  // 0 rotate 1 mulxp 2 automorphism ; i64 then f64
        for (int dbl = 0; dbl < 2; ++dbl) for (int kind = 0; kind < 3; ++kind) for (int inplace = 0; inplace < 2; ++inplace) {
          int64_t p = p0;
          if (kind == 2) { if (nn < 2) continue; p |= 1; }
          if (kind == 1 && inplace && !dbl) continue;  // znx_mul_xp_minus_one_inplace does not exist
          static const char* kn[] = {"rotate", "mul_xp_minus_one", "automorphism"};
          ApiCase c; c.id = sfmt("kernel|%s_%s%s|nn=%llu|p=%lld", dbl ? "rnx" : "znx", kn[kind], inplace ? "_inplace" : "", (unsigned long long)nn, (long long)p);
          int ir, ia = -1;
          if (inplace) { ir = c.add("res", R_INOUT, 8 * nn); }
          else { ir = c.add("res", R_OUT, 8 * nn); ia = c.add("in", R_IN, 8 * nn); }
          Buf& src = c.bufs[inplace ? ir : ia];
          std::vector<int64_t> vi(nn), ri(nn), ti(nn);
          for (size_t i = 0; i < nn; ++i) vi[i] = (int64_t)(i + 1) * 3 - 1;
          if (kind == 0) ref_rotate(nn, p, ri.data(), vi.data());
          else if (kind == 2) ref_automorphism(nn, p, ri.data(), vi.data());
          else { ref_rotate(nn, p, ti.data(), vi.data()); for (size_t i = 0; i < nn; ++i) ri[i] = ti[i] - vi[i]; }
          for (size_t i = 0; i < nn; ++i) {
            if (dbl) { double d = (double)vi[i], e = (double)ri[i]; memcpy(&src.init[i * 8], &d, 8); memcpy(&c.bufs[ir].exp[i * 8], &e, 8); }
            else { put_i64(src.init, i, vi[i]); put_i64(c.bufs[ir].exp, i, ri[i]); }
          }
          mask_all(c.bufs[ir], 1);
          c.call = [nn, p, dbl, kind, inplace, ir, ia](uint8_t** q) {
            if (!dbl) {
              int64_t* r = (int64_t*)q[ir]; const int64_t* a = ia >= 0 ? (const int64_t*)q[ia] : 0;
              if (kind == 0) { if (inplace) znx_rotate_inplace_i64(nn, p, r); else znx_rotate_i64(nn, p, r, a); }
              else if (kind == 1) znx_mul_xp_minus_one(nn, p, r, a);
              else { if (inplace) znx_automorphism_inplace_i64(nn, p, r); else znx_automorphism_i64(nn, p, r, a); }
            } else {
              double* r = (double*)q[ir]; const double* a = ia >= 0 ? (const double*)q[ia] : 0;
              if (kind == 0) { if (inplace) rnx_rotate_inplace_f64(nn, p, r); else rnx_rotate_f64(nn, p, r, a); }
              else if (kind == 1) { if (inplace) rnx_mul_xp_minus_one_inplace(nn, p, r); else rnx_mul_xp_minus_one(nn, p, r, a); }
              else { if (inplace) rnx_automorphism_inplace_f64(nn, p, r); else rnx_automorphism_f64(nn, p, r, a); }
            } };
          fn(c, ki);
        }
      }
      // element-wise int64 kernels, reference and AVX
      for (int av = 0; av < 2; ++av) for (int w = 0; w < 3; ++w) {
        static const char* wn[] = {"znx_add_i64", "znx_sub_i64", "znx_negate_i64"};
        ApiCase c; c.id = sfmt("kernel|%s_%s|nn=%llu", wn[w], av ? "avx" : "ref", (unsigned long long)nn);
        int ir = c.add("res", R_OUT, 8 * nn), ia = c.add("a", R_IN, 8 * nn), ib = w < 2 ? c.add("b", R_IN, 8 * nn) : -1;
        for (size_t i = 0; i < nn; ++i) {
          int64_t x = probe62(i), y = vec_like_b(i);
          put_i64(c.bufs[ia].init, i, x); if (ib >= 0) put_i64(c.bufs[ib].init, i, y);
          put_i64(c.bufs[ir].exp, i, w == 0 ? x + y : w == 1 ? x - y : -x);
        }
        mask_all(c.bufs[ir], 1);
        c.call = [nn, av, w, ir, ia, ib](uint8_t** p) {
          int64_t* r = (int64_t*)p[ir]; const int64_t* a = (const int64_t*)p[ia]; const int64_t* b = ib >= 0 ? (const int64_t*)p[ib] : 0;
          if (w == 0) { if (av) znx_add_i64_avx(nn, r, a, b); else znx_add_i64_ref(nn, r, a, b); }
          else if (w == 1) { if (av) znx_sub_i64_avx(nn, r, a, b); else znx_sub_i64_ref(nn, r, a, b); }
          else { if (av) znx_negate_i64_avx(nn, r, a); else znx_negate_i64_ref(nn, r, a); } };
        fn(c, ki);
      }
      for (int av = 0; av < 2; ++av) {
        ApiCase c; c.id = sfmt("kernel|rnx_divide_by_m_%s|nn=%llu", av ? "avx" : "ref", (unsigned long long)nn);
        int ir = c.add("res", R_OUT, 8 * nn), ia = c.add("a", R_IN, 8 * nn);
        for (size_t i = 0; i < nn; ++i) { double d = kdouble(i + 1), e = d / 8.0; memcpy(&c.bufs[ia].init[i * 8], &d, 8); memcpy(&c.bufs[ir].exp[i * 8], &e, 8); }
        mask_all(c.bufs[ir], 1);  // division by a power of two is exact
        c.call = [nn, av, ir, ia](uint8_t** p) { if (av) rnx_divide_by_m_avx(nn, 8.0, (double*)p[ir], (const double*)p[ia]); else rnx_divide_by_m_ref(nn, 8.0, (double*)p[ir], (const double*)p[ia]); };
        fn(c, ki);
      }
      // znx_normalize: the six legal argument shapes
      for (int shape = 0; shape < 6; ++shape) {
        bool has_out = shape < 4, has_cin = shape & 1, has_cout = shape >= 4 ? true : (shape & 2);
        if (shape == 4) { has_cin = false; } if (shape == 5) { has_cin = true; }
        for (uint64_t k : {1, 19, 62}) {
          ApiCase c; c.id = sfmt("kernel|znx_normalize|nn=%llu|k=%llu|out=%d,cin=%d,cout=%d", (unsigned long long)nn, (unsigned long long)k, has_out, has_cin, has_cout);
          int io = has_out ? c.add("out", R_OUT, 8 * nn) : -1, ico = has_cout ? c.add("carry_out", R_OUT, 8 * nn) : -1;
          int ii = c.add("in", R_IN, 8 * nn), ici = has_cin ? c.add("carry_in", R_IN, 8 * nn) : -1;
          for (size_t i = 0; i < nn; ++i) {
            int64_t x = probe62(i), ci = has_cin ? (probe62(i + 50) >> (k - 1)) : 0;
            put_i64(c.bufs[ii].init, i, x); if (has_cin) put_i64(c.bufs[ici].init, i, ci);
            i128 t = (i128)x + ci; i128 d = centred_mod_pow2(t, (unsigned)k); i128 co = (t - d) >> k;
            if (has_out) put_i64(c.bufs[io].exp, i, (int64_t)d);
            if (has_cout) put_i64(c.bufs[ico].exp, i, (int64_t)co);
          }
          if (has_out) mask_all(c.bufs[io], 1); if (has_cout) mask_all(c.bufs[ico], 1);
          c.call = [nn, k, io, ico, ii, ici](uint8_t** p) { znx_normalize(nn, k, io >= 0 ? (int64_t*)p[io] : 0, ico >= 0 ? (int64_t*)p[ico] : 0, (const int64_t*)p[ii], ici >= 0 ? (const int64_t*)p[ici] : 0); };
          fn(c, ki);
        }
      }
      break;
    }
  }
}

// Every kernel case, plus - when two read-only operands have the same extent - two twins: the same data in both operands through two
// arrays, and ONE array passed for both (x == y by pointer: squares, sums of squares).  The twins carry no byte-exact expectation
// (outputs are "written, not judged by the model"): they are judged by the differential oracles of the checks (reference against
// accelerated variant, repeated runs, offsets, read-only operands, memory contract).
inline void run_kernel_group(const KernelGroup& G, bool thorough, const KFn& fn0) {
  const std::string gdesc = sfmt("kernel group family=%d size=%llu", (int)G.fam, (unsigned long long)G.size);
  auto arm = [&]() { if (g_ctx()) g_ctx()->generating(gdesc); };
  auto fn = [&](ApiCase& c, const KernelInfo& ki) { fn0(c, ki); arm(); };
  arm();
  struct Disarm { ~Disarm() { if (g_ctx()) g_ctx()->generating_done(); } } disarm_at_exit;
  run_kernel_group_base(G, thorough, [&](ApiCase& c, const KernelInfo& ki) {
    fn(c, ki);
    const int nb = (int)c.bufs.size();
    int bi = -1, bj = -1;
    for (int i = 0; i < nb && bi < 0; ++i) for (int j = i + 1; j < nb; ++j) {
      const Buf& x = c.bufs[i]; const Buf& y = c.bufs[j];
      if (x.role != R_IN || y.role != R_IN || x.bytes == 0 || x.bytes != y.bytes || x.alias_of >= 0 || y.alias_of >= 0) continue;
      bool used = false;
      for (int k = 0; k < nb; ++k) if (c.bufs[k].alias_of == i || c.bufs[k].alias_of == j) used = true;
      if (used) continue;
      bi = i; bj = j; break;
    }
    if (bi < 0 || c.bufs[bi].bytes > (size_t(1) << 22)) return;
    ApiCase t = c;
    t.id = c.id + "|same data in " + c.bufs[bi].name + " and " + c.bufs[bj].name;
    t.bufs[bj].init = t.bufs[bi].init;
    for (auto& b : t.bufs) if (b.role == R_OUT || b.role == R_INOUT) for (auto& m : b.mask) if (m == 1) m = 2;
    fn(t, ki);
    ApiCase u = t;
    u.id = c.id + "|one array passed as " + c.bufs[bi].name + " and " + c.bufs[bj].name;
    u.bufs[bj].alias_of = bi;
    fn(u, ki);
  });
}

}  // namespace vf
