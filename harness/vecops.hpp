// apicase generators for the element-wise vec_znx family (small, big and mixed forms).
#pragma once
#include "apicase.hpp"
extern "C" {
#include "arithmetic/vec_znx_arithmetic.h"
}

namespace vf {

// ---- module cache: one module per (N, type, cfg) ----
struct ModKey { uint64_t n; int type; int avx2, fma; bool operator<(const ModKey& o) const {
  return std::tie(n, type, avx2, fma) < std::tie(o.n, o.type, o.avx2, o.fma); } };
inline std::map<const MODULE*, std::vector<std::pair<uint8_t*, size_t>>>& module_blocks() {
  static std::map<const MODULE*, std::vector<std::pair<uint8_t*, size_t>>> m;
  return m;
}
inline MODULE* get_module(uint64_t n, MODULE_TYPE t, const CpuCfg& cfg) {
  static std::map<ModKey, MODULE*> cache;
  ModKey k{n, (int)t, cfg.avx2, cfg.fma};
  auto it = cache.find(k);
  if (it != cache.end()) return it->second;
  set_cfg(cfg);
  AllocTrack& at = alloc_track();
  int n0 = at.n, on0 = at.on;
  at.on = 1;
  MODULE* m = new_module_info(n, t);
  at.on = on0;
  std::vector<std::pair<uint8_t*, size_t>> blocks;
  for (int i = n0; i < at.n; ++i) if (at.rec[i].live) blocks.push_back({(uint8_t*)at.rec[i].p, at.rec[i].size});
  module_blocks()[m] = blocks;
  set_cfg(CFG_NATIVE);
  cache[k] = m;
  return m;
}
// content hash of every block the library allocated for this module (MODULE struct and all tables)
inline uint64_t module_hash(const MODULE* m) {
  uint64_t h = 0xcbf29ce484222325ull;
  for (auto& b : module_blocks()[m]) h = fnv(b.first, b.second, h);
  return h;
}

struct VecOp {
  const char* name;
  int nin;        // number of inputs
  bool has_p;
  bool res_big, a_big, b_big;  // big operands have stride N by definition
  char model;     // z c n + - r a
  bool fft64_only;  // big ops exist on FFT64 modules only
};

static const VecOp VECOPS[] = {
    {"vec_znx_zero", 0, false, false, false, false, 'z', false},
    {"vec_znx_copy", 1, false, false, false, false, 'c', false},
    {"vec_znx_negate", 1, false, false, false, false, 'n', false},
    {"vec_znx_add", 2, false, false, false, false, '+', false},
    {"vec_znx_sub", 2, false, false, false, false, '-', false},
    {"vec_znx_rotate", 1, true, false, false, false, 'r', false},
    {"vec_znx_automorphism", 1, true, false, false, false, 'a', false},
    {"vec_znx_big_add", 2, false, true, true, true, '+', true},
    {"vec_znx_big_add_small", 2, false, true, true, false, '+', true},
    {"vec_znx_big_add_small2", 2, false, true, false, false, '+', true},
    {"vec_znx_big_sub", 2, false, true, true, true, '-', true},
    {"vec_znx_big_sub_small_a", 2, false, true, false, true, '-', true},
    {"vec_znx_big_sub_small_b", 2, false, true, true, false, '-', true},
    {"vec_znx_big_sub_small2", 2, false, true, false, false, '-', true},
    {"vec_znx_big_rotate", 1, true, true, true, false, 'r', true},
    {"vec_znx_big_automorphism", 1, true, true, true, false, 'a', true},
};
static const int NVECOPS = sizeof(VECOPS) / sizeof(VECOPS[0]);

enum Alias { AL_NONE = 0, AL_RES_A = 1, AL_RES_B = 2, AL_RES_A_B = 3, AL_A_B = 4,
             AL_RES_A_COMPACT = 5,
             AL_RES_A_VIEW = 6 };   // res == a pointer, different strides, one side a one-limb view (only limb 0 coincides)  // res == a pointer with a_sl >= res_sl + N (compacting a padded vector inside its own buffer:
                                      // limb 0 is in place, the other limbs are disjoint and are never overwritten before they are read)

struct VecShape {
  uint64_t N = 2;
  uint64_t rs = 1, as = 1, bs = 1;
  uint64_t rsl = 2, asl = 2, bsl = 2;
  int64_t p = 0;
  int alias = AL_NONE;
  uint64_t res_extra = 0;  // extra limbs present in the res allocation beyond res_size (must stay untouched)
};

inline std::string vecshape_id(const VecOp& op, const VecShape& s, const char* mtype, const char* cfg) {
  return sfmt("%s|%s|%s|N=%llu|rs=%llu,rsl=%llu|as=%llu,asl=%llu|bs=%llu,bsl=%llu|p=%lld|alias=%d|extra=%llu", op.name, mtype, cfg,
              (unsigned long long)s.N, (unsigned long long)s.rs, (unsigned long long)s.rsl, (unsigned long long)s.as,
              (unsigned long long)s.asl, (unsigned long long)s.bs, (unsigned long long)s.bsl, (long long)s.p, s.alias,
              (unsigned long long)s.res_extra);
}

inline uint64_t mod2n(int64_t p, uint64_t N) {
  i128 m = (i128)2 * N;
  i128 r = (i128)p % m;
  if (r < 0) r += m;
  return (uint64_t)r;
}

// reference: res = a * X^p  (negacyclic), data-type generic
template <class T> void ref_rotate(uint64_t N, int64_t p, T* res, const T* a) {
  uint64_t pp = mod2n(p, N);
  for (uint64_t i = 0; i < N; ++i) {
    uint64_t j = (i + pp) % (2 * N);
    if (j < N) res[j] = a[i]; else res[j - N] = -a[i];
  }
}
// reference: res = a(X^p), p odd
template <class T> void ref_automorphism(uint64_t N, int64_t p, T* res, const T* a) {
  uint64_t pp = mod2n(p, N);
  for (uint64_t i = 0; i < N; ++i) {
    uint64_t j = (uint64_t)(((u128)i * pp) % (2 * N));
    if (j < N) res[j] = a[i]; else res[j - N] = -a[i];
  }
}

inline void call_vecop(const MODULE* m, const VecOp& op, const VecShape& s, int64_t* res, const int64_t* a, const int64_t* b) {
  const std::string n = op.name;
  if (n == "vec_znx_zero") vec_znx_zero(m, res, s.rs, s.rsl);
  else if (n == "vec_znx_copy") vec_znx_copy(m, res, s.rs, s.rsl, a, s.as, s.asl);
  else if (n == "vec_znx_negate") vec_znx_negate(m, res, s.rs, s.rsl, a, s.as, s.asl);
  else if (n == "vec_znx_add") vec_znx_add(m, res, s.rs, s.rsl, a, s.as, s.asl, b, s.bs, s.bsl);
  else if (n == "vec_znx_sub") vec_znx_sub(m, res, s.rs, s.rsl, a, s.as, s.asl, b, s.bs, s.bsl);
  else if (n == "vec_znx_rotate") vec_znx_rotate(m, s.p, res, s.rs, s.rsl, a, s.as, s.asl);
  else if (n == "vec_znx_automorphism") vec_znx_automorphism(m, s.p, res, s.rs, s.rsl, a, s.as, s.asl);
  else if (n == "vec_znx_big_add") vec_znx_big_add(m, (VEC_ZNX_BIG*)res, s.rs, (const VEC_ZNX_BIG*)a, s.as, (const VEC_ZNX_BIG*)b, s.bs);
  else if (n == "vec_znx_big_add_small") vec_znx_big_add_small(m, (VEC_ZNX_BIG*)res, s.rs, (const VEC_ZNX_BIG*)a, s.as, b, s.bs, s.bsl);
  else if (n == "vec_znx_big_add_small2") vec_znx_big_add_small2(m, (VEC_ZNX_BIG*)res, s.rs, a, s.as, s.asl, b, s.bs, s.bsl);
  else if (n == "vec_znx_big_sub") vec_znx_big_sub(m, (VEC_ZNX_BIG*)res, s.rs, (const VEC_ZNX_BIG*)a, s.as, (const VEC_ZNX_BIG*)b, s.bs);
  else if (n == "vec_znx_big_sub_small_a") vec_znx_big_sub_small_a(m, (VEC_ZNX_BIG*)res, s.rs, a, s.as, s.asl, (const VEC_ZNX_BIG*)b, s.bs);
  else if (n == "vec_znx_big_sub_small_b") vec_znx_big_sub_small_b(m, (VEC_ZNX_BIG*)res, s.rs, (const VEC_ZNX_BIG*)a, s.as, b, s.bs, s.bsl);
  else if (n == "vec_znx_big_sub_small2") vec_znx_big_sub_small2(m, (VEC_ZNX_BIG*)res, s.rs, a, s.as, s.asl, b, s.bs, s.bsl);
  else if (n == "vec_znx_big_rotate") vec_znx_big_rotate(m, s.p, (VEC_ZNX_BIG*)res, s.rs, (const VEC_ZNX_BIG*)a, s.as);
  else if (n == "vec_znx_big_automorphism") vec_znx_big_automorphism(m, s.p, (VEC_ZNX_BIG*)res, s.rs, (const VEC_ZNX_BIG*)a, s.as);
  else machinery_error("unknown vecop %s", op.name);
}

// normalises the shape for the operand kinds (big operands: stride N) and for aliasing (same stride)
inline VecShape canon_shape(const VecOp& op, VecShape s) {
  if (op.res_big) s.rsl = s.N;
  if (op.a_big) s.asl = s.N;
  if (op.b_big) s.bsl = s.N;
  if (op.nin < 1) { s.as = 0; s.asl = s.N; }
  if (op.nin < 2) { s.bs = 0; s.bsl = s.N; }
  if (!op.has_p) s.p = 0;
  return s;
}
// is the aliasing pattern expressible for this op and shape (same pointer AND same stride)?
inline bool alias_ok(const VecOp& op, const VecShape& s) {
  switch (s.alias) {
    case AL_NONE: return true;
    case AL_RES_A: return op.nin >= 1 && s.rsl == s.asl;
    case AL_RES_B: return op.nin >= 2 && s.rsl == s.bsl;
    case AL_RES_A_B: return op.nin >= 2 && s.rsl == s.asl && s.rsl == s.bsl;
    case AL_A_B: return op.nin >= 2 && s.asl == s.bsl;
    case AL_RES_A_COMPACT: return op.nin >= 1 && !op.a_big && s.asl >= s.rsl + s.N;
    case AL_RES_A_VIEW: return op.nin >= 1 && s.rsl != s.asl && (s.rs <= 1 || s.as <= 1) && s.rs + s.as >= 1;
  }
  return false;
}

// data of input limb vectors: injective 62-bit probes; `b` uses a disjoint index range unless it is a
inline int64_t vec_a_value(uint64_t e) { return probe62(e); }
inline int64_t vec_b_value(uint64_t e) {
  if (e == 0) return (INT64_C(1) << 62) - 1;
  if (e == 1) return (INT64_C(1) << 62) - 2;
  return probe62((UINT64_C(1) << 40) + e);
}

inline ApiCase gen_vecop(const MODULE* mod, const VecOp& op, const VecShape& s0, const char* mtype, const char* cfg) {
  VecShape s = canon_shape(op, s0);
  ApiCase c;
  c.id = vecshape_id(op, s, mtype, cfg);
  const uint64_t N = s.N;
  size_t re = limbvec_elems(N, s.rs + s.res_extra, s.rsl);
  size_t ae = limbvec_elems(N, s.as, s.asl);
  size_t be = limbvec_elems(N, s.bs, s.bsl);
  int ir = c.add("res", R_OUT, re * 8);
  int ia = -1, ib = -1;
  if (op.nin >= 1) ia = c.add("a", R_IN, ae * 8);
  if (op.nin >= 2) ib = c.add("b", R_IN, be * 8);
  bool b_is_a = (s.alias == AL_A_B || s.alias == AL_RES_A_B);
  // structured rows next to the injective probes: limb 1 (mod 4) of `a` holds only multiples of 2^32, limb 2 (mod 4) of `b` only
  // zeros, limb 3 (mod 4) of `a` only zeros (a value-keyed shortcut - "this row is zero" - must still be right)
  const bool zgap = ((s.rs + s.as + s.bs) & 1) != 0;  // every other shape: the stride padding of the sources is zero (a shortcut that looks at the wrong window sees zeros there)
  auto a_val = [&](size_t e, uint64_t sl) { uint64_t limb = sl ? e / sl : 0, pos = sl ? e % sl : e; int64_t v = vec_a_value(e); if (zgap && pos >= N) v = 0;
    if (pos < N && limb % 4 == 1) v = (v >> 32) * (INT64_C(1) << 32); if (pos < N && limb % 4 == 3) v = 0;
    if (pos < N && limb % 8 == 6 && pos != N - 1) v = 0;  /* limb 6 (mod 8): zero except the last coefficient */ return v; };
  auto b_val = [&](size_t e, uint64_t sl) { uint64_t limb = sl ? e / sl : 0, pos = sl ? e % sl : e; int64_t v = vec_b_value(e); if (zgap && pos >= N) v = 0;
    if (pos < N && limb % 4 == 2) v = 0; return v; };
  if (ia >= 0) for (size_t e = 0; e < ae; ++e) put_i64(c.bufs[ia].init, e, a_val(e, s.asl));
  if (ib >= 0) for (size_t e = 0; e < be; ++e) put_i64(c.bufs[ib].init, e, b_is_a ? a_val(e, s.asl) : b_val(e, s.bsl));
  if (s.alias == AL_RES_A || s.alias == AL_RES_A_B || s.alias == AL_RES_A_COMPACT || s.alias == AL_RES_A_VIEW) c.bufs[ia].alias_of = ir;
  if (s.alias == AL_RES_B || s.alias == AL_RES_A_B) c.bufs[ib].alias_of = ir;
  if (s.alias == AL_A_B) c.bufs[ib].alias_of = ia;
  // model image
  std::vector<int64_t> la(N), lb(N), lr(N);
  Buf& R = c.bufs[ir];
  for (uint64_t i = 0; i < s.rs; ++i) {
    for (uint64_t j = 0; j < N; ++j) {
      la[j] = (ia >= 0 && i < s.as) ? get_i64(c.bufs[ia].init, i * s.asl + j) : 0;
      lb[j] = (ib >= 0 && i < s.bs) ? get_i64(c.bufs[ib].init, i * s.bsl + j) : 0;
    }
    switch (op.model) {
      case 'z': for (uint64_t j = 0; j < N; ++j) lr[j] = 0; break;
      case 'c': lr = la; break;
      case 'n': for (uint64_t j = 0; j < N; ++j) lr[j] = -la[j]; break;
      case '+': for (uint64_t j = 0; j < N; ++j) lr[j] = la[j] + lb[j]; break;
      case '-': for (uint64_t j = 0; j < N; ++j) lr[j] = la[j] - lb[j]; break;
      case 'r': ref_rotate(N, s.p, lr.data(), la.data()); break;
      case 'a': ref_automorphism(N, s.p, lr.data(), la.data()); break;
    }
    for (uint64_t j = 0; j < N; ++j) {
      put_i64(R.exp, i * s.rsl + j, lr[j]);
      memset(&R.mask[(i * s.rsl + j) * 8], 1, 8);
    }
  }
  c.nontrivial = s.rs > 0;
  c.call = [mod, &op, s, ir, ia, ib](uint8_t** p) {
    call_vecop(mod, op, s, (int64_t*)p[ir], ia >= 0 ? (const int64_t*)p[ia] : 0, ib >= 0 ? (const int64_t*)p[ib] : 0);
  };
  return c;
}

// bulk layer: outputs of 16 MiB and more (N x limbs x 8 bytes), strides N+1 / N / N+4, out of place and res == a - a path chosen by the
// total amount of data (non-temporal stores, blocking, prefetch distances) must still honour "no alignment beyond 8 bytes" and the
// size / stride semantics.  shape 0: 33 limbs at N = 65536, 1: 160 limbs at N = 16384, 2: 2049 limbs at N = 1024
inline void bulk_vec_cases(int opi, int mtype, int shape, const std::function<void(ApiCase&)>& fn) {
  const VecOp& op = VECOPS[opi];
  static const uint64_t SH[3][2] = {{65536, 33}, {16384, 160}, {1024, 2049}};
  const uint64_t N = SH[shape][0], L = SH[shape][1];
  static const CpuCfg native = {"native", 1, 1};
  MODULE* mod = get_module(N, mtype == 0 ? FFT64 : NTT120, native);
  const char* mt = mtype == 0 ? "fft64" : "ntt120";
  for (uint64_t sl : {N + 1, N, N + 4})
    for (int al = 0; al < 2; ++al) {
      VecShape s; s.N = N; s.rs = L; s.as = L - 1; s.bs = L + 1; s.rsl = s.asl = s.bsl = sl; s.p = op.model == 'r' ? 5 : 3; s.res_extra = 0;
      s.alias = al ? AL_RES_A : AL_NONE;
      if (al && op.nin < 1) continue;
      VecShape sc = canon_shape(op, s);
      if (al && !alias_ok(op, sc)) continue;
      ApiCase c = gen_vecop(mod, op, sc, mt, "native");
      c.id += "|bulk";
      fn(c);
    }
}

}  // namespace vf
