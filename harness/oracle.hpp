// Reference models ("boring"): exact polynomial arithmetic in Z[X]/(X^N+1) over __int128,
// balanced base-2^k digits by definition, 320-bit integers, q120 primes / CRT.
#pragma once
#include "common.hpp"

namespace vf {

typedef std::vector<i128> Poly;

inline std::string i128_str(i128 v) {
  if (v == 0) return "0";
  bool neg = v < 0;
  u128 u = neg ? (u128)(-(v + 1)) + 1 : (u128)v;
  std::string s;
  while (u) { s += char('0' + (int)(u % 10)); u /= 10; }
  if (neg) s += '-';
  std::reverse(s.begin(), s.end());
  return s;
}

// c = a * b in Z[X]/(X^N+1), schoolbook
inline Poly negacyclic_mul(const Poly& a, const Poly& b) {
  size_t N = a.size();
  Poly c(N, 0);
  for (size_t i = 0; i < N; ++i) {
    if (a[i] == 0) continue;
    for (size_t j = 0; j < N; ++j) {
      size_t k = i + j;
      if (k < N) c[k] += a[i] * b[j]; else c[k - N] -= a[i] * b[j];
    }
  }
  return c;
}
template <class T> inline void negacyclic_mul_i64(size_t N, i128* c, const T* a, const T* b) {
  for (size_t k = 0; k < N; ++k) c[k] = 0;
  for (size_t i = 0; i < N; ++i) {
    i128 ai = a[i];
    if (ai == 0) continue;
    for (size_t j = 0; j < N - i; ++j) c[i + j] += ai * b[j];
    for (size_t j = N - i; j < N; ++j) c[i + j - N] -= ai * b[j];
  }
}
inline Poly poly_add(const Poly& a, const Poly& b) { Poly c(a.size()); for (size_t i = 0; i < a.size(); ++i) c[i] = a[i] + b[i]; return c; }
inline Poly poly_sub(const Poly& a, const Poly& b) { Poly c(a.size()); for (size_t i = 0; i < a.size(); ++i) c[i] = a[i] - b[i]; return c; }
inline Poly poly_neg(const Poly& a) { Poly c(a.size()); for (size_t i = 0; i < a.size(); ++i) c[i] = -a[i]; return c; }
inline Poly poly_rotate(const Poly& a, int64_t p) {
  size_t N = a.size();
  i128 m = (i128)2 * N, r = (i128)p % m; if (r < 0) r += m;
  Poly c(N);
  for (size_t i = 0; i < N; ++i) { size_t j = (size_t)((i + (size_t)r) % (2 * N)); if (j < N) c[j] = a[i]; else c[j - N] = -a[i]; }
  return c;
}
inline Poly poly_automorphism(const Poly& a, int64_t p) {
  size_t N = a.size();
  i128 m = (i128)2 * N, r = (i128)p % m; if (r < 0) r += m;
  Poly c(N);
  for (size_t i = 0; i < N; ++i) { size_t j = (size_t)(((u128)i * (u128)r) % (2 * N)); if (j < N) c[j] = a[i]; else c[j - N] = -a[i]; }
  return c;
}

// ---- balanced base-2^k digits -----------------------------------------------------------------
// centred remainder of x modulo 2^k in [-2^(k-1), 2^(k-1))
inline i128 centred_mod_pow2(i128 x, unsigned k) {
  i128 M = (i128)1 << k;
  i128 r = x % M; if (r < 0) r += M;
  if (r >= M / 2) r -= M;
  return r;
}
// digits[i], i = 0 (most significant) .. n-1, of T = sum a_i 2^(k(n-1-i)) mod 2^(k n); carry chain
inline void balanced_digits(unsigned k, const std::vector<i128>& a, std::vector<i128>& digits) {
  size_t n = a.size();
  digits.assign(n, 0);
  i128 carry = 0;
  for (size_t t = n; t-- > 0;) {
    i128 x = a[t] + carry;
    i128 d = centred_mod_pow2(x, k);
    digits[t] = d;
    carry = (x - d) >> k;  // exact division
  }
}

// ---- small fixed-width big integer (two's complement, W 64-bit words) for definition-level checks
template <int W> struct BigInt {
  uint64_t w[W];
  BigInt() { memset(w, 0, sizeof w); }
  static BigInt from_i128(i128 v) {
    BigInt r;
    r.w[0] = (uint64_t)v; r.w[1] = (uint64_t)((u128)v >> 64);
    uint64_t ext = v < 0 ? ~0ull : 0;
    for (int i = 2; i < W; ++i) r.w[i] = ext;
    return r;
  }
  BigInt& operator+=(const BigInt& o) {
    unsigned __int128 c = 0;
    for (int i = 0; i < W; ++i) { c += (u128)w[i] + o.w[i]; w[i] = (uint64_t)c; c >>= 64; }
    return *this;
  }
  BigInt shl(unsigned s) const {
    BigInt r;
    unsigned ws = s / 64, bs = s % 64;
    for (int i = W - 1; i >= 0; --i) {
      uint64_t v = 0;
      if (i >= (int)ws) {
        v = w[i - ws] << bs;
        if (bs && i - (int)ws - 1 >= 0) v |= w[i - ws - 1] >> (64 - bs);
      }
      r.w[i] = v;
    }
    return r;
  }
  // keep the low `bits` bits (value modulo 2^bits, as a non-negative number)
  BigInt low_bits(unsigned bits) const {
    BigInt r = *this;
    for (int i = 0; i < W; ++i) {
      if ((unsigned)i * 64 >= bits) r.w[i] = 0;
      else if ((unsigned)(i + 1) * 64 > bits) r.w[i] &= (~0ull) >> (64 - bits % 64);
    }
    return r;
  }
  bool operator==(const BigInt& o) const { return memcmp(w, o.w, sizeof w) == 0; }
};

// ---- q120 -------------------------------------------------------------------------------------
// primes of the default (30-bit) configuration are read from the library headers by the checks;
// helper modular arithmetic on 64-bit values
inline uint64_t mulmod(uint64_t a, uint64_t b, uint64_t q) { return (uint64_t)((u128)a * b % q); }
inline uint64_t powmod(uint64_t a, uint64_t e, uint64_t q) {
  uint64_t r = 1 % q; a %= q;
  while (e) { if (e & 1) r = mulmod(r, a, q); a = mulmod(a, a, q); e >>= 1; }
  return r;
}
inline uint64_t invmod(uint64_t a, uint64_t q) { return powmod(a, q - 2, q); }
inline uint64_t smod(i128 x, uint64_t q) { i128 r = x % (i128)q; if (r < 0) r += q; return (uint64_t)r; }

inline uint32_t bitrev(uint32_t v, unsigned bits) {
  uint32_t r = 0;
  for (unsigned i = 0; i < bits; ++i) if (v & (1u << i)) r |= 1u << (bits - 1 - i);
  return r;
}
inline unsigned ilog2(uint64_t n) { unsigned k = 0; while ((1ull << k) < n) ++k; return k; }

}  // namespace vf
